"""Native replay for C01: random trees of nested ctx.scope (sync/async, with disposables) and
ctx.updated blocks against an environment-stack model of "innermost supplier wins"."""
import asyncio
import json
import logging
import os
import random
import sys
logging.disable(logging.CRITICAL)

from haiway import State, ctx
from haiway.context.types import MissingContext, MissingState


class A(State):
    v: int = 0


class B(State):
    v: int = 0


class C(State):
    v: int                     # needs an argument: cannot be default-constructed


class D(State):
    v: int = 5


class AA(A):                   # a subclass instance must not answer a request for its base type
    w: int = 0


class Flag(State):             # user-defined truthiness: instances may be falsy
    v: int = 0

    def __bool__(self):
        return self.v % 2 == 1


class Batch(State):            # ... or empty by __len__
    v: int = 0

    def __len__(self):
        return self.v % 2


class Gen[T](State):           # a generic state: its specialisation takes the defaults from the generic class
    v: int = 0
    item: T | None = None


GenInt = Gen[int]


class Deep(AA):                # defaults inherited over two levels, none of its own
    pass


TYPES = [A, B, C, D, AA, Flag, Batch, GenInt, Deep]
# which types "need no arguments", and what a default-constructed instance holds - stated here, not asked of the library
DEFAULTS = {A: dict(v=0), B: dict(v=0), D: dict(v=5), AA: dict(v=0, w=0), Flag: dict(v=0), Batch: dict(v=0),
            GenInt: dict(v=0, item=None), Deep: dict(v=0, w=0)}


class Disp:
    def __init__(self, states):
        self.states = states

    async def __aenter__(self):
        if not self.states:
            return None
        return self.states[0] if len(self.states) == 1 else list(self.states)

    async def __aexit__(self, *a):
        return None


def gen_tree(rng, depth):
    kind = rng.choice(["scope", "ascope", "updated", "adisp", "prepared", "aprepared"]) if depth > 0 else "leaf"
    if kind == "leaf" or depth == 0:
        return ("leaf",)
    n = rng.randint(0, 3)

    def val(lo, hi):
        # half of the values come from a two-element domain: equal-but-not-identical instances (of one type, in one block or
        # in nested blocks) are then common - "the instance supplied by the innermost block" is an identity, not an equality
        return rng.choice((1, 1, 2, rng.randint(lo, hi)))
    supplied = [rng.choice(TYPES)(v=val(1, 99)) for _ in range(n)]
    disp = [rng.choice(TYPES)(v=val(100, 199)) for _ in range(rng.randint(0, 2))] if kind == "adisp" else []
    if kind in ("prepared", "aprepared"):      # scope object made first, entered later inside a further update block
        disp = [rng.choice(TYPES)(v=val(200, 299)) for _ in range(rng.randint(1, 2))]
    kids = [gen_tree(rng, depth - 1) for _ in range(rng.randint(1, 2))]
    return (kind, supplied, disp, kids)


def expected(env, T, default):
    for frame in reversed(env):
        if T in frame:
            return ("value", frame[T])
    if default is not None:
        return ("value", default)
    if T in DEFAULTS:
        return ("equal", T(**DEFAULTS[T]))
    return ("missing-state", None)


def probe(env, problems, rng, where):
    for T in TYPES:
        for default in (None, T(v=-1)):
            for _ in range(2):          # repeated lookups must agree (no hidden memo)
                want = expected(env, T, default)
                try:
                    got = ("value", ctx.state(T, default=default))
                except MissingState:
                    got = ("missing-state", None)
                except Exception as e:  # noqa
                    got = ("error", repr(e))
                ok = (want[0] == "value" and got[0] == "value" and got[1] is want[1]) or \
                     (want[0] == "equal" and got[0] == "value" and got[1] == want[1] and type(got[1]) is T) or \
                     (want[0] == "missing-state" and got[0] == "missing-state")
                if not ok:
                    problems.append(f"at {where}: ctx.state({T.__name__}, default={default}) -> {got}, expected {want}")
                    return


async def walk(node, env, problems, rng, path):
    probe(env, problems, rng, path + ":before")
    if node[0] == "leaf" or problems:
        return
    kind, supplied, disp, kids = node
    frame = {}
    if kind in ("prepared", "aprepared"):
        between = {}
        for s in disp:
            between[type(s)] = s
        for s in supplied:
            frame[type(s)] = s
        new_env = env + [between, frame]
    else:
        for s in supplied + disp:
            frame[type(s)] = s
        new_env = env + [frame]

    async def inside():
        for i, k in enumerate(kids):
            await walk(k, new_env, problems, rng, f"{path}/{kind}{i}")
            probe(new_env, problems, rng, f"{path}/{kind}:between{i}")
    if kind == "prepared":
        sc = ctx.scope("s", *supplied)           # made here ...
        with ctx.updated(*disp):
            with sc:                             # ... entered inside a block that did not exist yet
                await inside()
    elif kind == "aprepared":
        sc = ctx.scope("s", *supplied)
        with ctx.updated(*disp):
            async with sc:
                await inside()
    elif kind == "scope":
        with ctx.scope("s", *supplied):
            await inside()
    elif kind == "ascope":
        async with ctx.scope("s", *supplied):
            await inside()
    elif kind == "adisp":
        async with ctx.scope("s", *supplied, disposables=[Disp(disp[:1]), Disp(disp[1:])]):
            await inside()
    else:
        with ctx.updated(*supplied):
            await inside()
    probe(env, problems, rng, path + ":after")


def outside_check():
    try:
        ctx.state(A)
        return "ctx.state outside every scope did not fail"
    except MissingContext:
        return None
    except Exception as e:  # noqa
        return f"ctx.state outside every scope raised {e!r}, expected MissingContext"


def types_that_need_arguments():
    """"... else a missing-state error": a type with an attribute that has no default needs an argument - also when that
    attribute's annotation admits None (`int | None` is not "defaults to None"), a Missing-typed one does not."""
    from haiway import Missing

    class NeedsOptional(State):
        v: int = 0
        limit: int | None

    class NeedsNothing(State):
        v: int = 0
        note: str | Missing

    async def prog():
        out = []
        async with ctx.scope("root", A(v=1)):
            for where in ("async scope", "update", "sync scope"):
                try:
                    if where == "update":
                        with ctx.updated(B(v=2)):
                            got = ctx.state(NeedsOptional)
                    elif where == "sync scope":
                        with ctx.scope("inner"):
                            got = ctx.state(NeedsOptional)
                    else:
                        got = ctx.state(NeedsOptional)
                    out.append(f"{where}: ctx.state(NeedsOptional) returned {got} although the type needs an argument (limit: int | None "
                               "has no default) and nobody supplied it - expected the missing-state error")
                except MissingState:
                    pass
                except Exception as e:  # noqa
                    out.append(f"{where}: ctx.state(NeedsOptional) raised {e!r}, expected the missing-state error")
            fallback = NeedsOptional(v=3, limit=None)
            if ctx.state(NeedsOptional, default=fallback) is not fallback:
                out.append("the explicit default of a type that needs arguments was not returned")
            try:
                if ctx.state(NeedsNothing) != NeedsNothing():
                    out.append("a type whose only default-less attribute admits Missing is default-constructible")
            except Exception as e:  # noqa
                out.append(f"ctx.state(NeedsNothing) raised {e!r}: the type needs no arguments")
        return out
    p = asyncio.run(prog())
    return p[0] if p else None


def main():
    sys.stdin.read()
    seed = int(os.environ.get("VERIF_SEED", "0") or 0)
    rng = random.Random(seed)
    p = outside_check() or types_that_need_arguments()
    n = 0
    if p is None:
        for _ in range(int(os.environ.get("C01_TREES", "150"))):
            n += 1
            tree = ("ascope", [A(v=1)], [], [gen_tree(rng, 3)])
            problems = []
            asyncio.run(walk(tree, [], problems, rng, "root")) if False else None
            # the root of the program is outside any scope: start with an outermost scope
            async def prog():
                async with ctx.scope("root", A(v=1)):
                    await walk(gen_tree(rng, 3), [{A: None}], problems, rng, "root")
            # (the outermost frame's A instance is created inside prog; rebuild env properly)
            async def prog2():
                a = D(v=1)
                async with ctx.scope("root", a):
                    await walk(gen_tree(rng, 3), [{D: a}], problems, rng, "root")
            asyncio.run(prog2())
            if problems:
                p = problems[0]
                break
    if p:
        print(json.dumps(dict(reproduced=True, detail=dict(problem=p, seed=seed), cases_tried=n), default=str))
    else:
        print(json.dumps(dict(reproduced=False, cases_tried=n, detail="statement held on every generated nesting")))


if __name__ == "__main__":
    main()
