"""Native replay for C13 in virtual time: groups of callers of an async cached function arriving
around one in-flight invocation, with cancellations and eviction/expiry while it is in flight."""
import asyncio
import itertools
import json
import logging
import os
import sys
sys.path.insert(0, os.path.dirname(os.path.abspath(__file__)))
logging.disable(logging.CRITICAL)

import haiway.helpers.caching as C
from haiway import cache
from vloop import run, Hang


class Boom(Exception):
    pass


FORM = "positional"          # how the callers pass the argument: all of them the same way (f(1) and f(x=1) are different keys)


def run_case(method, outcome, arrivals, cancels, evict_at, expiration):
    """arrivals: arrival instants of callers with key 1 (invocation takes 1.0); cancels: {caller: instant}"""
    async def main(loop):
        log = dict(started=0, cancelled=0, finished=0)
        boom = Boom("b")

        async def body(x):
            log["started"] += 1
            my = log["started"]                   # invocation id: order of starts
            try:
                await asyncio.sleep(1.0)
            except asyncio.CancelledError:
                log["cancelled"] += 1
                raise
            log["finished"] += 1
            if outcome == "exc" and x == 1:
                if my == 1:
                    raise boom
                raise Boom(my)
            return ("value", x, my)

        if method:
            class H:
                @cache(limit=1, expiration=expiration)
                async def m(self, x):
                    return await body(x)
            h = H()
            fn = h.m
        else:
            @cache(limit=1, expiration=expiration)
            async def fn(x):
                return await body(x)

        results = {}

        async def caller(i, at):
            await asyncio.sleep(at)
            try:
                results[i] = ("ret", await (fn(x=1) if FORM == "keyword" else fn(1)))
            except asyncio.CancelledError:
                results[i] = ("cancelled", None)
                raise
            except Boom as e:
                results[i] = ("exc", e)

        tasks = [asyncio.ensure_future(caller(i, at)) for i, at in enumerate(arrivals)]

        async def canceller(i, at):
            await asyncio.sleep(at)
            tasks[i].cancel()

        extra = [asyncio.ensure_future(canceller(i, at)) for i, at in cancels.items()]
        if evict_at is not None:
            async def evictor():
                await asyncio.sleep(evict_at)
                await (fn(x=2) if FORM == "keyword" else fn(2))                      # another key with limit=1 evicts key 1
            extra.append(asyncio.ensure_future(evictor()))
        await asyncio.gather(*tasks, *extra, return_exceptions=True)
        await asyncio.sleep(3)
        return log, results, boom

    try:
        log, results, boom = run(main, C)
    except Hang as h:
        return f"hang: {h}"
    # callers of key 1 arriving while the first invocation is in flight and its entry is alive share it
    first = min(arrivals)
    window_end = first + 1.0
    alive_until = window_end if expiration is None else min(window_end, first + expiration)
    if evict_at is not None and first <= evict_at:
        alive_until = min(alive_until, evict_at)
    sharers = [i for i, at in enumerate(arrivals) if first <= at < alive_until or at == first]
    if log["cancelled"]:
        return f"an in-flight invocation was cancelled ({log})"
    want = ("exc", boom) if outcome == "exc" else None
    vals = set()
    for i in sharers:
        if i in cancels and cancels[i] < window_end:
            if cancels[i] > arrivals[i] and results.get(i, ("?",))[0] != "cancelled":
                return f"caller {i} was cancelled at {cancels[i]} but got {results.get(i)}"
            continue
        r = results.get(i)
        if r is None:
            return f"caller {i} never finished"
        if outcome == "exc":
            if not (r[0] == "exc" and r[1] is boom):
                return f"caller {i} expected the invocation's exception, got {r}"
        else:
            if r[0] != "ret":
                return f"caller {i} expected the value, got {r}"
            vals.add(r[1])
    if len(vals) > 1:
        return f"callers sharing one in-flight key received different invocations: {vals}"
    p2 = later_generations(arrivals, cancels, evict_at, expiration, results, boom)
    if p2:
        return p2
    others = 0 if evict_at is None else 1
    late = [i for i, at in enumerate(arrivals) if i not in sharers]
    if log["started"] > 1 + others + len(late):
        return f"{log['started']} invocations started for {len(sharers)} overlapping callers (+{len(late)} late, +{others} other key)"
    return None


def later_generations(arrivals, cancels, evict_at, expiration, results, boom):
    """Reference model of the entry of key 1 (limit 1): every caller arriving while the *current* entry's invocation is in
    flight - also an invocation started after an expiry or eviction - joins exactly that invocation."""
    events = sorted([(at, 0, i) for i, at in enumerate(arrivals)] + ([(evict_at, 1, -1)] if evict_at is not None else []))
    inv, entry = 0, None                          # entry: (invocation id, start, expire or None)
    for t, kind, i in events:
        if kind == 1:
            inv += 1                              # the call with the other key starts its own invocation and evicts key 1
            entry = None
            continue
        if entry is not None and entry[2] is not None and abs(entry[2] - t) < 1e-9:
            return None                           # arrival exactly at the expiry instant: not pinned (float clock)
        alive = entry is not None and (entry[2] is None or t < entry[2])
        if alive:
            expected = entry[0] if t < entry[1] + 1.0 else None      # completed but still cached: not a C13 matter
        else:
            inv += 1
            entry = (inv, t, None if expiration is None else t + expiration)
            expected = inv
        if expected is None or i in cancels:
            continue
        r = results.get(i)
        if r is None:
            return f"caller {i} never finished"
        got = r[1][2] if r[0] == "ret" else (1 if r[1] is boom else (r[1].args[0] if r[0] == "exc" else None))
        if got != expected:
            return (f"caller {i} arrived at t={t} while invocation #{expected} of its key was in flight under a live entry but "
                    f"was served by invocation #{got}")
    return None


def reinserted_key(method, limit, expiration, gap):
    """Two keys: the entry of key "a" is evicted by "b" and made again later, and the *old* entry's expiry instant passes while
    the new invocation for "a" is in flight.  Callers of "a" arriving then share that invocation (its own entry is unexpired)."""
    async def main(loop):
        C.monotonic = loop.time
        started = []

        async def body(x):
            started.append((x, loop.time()))
            await asyncio.sleep(5.0 if len(started) == 3 else 0.0)
            return (x, len(started) if False else [s for s in started if s[0] == x][-1][1])

        if method:
            class H:
                @cache(limit=limit, expiration=expiration)
                async def m(self, x):
                    return await body(x)
            fn = H().m
        else:
            @cache(limit=limit, expiration=expiration)
            async def fn(x):
                return await body(x)
        res = {}

        async def caller(name, at, key):
            await asyncio.sleep(at)
            res[name] = await fn(key)
        # A: a at 0 (entry would expire at `expiration`); B: b at gap (evicts a when limit == 1); C: a again at 2*gap, in flight
        # for 5s; D: a at `expiration` + 1 (the first entry's deadline is over, C's entry is fresh and its call still running)
        await asyncio.gather(caller("A", 0, "a"), caller("B", gap, "b"), caller("C", 2 * gap, "a"),
                             caller("D", expiration + 1.0, "a"))
        return started, res
    try:
        started, res = run(main, C)
    except Hang as h:
        return f"re-inserted key: {h}"
    n_a = len([s for s in started if s[0] == "a"])
    want_calls = 2 if limit == 1 else 2 if False else (1 if expiration + 1.0 <= expiration else 2)
    if limit == 1:
        if n_a != 2 or res["C"] != res["D"]:
            return (f"limit=1 expiration={expiration}: the function ran {n_a}x for key 'a' (expected 2: A's call and the one C and D share); "
                    f"C got {res['C']}, D got {res['D']} - a caller arriving while the invocation for its key is in flight, the "
                    f"entry unexpired and most recently used, did not join it")
    return None


def search():
    n = 0
    for method in (False, True):
        for limit, expiration, gap in ((1, 10.0, 4.0), (1, 8.0, 3.0), (1, 6.0, 2.5)):
            n += 1
            p = reinserted_key(method, limit, expiration, gap)
            if p:
                return n, dict(method=method, problem=p)
    for method in (False, True):
        for outcome in ("value", "exc"):
            for arrivals in ([0, 0], [0, 0.5], [0, 0.5, 0.9], [0, 0.25, 0.5, 0.75], [0, 0.5, 1.2], [0, 0.8, 1.1, 1.6]):
                idx = range(len(arrivals))
                for k in range(0, 3):
                    for who in itertools.combinations(idx, k):
                        for when in (0.6, 0.95):
                            cancels = {i: when for i in who}
                            for evict_at, expiration in ((None, None), (0.7, None), (None, 0.3)):
                                n += 1
                                p = run_case(method, outcome, arrivals, cancels, evict_at, expiration)
                                if p:
                                    return n, dict(method=method, outcome=outcome, arrivals=arrivals, cancels=cancels,
                                                   evict_at=evict_at, expiration=expiration, problem=p)
    # the same sharing for callers that pass the argument by keyword (a reduced sweep: the key is built differently)
    global FORM
    FORM = "keyword"
    try:
        for method in (False, True):
            for outcome in ("value", "exc"):
                for arrivals in ([0, 0], [0, 0.5, 0.9], [0, 0.5, 1.2]):
                    for cancels in ({}, {0: 0.6}, {1: 0.6}):
                        for evict_at, expiration in ((None, None), (0.7, None), (None, 0.3)):
                            n += 1
                            p = run_case(method, outcome, arrivals, cancels, evict_at, expiration)
                            if p:
                                return n, dict(method=method, outcome=outcome, arrivals=arrivals, cancels=cancels, evict_at=evict_at,
                                               expiration=expiration, form="keyword arguments", problem=p)
    finally:
        FORM = "positional"
    return n, None


def main():
    sys.stdin.read()
    n, fail = search()
    if not fail:
        from mimic_frame import own_state_problems
        from haiway import cache as _cache
        n += 1
        p = own_state_problems(lambda f: _cache(limit=2, expiration=5.0)(f), True, "async cache")
        fail = dict(problem=p) if p else None
    if fail:
        print(json.dumps(dict(reproduced=True, detail=fail, cases_tried=n), default=str))
    else:
        print(json.dumps(dict(reproduced=False, cases_tried=n, detail="statement held on every enumerated scenario")))


if __name__ == "__main__":
    main()
