"""Native replay for C03: several concurrently running tasks, each entering its own random nesting of
scopes / updates with suspension points between operations; every lookup in every task must match
(snapshot of the spawner's environment at spawn time) + (the task's own blocks)."""
import asyncio
import json
import logging
import os
import random
import sys
logging.disable(logging.CRITICAL)

from haiway import State, ctx


class A(State):
    v: int = 0


class B(State):
    v: int = 0


class D(State):
    v: int = 5


class K(State):                # values that differ and print the same: K(v=1) / K(v="1")
    v: int | str = 0


def _twin():
    class A(State):            # a second class called `A`: same name, same printed form, different type
        v: int = 0
    return A


A2 = _twin()
A2.__qualname__ = "A"          # ... with the same qualified name too (two modules each defining `class A`)
TYPES = [A, B, D, K, A2]


def make(rng, lo, hi):
    """a state instance; half of the values come from a tiny domain, so that different tasks often supply equal-but-not-
    identical (or merely same-printing) instances - what a task sees is *its own* instance, an identity"""
    T = rng.choice(TYPES)
    v = rng.choice((1, 1, 2, rng.randint(lo, hi)))
    if T is K and rng.random() < 0.5:
        v = str(v)
    return T(v=v)


def lookup_ok(env, problems, who):
    for T in TYPES:
        for default in (None, T(v=-1)):
            want = None
            for fr in reversed(env):
                if T in fr:
                    want = ("is", fr[T])
                    break
            if want is None:
                want = ("is", default) if default is not None else ("eq", T())
            try:
                got = ctx.state(T, default=default)
            except Exception as e:  # noqa
                problems.append(f"{who}: ctx.state({T.__name__}) raised {e!r}")
                return
            if (want[0] == "is" and got is not want[1]) or (want[0] == "eq" and got != want[1]):
                problems.append(f"{who}: ctx.state({T.__name__}, default={default}) -> {got}, expected {want[1]} "
                                f"(what this task's own nesting and its start snapshot supply)")
                return


class Provider:
    """a disposable supplying state"""
    def __init__(self, states):
        self.states = states

    async def __aenter__(self):
        await asyncio.sleep(0)
        return list(self.states)

    async def __aexit__(self, *a):
        return None


async def program(rng, env, depth, problems, who, children, budget):
    lookup_ok(env, problems, who)
    await asyncio.sleep(0)
    if depth == 0 or problems:
        return
    for _ in range(rng.randint(1, 2)):
        kind = rng.choice(["scope", "ascope", "updated", "spawn", "task", "handoff", "adisp"])
        supplied = [make(rng, 1, 999) for _ in range(rng.randint(0, 2))]
        frame = {type(s): s for s in supplied}
        if kind == "handoff":
            # a scope object made by this task inside a private update, entered by a child that was started before it:
            # the child sees its own start snapshot plus what the scope supplies - nothing of the maker's private update
            if budget[0] <= 0:
                continue
            budget[0] -= 1
            snap = list(env)
            name = f"{who}.handoff{budget[0]}"
            fut = asyncio.get_running_loop().create_future()
            use_async = rng.random() < 0.5

            async def receiver(snap=snap, frame=frame, name=name, fut=fut, use_async=use_async):
                sc = await fut
                lookup_ok(snap, problems, name)
                if use_async:
                    async with sc:
                        lookup_ok(snap + [frame], problems, name + ":inside the handed-over scope")
                        await asyncio.sleep(0)
                else:
                    with sc:
                        lookup_ok(snap + [frame], problems, name + ":inside the handed-over scope")
                        await asyncio.sleep(0)
                lookup_ok(snap, problems, name)
            children.append(ctx.spawn(receiver) if rng.random() < 0.5 else asyncio.ensure_future(receiver()))
            await asyncio.sleep(0)
            private = [make(rng, 1000, 1999) for _ in range(rng.randint(1, 2))]
            with ctx.updated(*private):
                fut.set_result(ctx.scope("job", *supplied))
                await asyncio.sleep(0)
                lookup_ok(env + [{type(x): x for x in private}], problems, who)
            lookup_ok(env, problems, who)
            continue
        if kind in ("spawn", "task"):
            if budget[0] <= 0:
                continue
            budget[0] -= 1
            snap = list(env)
            name = f"{who}.{kind}{budget[0]}"
            coro = program(random.Random(rng.random()), snap, depth - 1, problems, name, children, budget)
            if kind == "spawn":
                async def run(c=coro):
                    await c
                children.append(ctx.spawn(run))
            else:
                children.append(asyncio.ensure_future(coro))
            await asyncio.sleep(0)
            lookup_ok(env, problems, who)
            continue
        inner = env + [frame]
        if kind == "scope":
            with ctx.scope("s", *supplied):
                await program(rng, inner, depth - 1, problems, who, children, budget)
                lookup_ok(inner, problems, who)
        elif kind == "ascope":
            async with ctx.scope("s", *supplied):
                await program(rng, inner, depth - 1, problems, who, children, budget)
                lookup_ok(inner, problems, who)
        elif kind == "adisp":           # all of the scope's state comes from its disposables
            async with ctx.scope("s", disposables=[Provider(supplied)]):
                await program(rng, inner, depth - 1, problems, who, children, budget)
                lookup_ok(inner, problems, who)
        else:
            with ctx.updated(*supplied):
                await program(rng, inner, depth - 1, problems, who, children, budget)
                lookup_ok(inner, problems, who)
        await asyncio.sleep(0)
        lookup_ok(env, problems, who)


async def settle(children, problems):
    for c in list(children):
        try:
            await c
        except asyncio.CancelledError:
            pass
        except RuntimeError as e:
            if "TaskGroup" not in str(e):
                problems.append(f"a task of the program failed with {e!r}")
        except BaseException as e:  # noqa
            problems.append(f"a task of the program failed with {e!r}: entering or leaving one of its own blocks raised")


def tasks_made_by_helpers():
    """The helper decorators start tasks of their own inside the caller's scope (`timeout` runs the function in a task, the
    async cache runs the shared invocation in one): what such a task enters is never visible to the caller - neither while
    the function is suspended inside its own update when the deadline fires, nor after it has unwound - and the caller's
    later updates are not undone by it."""
    from haiway import timeout, cache
    out = []

    async def prog():
        never = asyncio.Event()

        @timeout(0.02)
        async def timed():
            with ctx.updated(A(v=77)):
                await never.wait()

        @cache
        async def cached(key):
            with ctx.updated(A(v=88)):
                await asyncio.sleep(0)
                await asyncio.sleep(0)
                return ctx.state(A).v
        async with ctx.scope("root", A(v=1)):
            try:
                await timed()
                out.append("the timed function returned although it waits for ever")
            except TimeoutError:
                pass
            seen = [ctx.state(A).v]                      # at once, before the cancelled function has unwound
            with ctx.updated(A(v=2)):
                for _ in range(5):
                    await asyncio.sleep(0)
                seen.append(ctx.state(A).v)
            seen.append(ctx.state(A).v)
            if seen != [1, 2, 1]:
                out.append(f"caller of a timed-out function that sat in its own ctx.updated(A(v=77)): the caller read A.v = {seen} "
                           "(right after the timeout, inside its own later update A(v=2), after it); expected [1, 2, 1]")
            t = asyncio.ensure_future(cached("k"))
            await asyncio.sleep(0)
            during = ctx.state(A).v
            inner = await t
            after = ctx.state(A).v
            if (during, inner, after) != (1, 88, 1):
                out.append(f"caller of a cached coroutine that enters ctx.updated(A(v=88)): caller saw {during} during, the function "
                           f"saw {inner}, caller saw {after} after; expected (1, 88, 1)")
    try:
        asyncio.run(asyncio.wait_for(prog(), 10))
    except BaseException as e:  # noqa
        out.append(f"helper-made tasks program ended with {e!r}")
    return out


def main():
    sys.stdin.read()
    seed = int(os.environ.get("VERIF_SEED", "0") or 0)
    n = 1
    hp = tasks_made_by_helpers()
    p = hp[0] if hp else None
    if p:
        print(json.dumps(dict(reproduced=True, detail=dict(problem=p, scenario="helper-made tasks"), cases_tried=n), default=str))
        return
    for k in range(int(os.environ.get("C03_PROGRAMS", "120"))):
        n += 1
        rng = random.Random(seed * 100003 + k)
        problems, children = [], []

        async def prog():
            root = D(v=1)
            if k % 3 == 2:
                # no asynchronous scope around: ctx.spawn has no task group and starts detached tasks (its fallback branch) - they
                # inherit a snapshot all the same
                with ctx.scope("root", root):
                    await program(rng, [{D: root}], 3, problems, "main", children, [4])
                    await settle(children, problems)
                return
            async with ctx.scope("root", root):
                await program(rng, [{D: root}], 3, problems, "main", children, [4])
                for c in list(children):
                    try:
                        await c
                    except asyncio.CancelledError:
                        pass
                    except RuntimeError as e:
                        if "TaskGroup" not in str(e):       # (a spawn into a scope that is already over is refused: not C03's concern)
                            problems.append(f"a task of the program failed with {e!r}")
                    except BaseException as e:  # noqa  (the generated programs raise nothing themselves)
                        problems.append(f"a task of the program failed with {e!r}: entering or leaving one of its own blocks raised")
        try:
            asyncio.run(prog())
        except BaseException as e:  # noqa
            problems.append(f"the program failed with {e!r}: entering or leaving a block of the main task raised")
        if problems:
            p = problems[0]
            break
    if p:
        print(json.dumps(dict(reproduced=True, detail=dict(problem=p, seed=seed, program=n), cases_tried=n), default=str))
    else:
        print(json.dumps(dict(reproduced=False, cases_tried=n, detail="statement held on every generated program")))


if __name__ == "__main__":
    main()
