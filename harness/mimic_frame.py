"""Shared native scenario of the helper decorators (C12, C13, C15, C16, C18): the wrapper *objects* keep their state in their
instance dict and copy the wrapped callable's metadata onto themselves last (`mimic_function(function, within=self)`).  When the
wrapped callable carries attributes of the same names (another helper wrapper that was `functools.wraps`-ed, a function object
with user attributes), the wrapper's own state must survive - whatever its current value (an empty deque / dict / 0 is falsy)."""
import functools


def own_state_problems(make, is_async: bool, label: str):
    """make(function) -> wrapper object.  Returns a description of the first own attribute that the wrapped callable's
    attributes replaced, or None."""
    if is_async:
        async def plain(*args, **kwargs):
            return None
    else:
        def plain(*args, **kwargs):
            return None
    try:
        own = dict(vars(make(plain)))
    except TypeError:
        return None                      # the wrapper is a function (closure) without an instance dict of its own state
    names = [k for k in own if not (k.startswith("__") and k.endswith("__"))]
    if not names:
        return None

    class Sentinel:
        def __repr__(self):
            return "<attribute of the wrapped callable>"
    sentinel = Sentinel()
    if is_async:
        async def carrier(*args, **kwargs):
            return None
    else:
        def carrier(*args, **kwargs):
            return None
    for k in names:
        carrier.__dict__[k] = sentinel
    wrapped = make(carrier)
    for k in names:
        if vars(wrapped).get(k) is sentinel:
            return (f"{label}: the wrapper's own attribute {k!r} (initially {own[k]!r}) was replaced by the wrapped callable's "
                    f"attribute of the same name")
    # the same through functools.wraps of another wrapper object (the usual way such attributes get onto a function)
    inner = make(plain)
    if is_async:
        @functools.wraps(inner)
        async def trampoline(*args, **kwargs):
            return await inner(*args, **kwargs)
    else:
        @functools.wraps(inner)
        def trampoline(*args, **kwargs):
            return inner(*args, **kwargs)
    outer = make(trampoline)
    for k in names:
        a, b = vars(outer).get(k), vars(inner).get(k)
        if a is b and not isinstance(a, (int, float, str, bool, type(None), tuple, frozenset)) and k != "_function":
            return f"{label}: stacked wrappers share the mutable attribute {k!r} ({a!r})"
    if "_function" in names and vars(outer).get("_function") is not trampoline:
        return f"{label}: the outer wrapper calls {vars(outer).get('_function')!r}, not the function it was given"
    return None
