"""Native replay for C04: immutability of State instances, copy-on-update, copy/deepcopy, equality.
The known finding "deepcopy of a state holding a Mapping attribute raises" is only checked when
C04_CHECK_DEEPCOPY_MAPPING=1 (it is listed in known_findings.json)."""
import copy
import json
import logging
import os
import sys
from collections.abc import Mapping, Sequence, Set
from typing import Any, Literal
logging.disable(logging.CRITICAL)

from haiway import MISSING, Missing, State


class Inner(State):
    x: int = 0


class S(State):
    n: int = 1
    seq: Sequence[int] = ()
    st: Set[str] = frozenset()
    mp: Mapping[str, int] | Missing = MISSING
    inner: Inner = Inner()
    opt: str | None = None


class S2(S):
    extra: int = 0


class Matrix(State):
    rows: Sequence[Sequence[int]] = ()
    groups: Sequence[Set[str]] = ()
    tables: tuple[Mapping[str, int], ...] = ()


class Twin1(State):
    n: int = 1


class Twin2(State):
    n: int = 1


class Plain(State):
    n: int = 1
    seq: Sequence[int] = ()
    inner: Inner = Inner()


class Upd(State):
    n: int = 1
    r: int | float = 1
    seq: Sequence[int] = (1, 2)
    name: str = "a"
    flag: bool = True


def strict(v):
    """value with the types of everything in it (1 == 1.0 == True must not be confused)"""
    if isinstance(v, (tuple, list)):
        return (type(v).__name__, tuple(strict(x) for x in v))
    return (type(v).__name__, v)


def updated_sweep():
    """updated(k=v) must be exactly: validate v against k's annotation, replace k, keep the rest -
    i.e. the same as constructing the class from the old attributes with k replaced, for *every* v,
    including replacements that compare equal to the value already held."""
    out = []
    pool = [1, 1.0, True, 2, 0, False, "a", "b", (1, 2), (1.0, 2.0), [1, 2], [True, 2], (), None]
    for base in (Upd(), Upd(n=0, r=0.0, seq=[], name="", flag=False)):
        for k in ("n", "r", "seq", "name", "flag"):
            for v in pool:
                try:
                    want = ("ok", Upd(**{**vars(base), k: v}))
                except Exception:  # noqa
                    want = ("rejected", None)
                before = {a: strict(getattr(base, a)) for a in vars(base)}
                try:
                    got = ("ok", base.updated(**{k: v}))
                except Exception:  # noqa
                    got = ("rejected", None)
                if {a: strict(getattr(base, a)) for a in vars(base)} != before:
                    out.append(f"updated({k}={v!r}) changed the original instance")
                if want[0] != got[0]:
                    out.append(f"{base}.updated({k}={v!r}) was {got[0]} but constructing with that value is {want[0]}")
                elif want[0] == "ok":
                    for a in vars(base):
                        if strict(getattr(got[1], a)) != strict(getattr(want[1], a)):
                            out.append(f"{base}.updated({k}={v!r}): attribute {a} is {getattr(got[1], a)!r}, expected {getattr(want[1], a)!r}")
                if len(out) > 3:
                    return out
    return out


class Overlap(State):           # overlapping union: a converting alternative first, a permissive one later
    content: Sequence[int] | Any = ()
    pair: tuple[int, ...] | Set[int] | Any = ()


DEFAULT_TAGS, DEFAULT_FLAGS, DEFAULT_MAP = ["a"], {"x"}, {"k": 1}


class Defaulted(State):        # mutable containers declared as defaults
    name: str = "n"
    tags: Sequence[str] = DEFAULT_TAGS
    flags: Set[str] = DEFAULT_FLAGS
    table: Mapping[str, int] = DEFAULT_MAP


def defaulted_attributes():
    """An attribute left at its declared default holds the same immutable snapshot an explicitly passed value would."""
    out = []
    d = Defaulted()
    e = Defaulted(tags=["a"], flags={"x"}, table={"k": 1})
    if d != e or e != d or not isinstance(d.tags, tuple) or not isinstance(d.flags, frozenset):
        out.append(f"an instance left at its declared defaults holds {d.tags!r} / {d.flags!r}, passing the same values explicitly gives "
                   f"{e.tags!r} / {e.flags!r}")
    snap = repr(d)
    if copy.copy(d) != d or d.updated() != d:
        out.append("copy / updated of an instance left at its defaults is not equal to it")
    DEFAULT_TAGS.append("b"); DEFAULT_FLAGS.add("y"); DEFAULT_MAP["z"] = 2
    try:
        if repr(d) != snap:
            out.append(f"mutating the container declared as a default changed an existing instance: {snap} -> {d!r}")
    finally:
        DEFAULT_TAGS.pop(); DEFAULT_FLAGS.discard("y"); DEFAULT_MAP.pop("z")
    return out


class LitInt(State):           # declared first
    version: Literal[1] = 1
    name: str = "n"


class LitBool(State):          # declared later: an ==-equal literal of another type is its own annotation
    strict: Literal[True] = True
    name: str = "n"


def lookalike_literals():
    out = []
    try:
        t = LitBool(strict=True)
        if t.updated(strict=True) != t or copy.copy(t) != t or type(t.updated(strict=True).strict) is not bool:
            out.append("LitBool(strict=True): updated / copy do not give an equal instance holding True")
    except Exception as e:  # noqa
        out.append(f"LitBool(strict=True) / its update was rejected: {e!r}"[:200])
        return out
    for bad in (1, 1.0, False, "True"):
        try:
            u = t.updated(strict=bad)
            out.append(f"LitBool.updated(strict={bad!r}) was accepted and holds {u.strict!r}")
        except Exception:  # noqa
            pass
    for bad in (True, 1.0):
        try:
            LitInt(version=bad)
            out.append(f"LitInt(version={bad!r}) was accepted")
        except Exception:  # noqa
            pass
    return out


def history_independence():
    """What an instance holds depends on the arguments of *its* construction alone, never on which values other
    instances of the class were built from before (validators keep no history)."""
    out = []
    first = Overlap(content=[1, 2], pair=[1])
    snap = (strict(first.content), strict(first.pair))
    for primer in ("text", object(), 3.5, {"k": 1}, None):
        Overlap(content=primer, pair=primer)                 # values only the permissive alternative accepts
        lst = [1, 2]
        again = Overlap(content=lst, pair=[1])
        if (strict(again.content), strict(again.pair)) != snap or again != first:
            out.append(f"Overlap(content=[1, 2]) built after an instance holding {primer!r} stores {again.content!r} / {again.pair!r}, "
                       f"the same call before stored {first.content!r} / {first.pair!r}")
            break
        lst.append(3)
        if strict(again.content) != snap[0]:
            out.append("mutating the list passed to the constructor changed the state (after other instances were built)")
            break
        upd = first.updated(content=[1, 2])
        if strict(upd.content) != snap[0]:
            out.append(f"updated(content=[1, 2]) after priming stores {upd.content!r}")
            break
    return out


def problems():
    out = []
    lst, stt, dct = [1, 2], {"a"}, {"k": 1}
    s = S(n=5, seq=lst, st=stt, mp=dct)
    snap = (s.n, tuple(s.seq), frozenset(s.st), dict(s.mp))
    lst.append(3); stt.add("b"); dct["z"] = 9
    if (s.n, tuple(s.seq), frozenset(s.st), dict(s.mp)) != snap:
        out.append("mutating the containers passed to the constructor changed the state")
    for act, what in ((lambda: setattr(s, "n", 6), "assignment"), (lambda: delattr(s, "n"), "deletion"),
                      (lambda: setattr(s, "new", 1), "assignment of a new attribute")):
        try:
            act()
            out.append(f"attribute {what} was accepted")
        except AttributeError:
            pass
        except Exception as e:  # noqa
            out.append(f"attribute {what} raised {type(e).__name__} instead of AttributeError")
    for mut in (lambda: s.seq.append(1), lambda: s.st.add("x"), lambda: s.mp.__setitem__("q", 1)):
        try:
            mut()
            out.append("a stored container could be mutated in place")
        except (AttributeError, TypeError):
            pass
    for outer in (tuple, list):
        ra, ga, ta = [1, 2], {"a"}, {"k": 1}
        m = Matrix(rows=outer([ra]), groups=outer([ga]), tables=outer([ta]))
        before = repr(m)
        m2 = copy.copy(m)
        ra.append(9); ga.add("z"); ta["q"] = 2
        if repr(m) != before or m2 != m or not isinstance(m.rows[0], tuple) or not isinstance(m.groups[0], frozenset):
            out.append(f"containers nested inside a {outer.__name__} argument are stored by reference: {before} -> {m!r}")
    u = s.updated(n=7, unknown_name=1)
    if (u.n, u.seq, u.st) != (7, s.seq, s.st) or s.n != 5 or u is s:
        out.append(f"updated(n=7) gave {u} from {s}")
    try:
        s.updated(n="bad")
        out.append("updated() accepted an invalid replacement value")
    except Exception:  # noqa
        pass
    if s.n != 5:
        out.append("a failed update changed the original")
    out += updated_sweep()
    out += history_independence()
    out += defaulted_attributes()
    out += lookalike_literals()
    p = Plain(n=2, seq=[1], inner=Inner(x=3))
    for name, f in (("copy", copy.copy), ("deepcopy", copy.deepcopy)):
        try:
            c = f(p)
            if c != p or type(c) is not Plain:
                out.append(f"{name} of {p} gave {c}")
        except Exception as e:  # noqa
            out.append(f"{name} raised {e!r}")
    try:
        c = copy.copy(s)
        if c != s:
            out.append("copy of a state with a Mapping attribute is not equal to it")
    except Exception as e:  # noqa
        out.append(f"copy raised {e!r}")
    if os.environ.get("C04_CHECK_DEEPCOPY_MAPPING") == "1":
        try:
            if copy.deepcopy(s) != s:
                out.append("deepcopy of a state with a Mapping attribute is not equal to it")
        except Exception as e:  # noqa
            out.append(f"deepcopy of a state holding a Mapping attribute raised {e!r}")
    a, b, c3 = Plain(n=1, seq=[1]), Plain(n=1, seq=(1,)), Plain(n=1, seq=[1.0] if False else [1])
    if not (a == a and a == b and b == a and (a == b and b == c3) <= (a == c3)):
        out.append("equality is not an equivalence on equal instances")
    if Plain(n=1) == Plain(n=2) or Plain(n=1) == Inner(x=1) or Plain() == 1 or Plain() == None:  # noqa
        out.append("instances with different attributes / classes compare equal")
    if Twin1() == Twin2() or Twin2(n=3) == Twin1(n=3):
        out.append("instances of unrelated classes with equal attributes compare equal")
    if (S() == S2()) or (S2() == S()):
        out.append("instances of different classes (base vs subclass) compare equal with the == operator")
    return out


class Shapes(State):           # one attribute per container shape of the vocabulary (Mapping apart: known deepcopy finding)
    pair: tuple[int, int] = (0, 0)
    triple: tuple[int, str, float] = (0, "", 0.0)
    var: tuple[int, ...] = ()
    pairs: Sequence[tuple[int, int]] = ()
    maybe: tuple[int, int] | None = None
    names: Set[str] = frozenset()
    nested: Sequence[Sequence[tuple[str, int]]] = ()
    kind: Literal["a", "b"] = "a"
    inner: Inner | None = None


def repeated_validation():
    """Deriving a copy re-validates: every validator is used again and again over the life of a class.  A second instance, a
    copy, a deep copy and an update must come out exactly like the first validation did."""
    out = []
    args = dict(pair=(1, 2), triple=[3, "x", 4.5], var=[7, 8, 9], pairs=[(1, 2), [3, 4]], maybe=(5, 6), names={"n", "m"},
                nested=[[("k", 1)], []], kind="b", inner=Inner(x=3))
    want = dict(pair=(1, 2), triple=(3, "x", 4.5), var=(7, 8, 9), pairs=((1, 2), (3, 4)), maybe=(5, 6),
                names=frozenset({"n", "m"}), nested=((("k", 1),), ()), kind="b", inner=Inner(x=3))
    first = Shapes(**args)
    for label, make in (("the first instance", lambda: first), ("a second instance", lambda: Shapes(**args)),
                        ("copy.copy", lambda: copy.copy(first)), ("copy.deepcopy", lambda: copy.deepcopy(first)),
                        ("updated()", lambda: first.updated()), ("updated(kind='b')", lambda: first.updated(kind="b")),
                        ("updated(unknown=1)", lambda: first.updated(unknown=1)),
                        ("a third instance", lambda: Shapes(**args)), ("a copy of a copy", lambda: copy.copy(copy.copy(first)))):
        try:
            got = make()
        except Exception as e:  # noqa
            out.append(f"{label} of a state with tuple / sequence / set attributes raised {e!r}")
            continue
        bad = [k for k, v in want.items() if strict(getattr(got, k)) != strict(v)]
        if bad:
            out.append(f"{label}: attribute {bad[0]} is {getattr(got, bad[0])!r}, expected {want[bad[0]]!r}")
        elif got != first or first != got:
            out.append(f"{label} is not equal to the original")
    try:
        u = first.updated(pair=(9, 8), var=[1])
        if (u.pair, u.var, u.triple, first.pair, first.var) != ((9, 8), (1,), (3, "x", 4.5), (1, 2), (7, 8, 9)):
            out.append(f"updated(pair=(9, 8), var=[1]) gave pair={u.pair!r} var={u.var!r} triple={u.triple!r}; original pair={first.pair!r}")
    except Exception as e:  # noqa
        out.append(f"updated(pair=(9, 8), var=[1]) raised {e!r}")
    for bad_kwargs in (dict(pair=("a", 2)), dict(pair=(1, 2, 3)), dict(triple=(1, 2, 3)), dict(pairs=[(1,)]), dict(kind="c")):
        try:
            first.updated(**bad_kwargs)
            out.append(f"updated({bad_kwargs}) was accepted: the replacement value is not re-validated")
        except Exception:  # noqa
            pass
    return out


type Number = int | float


class Measurement(State):      # a union nested in a union survives only through an alias or a type parameter
    value: Number | str = 0
    note: str | Number | None = None


class Box[T](State):
    content: T | None = None


def nested_unions():
    out = []
    for label, make, want in (
            ("Measurement(value=1).updated(value='n/a')", lambda: Measurement(value=1).updated(value="n/a"), dict(value="n/a")),
            ("Measurement(value='x').updated(value=2.5)", lambda: Measurement(value="x").updated(value=2.5), dict(value=2.5)),
            ("Measurement(note=None).updated(note='n')", lambda: Measurement().updated(note="n"), dict(note="n")),
            ("copy of Measurement(value='n/a', note=1.5)", lambda: copy.copy(Measurement(value="n/a", note=1.5)), dict(value="n/a", note=1.5)),
            ("deepcopy of Measurement(value='n/a')", lambda: copy.deepcopy(Measurement(value="n/a")), dict(value="n/a")),
            ("Box[int | str]().updated(content='s')", lambda: Box[int | str]().updated(content="s"), dict(content="s")),
            ("Box[int | str](content=3).updated()", lambda: Box[int | str](content=3).updated(), dict(content=3)),
            ("copy of Box[int | str]()", lambda: copy.copy(Box[int | str]()), dict(content=None))):
        try:
            got = make()
        except BaseException as e:  # noqa
            out.append(f"{label} raised {type(e).__name__}: the valid replacement / the copy was not accepted")
            continue
        for k, v in want.items():
            if getattr(got, k) != v or type(getattr(got, k)) is not type(v):
                out.append(f"{label}: attribute {k} is {getattr(got, k)!r}, expected {v!r}")
    for label, make in (("Measurement().updated(value=b'bytes')", lambda: Measurement().updated(value=b"bytes")),
                        ("Box[int | str]().updated(content=2.5)", lambda: Box[int | str]().updated(content=2.5))):
        try:
            make()
            out.append(f"{label} was accepted")
        except Exception:  # noqa
            pass
    return out


class Routing(State):          # containers inside a Mapping: the caller keeps references to the inner ones as well
    routes: Mapping[str, Sequence[int]] = {}
    tags: Mapping[str, Set[str]] = {}
    nested: Mapping[str, Mapping[str, int]] = {}
    pairs: Mapping[str, tuple[int, ...]] = {}


def nested_in_mapping():
    out = []
    routes, tags, nested, pairs = {"web": [1, 2]}, {"a": {"x"}}, {"n": {"k": 1}}, {"p": [1, 2]}
    r = Routing(routes=routes, tags=tags, nested=nested, pairs=pairs)
    twin = Routing(routes={"web": (1, 2)}, tags={"a": frozenset({"x"})}, nested={"n": {"k": 1}}, pairs={"p": (1, 2)})
    snap = repr(r)
    if r != twin or twin != r:
        out.append("states built from equal mappings (lists vs tuples inside) are not equal")
    upd = r.updated(unknown=1, tags={"b": {"y"}})
    c = copy.copy(r)
    routes["web"].append(3); routes["new"] = [9]; tags["a"].add("z"); nested["n"]["k"] = 2; nested["n"]["m"] = 3; pairs["p"].append(3)
    if repr(r) != snap:
        out.append(f"mutating the containers inside a dict passed to the constructor changed the state: {snap} -> {r!r}")
    if r != twin:
        out.append("after mutating the argument containers the state no longer equals an instance that was equal to it")
    if c != r or repr(c) != snap:
        out.append("a copy taken before the argument containers were mutated differs from the original afterwards")
    if repr(upd.routes) != repr(twin.routes) or dict(upd.tags) != {"b": frozenset({"y"})}:
        out.append(f"updated(tags=...) gave routes={upd.routes!r} tags={upd.tags!r}")
    for label, act in (("r.routes['web'].append(4)", lambda: r.routes["web"].append(4)), ("r.tags['a'].add('q')", lambda: r.tags["a"].add("q")),
                       ("r.nested['n']['k'] = 5", lambda: r.nested["n"].__setitem__("k", 5)), ("r.routes['x'] = ()", lambda: r.routes.__setitem__("x", ()))):
        try:
            act()
            out.append(f"{label} was accepted: a container inside a Mapping attribute is mutable")
        except (AttributeError, TypeError):
            pass
    return out


class Entry(State):
    name: str
    note: str | Missing = MISSING
    tags: Sequence[str] = ("default",)
    count: int | Missing | None = None


def updated_with_missing():
    """"replaces exactly the named attributes": MISSING is a value like any other replacement - it goes through the attribute's
    validation (where it stands for "use the default"), exactly as in the constructor and in __replace__."""
    out = []
    e = Entry(name="a", note="remember", tags=["x", "y"], count=3)
    for label, got, want in (
            ("updated(note=MISSING).note", lambda: e.updated(note=MISSING).note, MISSING),
            ("updated(tags=MISSING).tags", lambda: e.updated(tags=MISSING).tags, ("default",)),
            ("updated(count=MISSING).count", lambda: e.updated(count=MISSING).count, None),
            ("updated(count=None).count", lambda: e.updated(count=None).count, None),
            ("updated(note=MISSING, name='c').name", lambda: e.updated(note=MISSING, name="c").name, "c"),
            ("__replace__(note=MISSING).note", lambda: e.__replace__(note=MISSING).note, MISSING)):
        try:
            v = got()
        except Exception as ex:  # noqa
            out.append(f"{label} raised {ex!r}")
            continue
        if not ((v is want) if want is MISSING or want is None else v == want):
            out.append(f"{label} is {v!r}, expected {want!r}")
    if e.updated(note=MISSING) != Entry(name="a", tags=["x", "y"], count=3) or e.updated(note=MISSING) != e.__replace__(note=MISSING):
        out.append("updated(note=MISSING) differs from the instance built without a note / from __replace__(note=MISSING)")
    if (e.note, e.tags, e.count) != ("remember", ("x", "y"), 3):
        out.append("the original changed")
    return out


def generic_states_with_aliases():
    """Re-validation on update and insensitivity to later mutation for *generic* states whose attributes are written with the
    library's own parametrized alias (`frozenlist[...]`) around the class's type parameter - directly and nested in another
    generic (`frozenlist[Sequence[Cell]]`): the specialisation's argument reaches every level."""
    from collections.abc import Sequence
    from haiway import frozenlist
    out = []

    class Table[Cell](State):
        rows: frozenlist[Sequence[Cell]]
        head: frozenlist[Cell] = ()

    class Box[Item](State):
        items: Sequence[frozenlist[Item]] = ()
    T = Table[int]
    good = T(rows=[[1, 2], [3]], head=[7])
    for label, make in (("Table[int](rows=[['x']])", lambda: T(rows=[["x"]])),
                        ("Table[int](rows=[[1]]).updated(rows=[['not', 'ints']])", lambda: good.updated(rows=[["not", "ints"]])),
                        ("Table[int](rows=[[1]]).updated(head=['x'])", lambda: good.updated(head=["x"])),
                        ("Table[int](...).__replace__(rows=[[1.5]])", lambda: good.__replace__(rows=[[1.5]])),
                        ("Box[int](items=[['x']])", lambda: Box[int](items=[["x"]])),
                        ("Box[int]().updated(items=[[1], ['x']])", lambda: Box[int]().updated(items=[[1], ["x"]]))):
        try:
            made = make()
            out.append(f"{label} was accepted ({made}): the value does not conform to the specialised attribute type")
        except Exception:  # noqa
            pass
    if (good.rows, good.head) != (((1, 2), (3,)), (7,)):
        out.append(f"a rejected update changed the original: {good}")
    try:
        inner = [1, 2]
        row = [inner, [3]]
        arg = [row]
        t2 = Table[Sequence[int]](rows=arg)
        before, snapshot = str(t2), t2.updated()
        inner.append(99)
        row.append([4])
        arg.append([[5]])
        if str(t2) != before or t2 != snapshot:
            out.append(f"Table[Sequence[int]]: mutating the lists passed to the constructor changed the instance: {before} -> {t2}")
        b = Box[Sequence[int]](items=[[inner]])
        before = str(b)
        inner.append(100)
        if str(b) != before:
            out.append(f"Box[Sequence[int]]: mutating the lists passed to the constructor changed the instance: {before} -> {b}")
    except Exception as e:  # noqa
        out.append(f"conforming nested sequences were rejected by a specialised generic state: {e!r}")
    return out


def main():
    sys.stdin.read()
    p = problems() or repeated_validation() or nested_unions() or nested_in_mapping() or updated_with_missing() or generic_states_with_aliases()
    if p:
        print(json.dumps(dict(reproduced=True, detail=dict(problems=p[:5]), cases_tried=1)))
    else:
        print(json.dumps(dict(reproduced=False, cases_tried=1, detail="statement held natively")))


if __name__ == "__main__":
    main()
