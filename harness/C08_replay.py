"""Native replay for C08: entered once, exited once with the body's details, cleanup errors surface.
The known finding "disposables already entered are not exited when entering fails" is only checked
when C08_CHECK_ROLLBACK=1 (it is listed in known_findings.json)."""
import os
from scope_native import main, DispError, A, Bst


def check(sc, obs):
    if "hang" in obs:
        return f"hang: {obs['hang']}"
    log = obs["log"]
    n = len(sc["disps"])
    started = [e[1] for e in log if e[0] == "enter-start"]
    entered = [e[1] for e in log if e[0] == "entered"]
    exits = [e for e in log if e[0] == "exit-start"]
    body_ran = ("body-start",) in log
    if sorted(started) != list(range(n)) and sc["cancel_at"] is None:
        return f"disposables entered: {started}, expected each of {n} exactly once"
    enter_failed = any(e[0] == "enter-fail" for e in log) or len(entered) < n
    if enter_failed:
        if body_ran:
            return "a disposable failed to enter but the body ran"
        if os.environ.get("C08_CHECK_ROLLBACK") == "1":
            ex = sorted(e[1] for e in exits)
            if ex != sorted(entered):
                return f"entering failed: entered {sorted(entered)} but exited {ex}"
        return None
    if not body_ran:
        if not obs.get("cancel_delivered") and obs.get("self_cancelled") is None:
            return (f"every one of the {n} disposable(s) entered (nothing failed, nobody cancelled) but the body never ran: "
                    f"the block ended with {obs.get('outcome')!r}")
        return None
    if obs.get("cancel_delivered") and sc["cancel_at"] >= obs.get("body_end_time", 1e9):
        return None     # cancellation delivered while the exits run: outside this property's quantifier (see C07/C02)
    if obs.get("self_cancelled") is not None:
        return None     # a request made as the body's last statement is delivered while the exits run: same case
    if sorted(e[1] for e in exits) != list(range(n)):
        return f"after the body: exited {sorted(e[1] for e in exits)}, expected each of {n} exactly once"
    kind, exc = obs.get("outcome", (None, None))
    be = obs.get("body_raised")
    if True:
        for e in exits:
            if e[3] is not be:
                return f"disposable {e[1]} was exited with {e[3]!r}, the body ended with {be!r}"
        seen = obs.get("inner_states")
        want_a = [d for d in sc["disps"] if d[0].replace("slow-", "") in ("state", "states")]
        if isinstance(seen, Exception):
            return f"state lookup inside the scope failed: {seen!r}"
        if want_a and seen[0].v == 1:
            return "state yielded by a disposable is not visible inside the scope"
        if not want_a and seen[0].v != 1:
            return f"the scope's own explicit state is not visible inside it next to the disposables' state (saw A(v={seen[0].v}))"
        failing = [i for i, (_, x) in enumerate(sc["disps"]) if x.endswith("fail")]
        if not obs.get("cancel_delivered"):
            cut = [e[1] for e in log if e[0] == "exit-interrupted"]
            if cut:
                return f"cleanup of disposable(s) {cut} was interrupted by a cancellation nobody requested (it never completed)"
        if failing:
            ok = kind == "raise" and (isinstance(exc, DispError) or (isinstance(exc, BaseExceptionGroup)
                                                                    and all(isinstance(x, DispError) for x in exc.exceptions)))
            if not ok:
                return f"cleanup of disposable(s) {failing} raised but the caller got {(kind, exc)!r}"
            if not obs.get("cancel_delivered"):
                got = sorted(x.args[0][1] for x in (exc.exceptions if isinstance(exc, BaseExceptionGroup) else [exc]))
                if got != failing:
                    return f"cleanup of disposables {failing} raised but only the error(s) of {got} reached the caller"
    return None


if __name__ == "__main__":
    main(check)
