"""Native replay for C06: when the async scope block is over every task spawned into it is done."""
from scope_native import main


def check(sc, obs):
    if "hang" in obs:
        return f"leaving the block did not terminate: {obs['hang']}"
    done = obs.get("tasks_done_at_exit")
    if done is not None and not all(done):
        return f"{done.count(False)} spawned task(s) still running after the scope block finished (spawned={sc['spawned']})"
    return None


if __name__ == "__main__":
    main(check)
