"""Native replay for C06: when the async scope block is over every task spawned into it is done."""
from scope_native import main


def check(sc, obs):
    if "hang" in obs:
        return f"leaving the block did not terminate: {obs['hang']}"
    done = obs.get("tasks_done_at_exit")
    if done is not None and not all(done):
        return f"{done.count(False)} spawned task(s) still running after the scope block finished (spawned={sc['spawned']})"
    if obs.get("cancel_delivered") and any(k in ("block", "respawn") for k in sc["spawned"]) \
            and obs.get("end_time", 0) - sc["cancel_at"] > 3.0:
        # every spawned task of the family ends at once when cancelled and no disposable step takes longer than 1s: a block that
        # only ends much later (the blocking tasks sleep 1000s) awaited its spawned tasks instead of cancelling them
        return (f"the task was cancelled at t={sc['cancel_at']} while it was in the block; the block only ended at t={obs.get('end_time')}: "
                f"the remaining spawned tasks were awaited to completion instead of being cancelled")
    before, after = obs.get("before"), obs.get("after")
    if before is not None and after is not None and before[2] is not after[2]:
        # a later spawn of this task would go into the finished group of the block that was left (or be refused by it)
        return "after the block the task-group of the surrounding code is not the one it had before (a later spawn goes astray)"
    return None


if __name__ == "__main__":
    main(check)
