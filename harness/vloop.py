"""Deterministic virtual-time asyncio event loop for native replays.

`VLoop.time()` is a counter that jumps to the next timer whenever nothing is ready; a loop with
nothing ready and no timers while the main coroutine is still pending is a *hang* (Hang is raised).
`patch_clock(loop, *modules)` rebinds `monotonic` in imported haiway modules to the virtual clock.
"""
import asyncio
import heapq


class Hang(Exception):
    pass


class VLoop(asyncio.SelectorEventLoop):
    def __init__(self):
        super().__init__()
        self._vt = 0.0

    def time(self):
        return self._vt

    def _run_once(self):
        while self._scheduled and self._scheduled[0]._cancelled:
            h = heapq.heappop(self._scheduled)
            h._scheduled = False
        if not self._ready:
            if self._scheduled:
                when = self._scheduled[0]._when
                if when > self._vt:
                    self._vt = when
            elif not self._stopping:
                raise Hang("event loop is idle: no ready callbacks and no timers, but the program has not finished")
        super()._run_once()


def patch_clock(loop, *modules):
    for m in modules:
        if hasattr(m, "monotonic"):
            m.monotonic = loop.time


def run(coro_fn, *modules):
    """Run coro_fn(loop) to completion in virtual time; returns its result."""
    loop = VLoop()
    patch_clock(loop, *modules)
    try:
        return loop.run_until_complete(coro_fn(loop))
    finally:
        try:
            loop.run_until_complete(loop.shutdown_asyncgens())
        except BaseException:
            pass
        loop.close()
