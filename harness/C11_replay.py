"""Native replay for C11: streams created in one scope and consumed in the same scope, another scope,
outside any scope, or another task; fully or with early break.  The known finding (stream body runs
in the consumer's context) is only checked when C11_CHECK_CONTEXT=1 (listed in known_findings.json);
by default the replay checks item forwarding, terminal outcome and scope completion."""
import asyncio
import json
import logging
import os
import sys
logging.disable(logging.CRITICAL)

from haiway import State, ctx
from haiway.context.metrics import MetricsContext
from haiway.context.state import StateContext
from haiway.context.tasks import TaskGroupContext

_NONE = object()


class S(State):
    v: int = 0


class Boom(Exception):
    pass


def context_now():
    return (StateContext._context.get(_NONE), MetricsContext._context.get(_NONE), TaskGroupContext._context.get(_NONE))


def problems():
    out = []
    check_ctx = os.environ.get("C11_CHECK_CONTEXT") == "1"
    boom = Boom("b")

    async def main():
        seen = []
        completed = []

        async def source(items, fail):
            for x in items:
                seen.append(ctx.state(S).v)
                yield x
            if fail:
                raise boom

        from haiway import MISSING
        for items, fail, take in (([1, 2, 3], False, None), ([], False, None), ([1, 2], True, None), ([1, 2, 3], False, 1),
                                  ([None, 0, "", False, ()], False, None), ([1, MISSING, 2], False, None), ([MISSING], True, None),
                                  ([StopAsyncIteration, None, NotImplemented, ...], True, None)):
            got, end = [], None
            async with ctx.scope("creator", S(v=1)):
                stream = ctx.stream(source, items, fail)
            async with ctx.scope("consumer", S(v=2)):
                before = context_now()
                try:
                    n = 0
                    async for x in stream:
                        got.append(x)
                        n += 1
                        if check_ctx and context_now() != before:
                            out.append("between items the consumer sees a different state / metrics scope / task group")
                        if take is not None and n >= take:
                            break
                    end = "normal"
                except Boom as e:
                    end = "same-exc" if e is boom else "other-exc"
                except Exception as e:  # noqa
                    end = repr(e)
                if take is not None:
                    try:
                        await stream.aclose()
                    except BaseException as e:  # noqa
                        out.append(f"closing an abandoned stream raised {e!r} into the consumer")
                if check_ctx and context_now() != before:
                    out.append("after the stream ended the consumer's context is changed")
            want = items if take is None else items[:take]
            if got != want:
                out.append(f"items {items}: consumer received {got}")
            if take is None and end != ("same-exc" if fail else "normal"):
                out.append(f"items {items} fail={fail}: the stream ended with {end}")
            if check_ctx and any(v != 1 for v in seen):
                out.append(f"the generator body observed state {set(seen)} instead of the state current where the stream was created (1)")
            seen.clear()
        # completion: the scopes a stream was created in complete when the stream is exhausted / closed, not before,
        # innermost first; the stream ends normally
        for depth in (1, 2, 3):
            for how in ("exhauste", "close"):
                order = []

                def mk(name):
                    return lambda metrics: order.append(name)
                names = [f"level{k}" for k in range(depth)]
                stack = []
                for n in names:                          # each made and entered inside the previous one
                    sc = ctx.scope(n, S(v=1), completion=mk(n))
                    await sc.__aenter__()
                    stack.append(sc)
                stream = ctx.stream(source, [1, 2, 3], False)
                for sc in reversed(stack):
                    await sc.__aexit__(None, None, None)
                for _ in range(3):
                    await asyncio.sleep(0)
                if order:
                    out.append(f"scopes {order} completed before the stream created inside them was consumed (depth {depth})")
                try:
                    if how == "exhauste":
                        got = [x async for x in stream]
                        if got != [1, 2, 3]:
                            out.append(f"nested creator scopes (depth {depth}): consumer received {got}")
                    else:
                        async for x in stream:
                            break
                        await stream.aclose()
                except BaseException as e:  # noqa
                    out.append(f"stream created {depth} scope(s) deep, consumed after they were left: ended with {e!r}")
                for _ in range(3):
                    await asyncio.sleep(0)
                if order != list(reversed(names)):
                    out.append(f"after the stream was {how}d the enclosing scopes completed as {order}, expected {list(reversed(names))}")
                seen.clear()
        # several streams created in ONE scope and consumed, after that scope was left, in every order: the scope completes
        # exactly once, after the last of them ended - whichever was created first
        import itertools
        for count in (2, 3):
            for perm in itertools.permutations(range(count)):
                fired = []
                sc = ctx.scope("shared", S(v=1), completion=lambda metrics: fired.append(metrics.is_completed))
                await sc.__aenter__()
                streams = [ctx.stream(source, [k, k + 10], False) for k in range(count)]
                await sc.__aexit__(None, None, None)
                for step, k in enumerate(perm):
                    got = [x async for x in streams[k]]
                    for _ in range(3):
                        await asyncio.sleep(0)
                    if got != [k, k + 10]:
                        out.append(f"{count} streams of one scope consumed in order {perm}: stream {k} delivered {got}")
                    if fired and step < count - 1:
                        out.append(f"{count} streams of one scope consumed in order {perm}: the scope completed after {step + 1} of them")
                if fired != [True]:
                    out.append(f"{count} streams created in one scope and consumed in order {perm} after it was left: the scope's "
                               f"completion fired {len(fired)} times (is_completed: {fired})")
                seen.clear()
        # a stream whose generator creates further streams and hands them to the consumer, consumed in both orders
        for order_ in ((0, 1), (1, 0)):
            fired = []

            async def outer_source():
                inner = [ctx.stream(source, [k], False) for k in (0, 1)]
                for s_ in inner:
                    yield s_
            sc = ctx.scope("streams-of-streams", S(v=1), completion=lambda metrics: fired.append(metrics.is_completed))
            await sc.__aenter__()
            outer_stream = ctx.stream(outer_source)
            await sc.__aexit__(None, None, None)
            inner_streams = [s_ async for s_ in outer_stream]
            for k in order_:
                got = [x async for x in inner_streams[k]]
                if got != [k]:
                    out.append(f"stream of streams, inner stream {k}: delivered {got}")
            for _ in range(4):
                await asyncio.sleep(0)
            if fired != [True]:
                out.append(f"a stream yielding two further streams, those consumed in order {order_}: the creating scope's "
                           f"completion fired {len(fired)} times (is_completed: {fired})")
            seen.clear()
        # consumed in another task / outside any scope
        async with ctx.scope("creator", S(v=1)):
            stream = ctx.stream(source, [1, 2], False)

        async def other():
            return [x async for x in stream]
        try:
            r = await asyncio.ensure_future(other())
            if r != [1, 2]:
                out.append(f"consumed in another task outside any scope: got {r}")
            # ... and consumed right here, outside any scope: afterwards this code still has no task group, a spawn is detached
            async with ctx.scope("creator2", S(v=1)):
                stream2 = ctx.stream(source, [3], False)
            got2 = [x async for x in stream2]
            from haiway.context.tasks import TaskGroupContext as _TGC
            marker = object()
            if got2 != [3] or _TGC._context.get(marker) is not marker:
                out.append(f"after a stream was consumed outside any scope the consumer has a task group variable set "
                           f"({_TGC._context.get(marker)!r}); items {got2}")
            try:
                async def job():
                    return 42
                if await ctx.spawn(job) != 42:
                    out.append("a spawn after a stream consumed outside any scope did not run the function")
            except BaseException as e:  # noqa
                out.append(f"after a stream was consumed outside any scope ctx.spawn raises {e!r}")
        except Exception as e:  # noqa
            if check_ctx:
                out.append(f"consuming the stream in another task outside any scope raised {e!r}")
    asyncio.run(main())
    return out


def source_kinds():
    """"for all generators": the source is any callable that returns an async generator - a plain function, a bound method,
    a functools.partial of either (no __name__ / __qualname__), an instance whose __call__ is a generator, a lambda around
    one.  Each yields exactly its items and then its own ending, consumed where it was created."""
    import functools
    out = []
    boom = Boom("k")

    async def plain(items, fail):
        for x in items:
            yield x
        if fail:
            raise boom

    class Holder:
        async def method(self, items, fail):
            for x in items:
                yield x
            if fail:
                raise boom

        async def __call__(self, items, fail):
            for x in items:
                yield x
            if fail:
                raise boom
    holder = Holder()
    kinds = [("a plain function", plain, ([0, 1, 2],)), ("a bound method", holder.method, ([0, 1, 2],)),
             ("a functools.partial of a function", functools.partial(plain, [0, 1, 2]), ()),
             ("a partial carrying every argument", None, ()),
             ("an instance whose __call__ is a generator", holder, ([0, 1, 2],)),
             ("a partial of a bound method", functools.partial(holder.method, [0, 1, 2]), ()),
             ("a lambda returning a generator", lambda items, fail: plain(items, fail), ([0, 1, 2],))]

    async def main():
        for fail in (False, True):
            for what, source, lead in kinds:
                got, end = [], "end"
                try:
                    async with ctx.scope("root", S(v=1)):
                        if source is None:
                            stream = ctx.stream(functools.partial(plain, [0, 1, 2], fail))
                        else:
                            stream = ctx.stream(source, *lead, fail)
                        try:
                            async for x in stream:
                                got.append(x)
                        except Boom as e:
                            end = "boom" if e is boom else f"another Boom {e!r}"
                except BaseException as e:  # noqa
                    end = f"{e!r}"
                want = "boom" if fail else "end"
                if got != [0, 1, 2] or end != want:
                    out.append(f"stream over {what} ({'failing' if fail else 'finite'}): items {got} then {end}; "
                               f"the generator yields [0, 1, 2] then {want}")
    asyncio.run(main())
    return out


def consumer_state_untouched():
    """"the consumer's own state is unaffected between items and after the stream ends or is abandoned": what the generator
    body looks up (also types nobody supplies, resolved by default construction) leaves the consumer's lookups - with and
    without an explicit default - as they were before the stream."""
    out = []

    class Settings(State):
        mode: str = "builtin"
    fallback = Settings(mode="consumer-fallback")

    async def numbers():
        for i in range(3):
            ctx.state(Settings)           # a type no scope supplies: default-constructed for the generator
            yield i

    async def main():
        for how in ("consumed to the end", "abandoned after one item"):
            async with ctx.scope("creator", S(v=1)):
                stream = ctx.stream(numbers)
            async with ctx.scope("consumer", S(v=2)):
                reads = [("before", ctx.state(Settings, default=fallback).mode, ctx.state(S).v)]
                async for x in stream:
                    reads.append((f"after item {x}", ctx.state(Settings, default=fallback).mode, ctx.state(S).v))
                    if how.startswith("abandoned"):
                        break
                if how.startswith("abandoned"):
                    await stream.aclose()
                reads.append(("after the stream", ctx.state(Settings, default=fallback).mode, ctx.state(S).v))
                bad = [r for r in reads if r[1:] != ("consumer-fallback", 2)]
                if bad:
                    out.append(f"stream {how}: the consumer's lookups (Settings with its own default, its own S) gave {bad}, "
                               "expected ('consumer-fallback', 2) throughout")
    asyncio.run(main())
    return out


def consumer_metrics_untouched():
    """"the consumer's own ... metrics scope ... unaffected after the stream ends": what the generator records belongs to the
    stream's scope (nested where the stream was *created*); a consumer in another scope finds, after the stream, only its own
    records in its scope - own values and merged view - and completes on its own."""
    out = []

    class Produced(State):
        n: int = 0

    class Consumed(State):
        n: int = 0
    add = lambda a, b: b if not a else type(a)(n=a.n + b.n)      # noqa: E731

    async def numbers():
        for i in range(3):
            ctx.record(Produced(n=1), merge=add)
            yield i

    async def main():
        for where in ("beside the creator", "nested in the creator"):
            done = {}

            async def consume(stream):
                async with ctx.scope("consumer", completion=lambda m: done.update(consumer=m)):
                    got = [x async for x in stream]
                    ctx.record(Consumed(n=len(got)), merge=add)
            async with ctx.scope("top", completion=lambda m: done.update(top=m)):
                async with ctx.scope("creator", completion=lambda m: done.update(creator=m)):
                    stream = ctx.stream(numbers)
                    if where == "nested in the creator":
                        await consume(stream)
                if where == "beside the creator":
                    await consume(stream)
            for _ in range(6):
                await asyncio.sleep(0)
            c = done.get("consumer")
            if c is None:
                out.append(f"consumer scope {where}: it never completed")
                continue
            merged = {type(x).__name__: x.n for x in c.metrics(merge=add)}
            if c.read(Produced) is not None or merged != {"Consumed": 3}:
                out.append(f"consumer scope {where}: after the stream its metrics are own={c.read(Produced)}/{c.read(Consumed)}, "
                           f"merged={merged}; expected only its own Consumed(n=3) - the generator's records belong to the stream's scope")
            cr = done.get("creator")
            if cr is not None:
                mc = {type(x).__name__: x.n for x in cr.metrics(merge=add)}
                if mc.get("Produced") != 3:
                    out.append(f"creator scope ({where}): merged view {mc}, expected the stream's Produced(n=3) nested under it")
    asyncio.run(main())
    return out


def main():
    sys.stdin.read()
    p = problems() or source_kinds() or consumer_state_untouched() or consumer_metrics_untouched()
    if p:
        print(json.dumps(dict(reproduced=True, detail=dict(problems=p[:5]), cases_tried=1)))
    else:
        print(json.dumps(dict(reproduced=False, cases_tried=1, detail="statement held natively (context clauses excluded: known finding)")))


if __name__ == "__main__":
    main()
