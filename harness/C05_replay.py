"""Native replay / bounded stand-in for C05 (and the conversions of C04): annotation terms up to
depth 3 over the supported vocabulary, conforming values and values broken at some position;
State construction is compared with an independent conformance oracle written from the typing
meaning of each annotation.  This sweep is the only coverage of the reflective annotation resolver
(state/attributes.py): it is *bounded* and never counted as proved."""
import datetime
import re
import typing
import enum
import itertools
import json
import logging
import os
import pathlib
import random
import sys
import uuid
from collections.abc import Callable, Mapping, Sequence, Set
from types import MappingProxyType
from typing import Any, Literal, Union

logging.disable(logging.CRITICAL)

from haiway import MISSING, Missing, State


class Color(enum.Enum):
    RED = 1
    BLUE = 2


class Inner(State):
    x: int
    y: str = "d"


class G[T](State):
    item: T


class Node(State):
    value: int
    child: "Node | None" = None


class Outer[T](State):
    inner: G[T]
    many: Sequence[T] = ()


def fn(a):
    return a


@typing.runtime_checkable
class Runs(typing.Protocol):           # protocols are supported when runtime checkable (as in the repository's examples)
    def run(self, x: int) -> int: ...


@typing.runtime_checkable
class Fetching(typing.Protocol):
    async def __call__(self, key: str) -> str: ...


class Runner:
    def run(self, x):
        return x


class Other:
    def walk(self):
        return None


type SeqAlias[T] = Sequence[T]
type MapAlias[V] = Mapping[str, V]
type OptAlias[T] = T | None
type PlainAlias = Sequence[int | str]
ALIASES = {"Sequence": SeqAlias, "Mapping": MapAlias, "Optional": OptAlias}


U = uuid.UUID("12345678123456781234567812345678")
D = datetime.date(2024, 1, 2)
DT = datetime.datetime(2024, 1, 2, 3, 4, 5)
P = pathlib.Path("/tmp/x")

# leaf: (annotation, conforming values, non-conforming values)
LEAVES = [
    ("None", None, [None], [0, "", False]),
    ("bool", bool, [True, False], [0, 1, "x", None]),
    ("int", int, [0, 7, True], [1.0, "1", None]),
    ("float", float, [0.5, 2.0], [1, True, "1.0"]),
    ("str", str, ["", "ab"], [b"ab", 1, None]),
    ("bytes", bytes, [b"", b"ab"], ["ab", 1]),
    ("UUID", uuid.UUID, [U], [str(U), 1]),
    ("date", datetime.date, [D, DT], ["2024-01-02", 1]),
    ("datetime", datetime.datetime, [DT], [D, 1]),
    ("Path", pathlib.Path, [P], ["/tmp/x"]),
    ("Enum", Color, [Color.RED], [1, "RED"]),
    ("Literal", Literal[1, "a"], [1, "a"], [True, 1.0, 2, "b", None]),
    ("Any", Any, [1, "x", None, [1], object], []),
    ("Missing", Missing, [MISSING], [None, False, 0]),
    ("Callable", Callable[[int], int], [fn, len, int], [1, "f", None]),
    ("time", datetime.time, [datetime.time(1, 2, 3)], [DT, "01:02:03", 1]),
    ("timedelta", datetime.timedelta, [datetime.timedelta(seconds=5)], [5, 5.0, DT]),
    ("timezone", datetime.timezone, [datetime.timezone.utc], ["UTC", 0, None]),
    ("complex", complex, [1j, complex(1, 2)], [1, 1.0, "1j"]),
    ("range", range, [range(3)], [[0, 1, 2], (0, 1, 2), 3]),
    ("Pattern", re.Pattern, [re.compile("a+")], ["a+", None]),
    ("type", type, [int, Inner, Color], [1, "int", None]),
    ("Protocol(method)", Runs, [Runner()], [Other(), 1, None, fn]),
    ("Protocol(call)", Fetching, [fn, len, Runner], [1, "f", None, Other()]),
    ("Inner", Inner, [Inner(x=1), Inner(x=2, y="z")], [{"x": 1}, 1, None]),
    ("G[int]", G[int], [G[int](item=3)], [G[str](item="s"), 3]),
    ("Node", Node, [Node(value=1), Node(value=1, child=Node(value=2))], [1, None]),
    ("PlainAlias", PlainAlias, [[1, "a"], ()], [[1.5], "ab", 3]),
    # literals whose members are ==-equal across types: each is its own annotation (1 == True == 1.0, 0 == False)
    ("LitOne", Literal[1], [1], [True, 1.0, 2, "1"]),
    ("LitTrue", Literal[True], [True], [1, 1.0, False, "True"]),
    ("LitZero", Literal[0], [0], [False, 0.0, None]),
    ("LitFalse", Literal[False], [False], [0, 0.0, None, ""]),
]


class T:
    """annotation term with an oracle"""

    def __init__(self, name, ann, good, bad, canon=lambda v: v):
        self.name, self.ann, self.good, self.bad, self.canon = name, ann, good, bad, canon


def leaf_terms():
    return [T(n, a, g, b, (tuple if n == "PlainAlias" else (lambda v: v))) for n, a, g, b in LEAVES]


def is_seq(v):
    return isinstance(v, Sequence) and not isinstance(v, (str, bytes, bytearray))


def build(kind, subs):
    if kind == "Sequence":
        (a,) = subs
        good = [[], list(a.good[:2]), tuple(a.good[:1])]
        bad = [v for v in ([*a.good[:1], *a.bad[:1]] if a.bad else None, "ab", b"ab", 5, None, set(a.good[:1]) if _hashable(a.good[:1]) else 5) if v is not None or True]
        bad = [b for b in bad if not (is_seq(b) and all(conf(a, x) for x in b))]
        return T(f"Sequence[{a.name}]", Sequence[a.ann], good, bad, lambda v: tuple(a.canon(x) for x in v))
    if kind == "tuple...":
        (a,) = subs
        good = [(), tuple(a.good[:2]), list(a.good[:1])]
        bad = [b for b in ([*a.good[:1], *a.bad[:1]], "ab", b"ab", bytearray(b"ab"), b"", 5, None)
               if not (is_seq(b) and all(conf(a, x) for x in b))]
        return T(f"tuple[{a.name}, ...]", tuple[a.ann, ...], good, bad, lambda v: tuple(a.canon(x) for x in v))
    if kind == "tuple2":
        a, b = subs
        good = [(a.good[0], b.good[0]), [a.good[-1], b.good[-1]]]
        bad = [(a.good[0],), (a.good[0], b.good[0], b.good[0]), "ab", b"ab", bytearray(b"ab"), None]
        if a.bad:
            bad.append((a.bad[0], b.good[0]))
        if b.bad:
            bad.append((a.good[0], b.bad[0]))
        bad = [x for x in bad if not (is_seq(x) and len(x) == 2 and conf(a, x[0]) and conf(b, x[1]))]
        return T(f"tuple[{a.name}, {b.name}]", tuple[a.ann, b.ann], good, bad, lambda v: (a.canon(v[0]), b.canon(v[1])))
    if kind in ("Set", "frozenset"):
        (a,) = subs
        hg = [x for x in a.good if _hashable([x])]
        hb = [x for x in a.bad if _hashable([x])]
        good = [set(), set(hg[:2]), frozenset(hg[:1])]
        bad = [list(hg[:1]), tuple(hg[:1]), 5, None]
        if hb:
            bad.append({*hg[:1], hb[0]})
        bad = [x for x in bad if not (isinstance(x, Set) and all(conf(a, e) for e in x))]
        ann = Set[a.ann] if kind == "Set" else frozenset[a.ann]
        return T(f"{kind}[{a.name}]", ann, good, bad, lambda v: frozenset(a.canon(x) for x in v))
    if kind == "Mapping":
        (a,) = subs
        good = [{}, {"k": a.good[0]}, {"ab": a.good[-1], "c": a.good[0]}, MappingProxyType({"k": a.good[0]})]
        bad = [[("k", a.good[0])], "ab", 5, None, {1: a.good[0]}]
        if a.bad:
            bad.append({"k": a.bad[0]})
        bad = [x for x in bad if not (isinstance(x, Mapping) and all(isinstance(k, str) and conf(a, v) for k, v in x.items()))]
        return T(f"Mapping[str, {a.name}]", Mapping[str, a.ann], good, bad, lambda v: {k: a.canon(x) for k, x in v.items()})
    if kind == "Union":
        a, b = subs
        good = a.good[:2] + b.good[:2]
        bad = [x for x in a.bad + b.bad if not conf(a, x) and not conf(b, x)]
        return T(f"{a.name} | {b.name}", Union[a.ann, b.ann], good, bad, lambda v: a.canon(v) if conf(a, v) else b.canon(v))
    if kind == "Optional":
        (a,) = subs
        bad = [x for x in a.bad if x is not None]
        return T(f"{a.name} | None", Union[a.ann, None], a.good[:2] + [None], bad,
                 lambda v: None if v is None and not conf(a, v) else a.canon(v))
    raise ValueError(kind)


def _hashable(xs):
    try:
        for x in xs:
            hash(x)
        return True
    except TypeError:
        return False


_CONF = {}


def conf(t, v):
    """does v conform to term t?  (independent oracle: membership in good/bad is generated with it)"""
    return t.check(v) if hasattr(t, "check") else _leaf_conf(t, v)


def _leaf_conf(t, v):
    for g in t.good:
        if g is v or (type(g) is type(v) and _eq(g, v)):
            return True
    n = t.name
    if n == "None":
        return v is None
    if n == "bool":
        return isinstance(v, bool)
    if n == "int":
        return isinstance(v, int)
    if n == "float":
        return isinstance(v, float)
    if n == "str":
        return isinstance(v, str)
    if n == "bytes":
        return isinstance(v, bytes)
    if n == "UUID":
        return isinstance(v, uuid.UUID)
    if n == "date":
        return isinstance(v, datetime.date)
    if n == "datetime":
        return isinstance(v, datetime.datetime)
    if n == "Path":
        return isinstance(v, pathlib.Path)
    if n == "Enum":
        return isinstance(v, Color)
    if n == "Literal":
        return any(type(v) is type(e) and v == e for e in (1, "a"))
    if n in ("LitOne", "LitTrue", "LitZero", "LitFalse"):
        e = {"LitOne": 1, "LitTrue": True, "LitZero": 0, "LitFalse": False}[n]
        return type(v) is type(e) and v == e
    if n == "Any":
        return True
    if n == "Missing":
        return v is MISSING
    if n == "Callable":
        return callable(v)
    if n == "time":
        return isinstance(v, datetime.time)
    if n == "timedelta":
        return isinstance(v, datetime.timedelta)
    if n == "timezone":
        return isinstance(v, datetime.timezone)
    if n == "complex":
        return isinstance(v, complex)
    if n == "range":
        return isinstance(v, range)
    if n == "Pattern":
        return isinstance(v, re.Pattern)
    if n == "type":
        return isinstance(v, type)
    if n == "Protocol(method)":
        return callable(getattr(v, "run", None))
    if n == "Protocol(call)":
        return callable(v)
    if n == "Inner":
        return isinstance(v, Inner)
    if n == "G[int]":
        return isinstance(v, G[int])
    if n == "Node":
        return isinstance(v, Node)
    if n == "PlainAlias":
        return is_seq(v) and all(isinstance(x, (int, str)) for x in v)
    return False


def _eq(a, b):
    try:
        return a == b
    except Exception:  # noqa
        return False


def attach_checks(t, kind, subs):
    if kind == "Sequence" or kind == "tuple...":
        t.check = lambda v: is_seq(v) and all(conf(subs[0], x) for x in v)
    elif kind == "tuple2":
        t.check = lambda v: is_seq(v) and len(v) == 2 and conf(subs[0], v[0]) and conf(subs[1], v[1])
    elif kind in ("Set", "frozenset"):
        t.check = lambda v: isinstance(v, Set) and all(conf(subs[0], x) for x in v)
    elif kind == "Mapping":
        t.check = lambda v: isinstance(v, Mapping) and all(isinstance(k, str) and conf(subs[0], x) for k, x in v.items())
    elif kind == "Union":
        t.check = lambda v: conf(subs[0], v) or conf(subs[1], v)
    elif kind == "Optional":
        t.check = lambda v: v is None or conf(subs[0], v)
    return t


def terms(depth, rng, budget):
    level = leaf_terms()
    out = list(level)
    # look-alike literals side by side: in one union (both orders), as items of two containers, in one mapping value union
    by = {t.name: t for t in level}
    for a, b in (("LitOne", "LitTrue"), ("LitTrue", "LitOne"), ("LitZero", "LitFalse"), ("LitFalse", "LitZero")):
        u = attach_checks(build("Union", [by[a], by[b]]), "Union", [by[a], by[b]])
        out.append(u)
        sa = attach_checks(build("Sequence", [by[a]]), "Sequence", [by[a]])
        sb = attach_checks(build("Sequence", [by[b]]), "Sequence", [by[b]])
        out.append(attach_checks(build("Union", [sa, sb]), "Union", [sa, sb]))
    for d in range(1, depth):
        nxt = []
        for kind in ("Sequence", "tuple...", "Set", "frozenset", "Mapping", "Optional"):
            for a in level:
                nxt.append(attach_checks(build(kind, [a]), kind, [a]))
                if kind in ALIASES and rng.random() < 0.5:
                    # the same term reached through a parametrised type alias (type SeqAlias[T] = Sequence[T]; SeqAlias[a])
                    t = attach_checks(build(kind, [a]), kind, [a])
                    t.name, t.ann = f"{ALIASES[kind].__name__}[{a.name}]", ALIASES[kind][a.ann]
                    nxt.append(t)
        for kind in ("tuple2", "Union"):
            for _ in range(len(level)):
                a, b = rng.choice(level), rng.choice(level)
                nxt.append(attach_checks(build(kind, [a, b]), kind, [a, b]))
        rng.shuffle(nxt)
        nxt = nxt[: budget // (d * 2) if d > 1 else len(nxt)]
        out += nxt
        level = nxt
    return out


def mutable_inside(x, depth=0):
    """a list / set / dict anywhere inside a stored value (through tuples, frozensets and mapping proxies)"""
    if isinstance(x, (list, set, dict, bytearray)):
        return True
    if depth > 6:
        return False
    if isinstance(x, (tuple, frozenset)):
        return any(mutable_inside(e, depth + 1) for e in x)
    if isinstance(x, MappingProxyType):
        return any(mutable_inside(e, depth + 1) for e in x.values())
    return False


def check_specialisation(t):
    """The same term as the *type argument* of a generic State (G[t], Outer[t]): resolution of type parameters."""
    try:
        spec, outer = G[t.ann], Outer[t.ann]
    except Exception as e:  # noqa
        return f"G[{t.name}] cannot be specialised: {e!r}"
    for v in t.good:
        if not conf(t, v):
            continue
        try:
            inst = spec(item=v)
            o = outer(inner=inst, many=[v])
        except Exception as e:  # noqa
            return f"G[{t.name}] / Outer[{t.name}]: conforming item {v!r} was rejected ({type(e).__name__}: {str(e)[:80]})"
        if not _eq(inst.item, t.canon(v)) and not isinstance(inst.item, MappingProxyType):
            return f"G[{t.name}](item={v!r}) stored {inst.item!r}"
        if o.inner is not inst and o.inner != inst:
            return f"Outer[{t.name}] stored a different inner value"
    for v in t.bad:
        if conf(t, v):
            continue
        try:
            inst = spec(item=v)
        except Exception:  # noqa
            pass
        else:
            return f"G[{t.name}](item={v!r}): non-conforming item was accepted and stored as {inst.item!r}"
        try:
            o = outer(inner=spec(item=t.good[0]), many=[v])
        except Exception:  # noqa
            continue
        return f"Outer[{t.name}](many=[{v!r}]): non-conforming element was accepted"
    return None


def check_term(t):
    p = check_specialisation(t) if t.name not in ("Any",) else None
    if p:
        return p
    try:
        cls = type("S", (State,), {"__annotations__": {"attr": t.ann}, "__module__": __name__})
    except Exception as e:  # noqa
        return f"class with attribute annotated {t.name} cannot be created: {e!r}"
    for v in t.good:
        if not conf(t, v):
            continue
        try:
            inst = cls(attr=v)
        except Exception as e:  # noqa
            return f"{t.name}: conforming value {v!r} was rejected ({type(e).__name__}: {str(e)[:80]})"
        want = t.canon(v)
        got = inst.attr
        if isinstance(got, MappingProxyType):
            got_cmp, want_cmp = dict(got), dict(want) if isinstance(want, (dict, MappingProxyType)) else want
        else:
            got_cmp, want_cmp = got, want
        if not _eq(got_cmp, want_cmp) or (isinstance(want, tuple) and not isinstance(got, tuple)) \
                or (isinstance(want, frozenset) and not isinstance(got, frozenset)):
            return f"{t.name}: value {v!r} was stored as {got!r}, expected {want!r}"
        if "Any" not in t.name and mutable_inside(got):
            return f"{t.name}: value {v!r} is stored as {got!r}, which still holds a mutable container of the caller"
        if isinstance(v, (list, set, dict)) and got is v and "Any" not in t.name:   # an Any alternative keeps the value as it is
            return f"{t.name}: the caller's mutable container is stored by reference"
    for v in t.bad:
        if conf(t, v):
            continue
        try:
            inst = cls(attr=v)
        except Exception:  # noqa
            continue
        return f"{t.name}: non-conforming value {v!r} was accepted and stored as {inst.attr!r}"
    # "each supplied or defaulted value": an attribute without a default that is not supplied (or supplied as MISSING, which
    # stands for "not supplied") holds MISSING - construction succeeds exactly when MISSING conforms to the annotation
    for how, make in (("omitted", lambda: cls()), ("passed as MISSING", lambda: cls(attr=MISSING))):
        try:
            inst = make()
        except Exception:  # noqa
            if conf(t, MISSING):
                return f"{t.name}: the attribute {how} - MISSING conforms to the annotation but construction failed"
            continue
        if not conf(t, MISSING):
            return (f"{t.name}: the attribute has no default and was {how}, MISSING does not conform to the annotation, yet "
                    f"construction succeeded with {inst.attr!r}")
        if inst.attr is not MISSING:
            return f"{t.name}: the attribute was {how}; it is stored as {inst.attr!r}, not as MISSING"
    return None


def generic_edges():
    """Generic State classes at the edge of the annotation vocabulary (three defects of the pinned tree, repaired by
    8fa0e51 / cc5df9d / 0ccda32; kept in the regular sweep so that they are reported again if they return)."""
    out = []

    class Base[T](State):
        x: T

    class Child(Base[int]):
        pass
    try:
        Child(x="notint")
        out.append("class Child(Base[int]): Child(x='notint') is accepted (the binding T=int is lost in the subclass)")
    except Exception:  # noqa
        pass
    try:
        class P2[A, B](State):
            a: A
            b: B

        class H[T](State):
            p: P2[T, str]
        H[int](p=P2[int, str](a=1, b="s"))
    except Exception as e:  # noqa
        out.append(f"a two-parameter generic State re-specialised with a type variable (p: P2[T, str]) cannot be declared / built: {e!r}"[:220])
    try:
        class E(State):
            t: tuple[()]
        E(t=())
    except Exception as e:  # noqa
        out.append(f"an attribute annotated tuple[()] cannot be declared: {e!r}"[:200])
    # the repaired shapes also accept exactly the conforming values (statement of C05, not only "can be declared")
    def expect(label, thunk, ok):
        try:
            thunk()
            good = True
        except Exception:  # noqa
            good = False
        if good != ok:
            out.append(f"{label}: {'rejected' if ok else 'accepted'}, expected the opposite")
    try:
        class GrandChild(Child):
            z: str = "z"

        class Child2[U](Base[int]):
            y: U
        expect("Child(x=1)", lambda: Child(x=1), True)
        expect("Child(x=1).x == 1", lambda: (Child(x=1).x == 1) or 1 / 0, True)
        expect("GrandChild(x=1)", lambda: GrandChild(x=1), True)
        expect("GrandChild(x='s')", lambda: GrandChild(x="s"), False)
        expect("Child2[str](x=1, y='s')", lambda: Child2[str](x=1, y="s"), True)
        expect("Child2[str](x='s', y='s')", lambda: Child2[str](x="s", y="s"), False)
        expect("Child2[str](x=1, y=2)", lambda: Child2[str](x=1, y=2), False)
        expect("H[int](p=P2[int, str](a=1, b='s'))", lambda: H[int](p=P2[int, str](a=1, b="s")), True)
        expect("H[int](p=P2[str, str](a='x', b='s'))", lambda: H[int](p=P2[str, str](a="x", b="s")), False)
        expect("H[int](p=3)", lambda: H[int](p=3), False)
        expect("E(t=())", lambda: E(t=()), True)
        expect("E(t=(1,))", lambda: E(t=(1,)), False)
        expect("E(t=[]).t == () (a sequence is converted to the tuple)", lambda: (E(t=[]).t == ()) or 1 / 0, True)
        expect("E(t='')", lambda: E(t=""), False)
    except Exception as e:  # noqa
        out.append(f"generic edge shapes cannot be declared: {e!r}"[:200])
    # class-level declarations are not attributes of the state: ClassVar annotations and dunder names
    try:
        class WithClassVar(State):
            registry: typing.ClassVar[int] = 3
            __marker__: str = "m"
            x: int
            y: str = "d"
        w = WithClassVar(x=1)
        if (w.x, w.y, WithClassVar.registry, sorted(vars(w))) != (1, "d", 3, ["x", "y"]):
            out.append(f"a state with a ClassVar declaration: instance {w}, vars {sorted(vars(w))}, registry {WithClassVar.registry!r}")
        expect("WithClassVar(x='s')", lambda: WithClassVar(x="s"), False)
        expect("WithClassVar(x=1, y=2)", lambda: WithClassVar(x=1, y=2), False)
    except Exception as e:  # noqa
        out.append(f"a state with a ClassVar declaration next to its attributes cannot be declared / built: {e!r}"[:200])
    return out


def main():
    sys.stdin.read()
    ge = generic_edges()
    if ge:
        print(json.dumps(dict(reproduced=True, detail=dict(problems=ge), cases_tried=len(ge))))
        return
    seed = int(os.environ.get("VERIF_SEED", "0") or 0)
    rng = random.Random(seed)
    depth = int(os.environ.get("C05_DEPTH", "3"))
    ts = terms(depth, rng, int(os.environ.get("C05_BUDGET", "1500")))
    n, p = 0, None
    for t in ts:
        n += 1
        p = check_term(t)
        if p:
            break
    if p:
        print(json.dumps(dict(reproduced=True, detail=dict(problem=p, seed=seed), cases_tried=n), default=str))
    else:
        print(json.dumps(dict(reproduced=False, cases_tried=n, bound=f"annotation terms to depth {depth} ({len(ts)} terms)",
                              detail="statement held on every enumerated annotation term and value")))


if __name__ == "__main__":
    main()
