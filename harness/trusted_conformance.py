"""Conformance of the trusted specifications (DESIGN 3.7, pyvc/lib.py) against the CPython that runs
the repository's tests.  Every T-* fact the symbolic library model relies on is exercised natively;
a disagreement means the *checker's* trusted base is wrong for this interpreter (exit 3 of ./check),
never a violation of a property.  Prints one JSON line: {"ok": bool, "checked": n, "failed": [...]}."""
import asyncio
import contextvars
import copy
import functools
import json
import logging
import pickle
import sys
import threading
import types
import weakref
from collections import OrderedDict, deque

FAILED = []
CHECKED = [0]


def fact(name, cond):
    CHECKED[0] += 1
    if not cond:
        FAILED.append(name)


def raises(exc, fn):
    try:
        fn()
    except exc:
        return True
    except BaseException:  # noqa
        return False
    return False


# ---------------------------------------------------------------------------------- T-CV
def t_cv():
    v, w = contextvars.ContextVar("v"), contextvars.ContextVar("w")
    fact("T-CV:get-unset-raises-LookupError", raises(LookupError, v.get))
    fact("T-CV:get-default", v.get(5) == 5)
    tok = v.set(1)
    fact("T-CV:set-then-get", v.get() == 1)
    tok2 = v.set(2)
    v.reset(tok2)
    fact("T-CV:reset-restores-previous", v.get() == 1)
    fact("T-CV:token-used-twice-RuntimeError", raises(RuntimeError, lambda: v.reset(tok2)))
    fact("T-CV:token-of-other-var-ValueError", raises(ValueError, lambda: w.reset(tok)))
    v.reset(tok)
    fact("T-CV:reset-to-unset", raises(LookupError, v.get))
    t3 = v.set(9)
    ctx = contextvars.copy_context()
    fact("T-CV:token-in-different-context-ValueError", raises(ValueError, lambda: ctx.run(v.reset, t3)))
    ctx.run(v.set, 10)
    fact("T-CV:changes-inside-a-copied-context-do-not-leak", v.get() == 9 and ctx[v] == 10)
    v.reset(t3)

    async def tasks():
        v.set("parent")
        seen = []

        async def child():
            seen.append(v.get())
            v.set("child")
        await asyncio.create_task(child())
        seen.append(v.get())
        c = contextvars.copy_context()
        v.set("later")
        t = asyncio.get_running_loop().create_task(child(), context=c)
        await t
        return seen
    seen = asyncio.run(tasks())
    fact("T-CV:task-runs-in-a-copy-of-the-creators-context", seen == ["parent", "parent", "parent"])


# ---------------------------------------------------------------------------------- T-FUT / T-TIMER / T-SHIELD / T-GATHER / T-LOCK
def t_token():
    import contextvars
    v = contextvars.ContextVar("conformance-token")
    tok = v.set(1)
    fact("T-CV:Token.old_value-is-Token.MISSING-when-the-variable-had-no-value", tok.old_value is contextvars.Token.MISSING)
    tok2 = v.set(2)
    fact("T-CV:Token.old_value-is-the-previous-value-otherwise", tok2.old_value == 1 and tok2.var is v)
    v.reset(tok2)
    v.reset(tok)
    fact("T-CV:reset-with-the-first-token-leaves-the-variable-unset", v.get("unset") == "unset")


def t_async():
    async def main():
        loop = asyncio.get_running_loop()
        f = loop.create_future()
        fact("T-FUT:pending-result-InvalidStateError", raises(asyncio.InvalidStateError, f.result))
        order = []
        f.add_done_callback(lambda _: order.append("cb"))
        f.set_result(1)
        order.append("after-set")
        fact("T-FUT:set-on-done-InvalidStateError", raises(asyncio.InvalidStateError, lambda: f.set_result(2)))
        await asyncio.sleep(0)
        fact("T-FUT:done-callbacks-run-later-exactly-once", order == ["after-set", "cb"])
        e = ValueError("x")
        g = loop.create_future()
        g.set_exception(e)
        try:
            g.result()
            fact("T-FUT:result-reraises", False)
        except ValueError as got:
            fact("T-FUT:result-reraises-same-object", got is e)
        h = loop.create_future()
        fact("T-FUT:cancel-pending-returns-True", h.cancel() is True and h.cancelled())
        fact("T-FUT:cancelled-result-raises-CancelledError", raises(asyncio.CancelledError, h.result))
        fact("T-FUT:cancel-done-returns-False", g.cancel() is False)
        # late cancellation: value handed to the future, task cancelled before it wakes up
        w = loop.create_future()
        got = []

        async def waiter():
            try:
                got.append(await w)
            except asyncio.CancelledError:
                got.append("cancelled")
                raise
        t = asyncio.ensure_future(waiter())
        await asyncio.sleep(0)
        w.set_result("value")
        t.cancel()
        try:
            await t
        except asyncio.CancelledError:
            pass
        fact("T-FUT:cancel-after-result-still-throws-CancelledError(value-lost)", got == ["cancelled"] and w.result() == "value")
        # cancelling a task that awaits a pending future cancels that future
        p = loop.create_future()

        async def waiter2():
            await p
        t2 = asyncio.ensure_future(waiter2())
        await asyncio.sleep(0)
        t2.cancel()
        try:
            await t2
        except asyncio.CancelledError:
            pass
        fact("T-FUT:cancelling-the-awaiting-task-cancels-the-awaited-future", p.cancelled())
        cur = asyncio.current_task()
        fact("T-FUT:the-running-task-is-not-done-nor-cancelled", not cur.done() and not cur.cancelled() and cur.cancelling() == 0)

        async def selfcancel():
            me = asyncio.current_task()
            me.cancel()
            n = me.cancelling()
            c = me.cancelled()
            try:
                await asyncio.sleep(0)
            except asyncio.CancelledError:
                return (n, c)
        fact("T-FUT:cancelling()-counts-requests-while-cancelled()-stays-False", await asyncio.ensure_future(selfcancel()) == (1, False))
        # timers
        fired = []
        hdl = loop.call_later(0.01, fired.append, 1)
        hdl2 = loop.call_later(0.01, fired.append, 2)
        hdl2.cancel()
        await asyncio.sleep(0.05)
        fact("T-TIMER:call_later-runs-once-unless-cancelled", fired == [1])
        # shield
        inner_done = []

        async def inner():
            await asyncio.sleep(0.01)
            inner_done.append(1)
            return "inner"
        it = asyncio.ensure_future(inner())

        async def outer():
            return await asyncio.shield(it)
        ot = asyncio.ensure_future(outer())
        await asyncio.sleep(0)
        ot.cancel()
        try:
            await ot
        except asyncio.CancelledError:
            pass
        fact("T-SHIELD:cancelling-the-waiter-does-not-cancel-the-inner-task", await it == "inner" and inner_done == [1])
        # gather
        started = []

        async def job(i, fail=False, delay=0.0):
            started.append(i)
            await asyncio.sleep(delay)
            if fail:
                raise KeyError(i)
            return i
        r = await asyncio.gather(job(0), job(1, True), job(2), return_exceptions=True)
        fact("T-GATHER:return_exceptions-collects-every-outcome-in-order", r[0] == 0 and isinstance(r[1], KeyError) and r[2] == 2)
        started.clear()
        finished = []

        async def slow():
            started.append("slow")
            await asyncio.sleep(0.02)
            finished.append("slow")
        try:
            await asyncio.gather(job(1, True), slow())
        except KeyError:
            pass
        fact("T-GATHER:first-exception-propagates-while-the-others-keep-running", finished == [])
        await asyncio.sleep(0.03)
        fact("T-GATHER:every-awaitable-was-started-and-finishes", finished == ["slow"])
        # lock
        lock = asyncio.Lock()
        inside, order = [0], []

        async def crit(i):
            async with lock:
                inside[0] += 1
                order.append(i)
                fact("T-LOCK:mutual-exclusion", inside[0] == 1)
                await asyncio.sleep(0)
                inside[0] -= 1
        await asyncio.gather(*[crit(i) for i in range(4)])
        fact("T-LOCK:FIFO-hand-over", order == [0, 1, 2, 3])
        # task group
        async def tg_member(kind):
            if kind == "fail":
                await asyncio.sleep(0)
                raise RuntimeError("member")
            await asyncio.sleep(10)
        members = []
        try:
            async with asyncio.TaskGroup() as tg:
                members.append(tg.create_task(tg_member("fail")))
                members.append(tg.create_task(tg_member("block")))
        except BaseExceptionGroup as eg:
            fact("T-TG:member-failure-raises-a-group-and-cancels-the-others",
                 isinstance(eg.exceptions[0], RuntimeError) and members[1].cancelled() and all(m.done() for m in members))
        tg2 = asyncio.TaskGroup()
        async with tg2:
            pass

        async def noop():
            return None
        c = noop()
        fact("T-TG:a-finished-group-refuses-new-tasks-with-RuntimeError", raises(RuntimeError, lambda: tg2.create_task(c)))
        c.close()
        try:                                   # single use: a finished group ...
            await tg2.__aenter__()
            fact("T-TG:entering-a-group-a-second-time-raises-RuntimeError", False)
        except RuntimeError:
            fact("T-TG:entering-a-group-a-second-time-raises-RuntimeError", True)
        tg_active = asyncio.TaskGroup()
        async with tg_active:                  # ... and one that is still active
            try:
                await tg_active.__aenter__()
                fact("T-TG:entering-an-active-group-again-raises-RuntimeError", False)
            except RuntimeError:
                fact("T-TG:entering-an-active-group-again-raises-RuntimeError", True)
        def callee_sees():                     # T-EXCINFO: sys.exception() is the innermost handled exception, callers' included
            return sys.exception()
        fact("T-EXCINFO:sys.exception-is-None-when-nothing-is-being-handled", callee_sees() is None)
        try:
            raise asyncio.CancelledError()
        except asyncio.CancelledError as handled:
            fact("T-EXCINFO:sys.exception-in-a-callee-is-the-exception-its-caller-is-handling", callee_sees() is handled)
            try:
                raise KeyError("inner")
            except KeyError as inner:
                fact("T-EXCINFO:sys.exception-is-the-innermost-handled-exception", callee_sees() is inner)
        try:                                   # T-LOOP: a thread without an event loop
            await asyncio.to_thread(asyncio.get_event_loop)
            fact("T-LOOP:get_event_loop-raises-RuntimeError-in-a-thread-without-a-loop", False)
        except RuntimeError:
            fact("T-LOOP:get_event_loop-raises-RuntimeError-in-a-thread-without-a-loop", True)
        body = asyncio.CancelledError()
        tg3 = asyncio.TaskGroup()
        await tg3.__aenter__()
        try:
            await tg3.__aexit__(asyncio.CancelledError, body, None)
            fact("T-TG:body-cancellation-is-re-raised", False)
        except asyncio.CancelledError as got_c:
            fact("T-TG:the-bodys-own-CancelledError-object-is-re-raised", got_c is body)
        # external cancellation during the exit wait while a member fails in its cleanup: the group of member
        # errors is raised, not CancelledError, and the request stays counted
        async def failing_cleanup():
            try:
                await asyncio.sleep(10)
            finally:
                raise RuntimeError("cleanup")
        seen = {}

        async def owner():
            try:
                async with asyncio.TaskGroup() as tg4:
                    tg4.create_task(failing_cleanup())
                    await asyncio.sleep(0)
            except BaseException as e:  # noqa
                seen["exc"], seen["cancelling"] = e, asyncio.current_task().cancelling()
        ot4 = asyncio.ensure_future(owner())
        for _ in range(3):
            await asyncio.sleep(0)
        ot4.cancel()
        await ot4
        fact("T-TG:cancel-during-the-exit-wait-with-a-failing-member-raises-the-error-group-and-keeps-the-request-pending",
             isinstance(seen.get("exc"), BaseExceptionGroup) and not isinstance(seen.get("exc"), asyncio.CancelledError)
             and seen.get("cancelling") == 1)
        # executor
        tid = []
        boom = ValueError("b")

        def work(x):
            tid.append(threading.get_ident())
            if x:
                raise boom
            return "ok"
        fact("T-EXEC:result-delivered", await loop.run_in_executor(None, work, 0) == "ok")
        try:
            await loop.run_in_executor(None, work, 1)
        except ValueError as got_e:
            fact("T-EXEC:exception-object-delivered-from-another-thread", got_e is boom and tid[0] != threading.get_ident())
        # async generators and contexts (T-AGEN)
        var = contextvars.ContextVar("agen", default="unset")

        async def gen():
            yield var.get()
            yield var.get()
        var.set("creator")
        snap = contextvars.copy_context()
        g1 = snap.run(gen)
        var.set("consumer")
        vals = [x async for x in g1]
        fact("T-AGEN:generator-body-runs-in-the-context-of-the-consumer-not-of-its-creation", vals == ["consumer", "consumer"])
    asyncio.run(main())


# ---------------------------------------------------------------------------------- T-COLL / patterns
def t_coll():
    od = OrderedDict()
    od["a"], od["b"], od["c"] = 1, 2, 3
    od.move_to_end("a")
    fact("T-COLL:move_to_end", list(od) == ["b", "c", "a"])
    od["b"] = 20
    fact("T-COLL:assigning-an-existing-key-keeps-its-position", list(od) == ["b", "c", "a"])
    fact("T-COLL:popitem(last=False)-drops-the-oldest", od.popitem(last=False) == ("b", 20))
    del od["c"]
    od["c"] = 3
    fact("T-COLL:delete-then-insert-appends", list(od) == ["a", "c"])
    d = deque([1, 2])
    d.append(3)
    d.extend([4])
    fact("T-COLL:deque", d.popleft() == 1 and list(d) == [2, 3, 4] and d[0] == 2)
    d.appendleft(0)
    fact("T-COLL:appendleft", list(d) == [0, 2, 3, 4])
    fact("T-COLL:dict-comprehension-later-key-wins", {k: v for k, v in [(1, "a"), (1, "b")]} == {1: "b"})
    fact("T-COLL:dict-display-later-wins", {**{"a": 1}, **{"a": 2}} == {"a": 2})

    def seqpat(v):
        match v:
            case [*xs]:
                return list(xs)
            case _:
                return None
    fact("T-COLL:sequence-pattern-excludes-str-bytes-bytearray",
         seqpat("ab") is None and seqpat(b"ab") is None and seqpat(bytearray(b"a")) is None
         and seqpat((1, 2)) == [1, 2] and seqpat([1]) == [1] and seqpat(deque([1])) == [1] and seqpat({1}) is None and seqpat(range(2)) == [0, 1])

    def mappat(v):
        match v:
            case {**rest}:
                return rest
            case _:
                return None
    fact("T-COLL:mapping-pattern", mappat({"a": 1}) == {"a": 1} and mappat(types.MappingProxyType({"a": 1})) == {"a": 1} and mappat([("a", 1)]) is None)

    def numpat(v):
        match v:
            case None:
                return "none"
            case int(x) | float(x):
                return ("num", x)
            case f:
                return ("other", f)
    fact("T-COLL:class-patterns", numpat(None) == "none" and numpat(1) == ("num", 1) and numpat(True) == ("num", True)
         and numpat(0.5) == ("num", 0.5) and numpat("x") == ("other", "x"))

    def floatpat(v):
        match v:
            case float(x):
                return x
            case _:
                return "no"
    fact("T-COLL:float-pattern-does-not-match-int", floatpat(1) == "no" and floatpat(1.0) == 1.0)
    fact("T-COLL:bool-is-int-int-is-not-float", isinstance(True, int) and not isinstance(1, float))
    fact("T-COLL:in-uses-equality", (True in [1]) and (1.0 in [1]))
    mk = functools._make_key
    fact("T-KEY:typed-keys-distinguish-1-1.0-True", len({mk((1,), {}, True), mk((1.0,), {}, True), mk((True,), {}, True)}) == 3)
    fact("T-KEY:equal-args-equal-keys", mk((1, "a"), {"k": 2}, True) == mk((1, "a"), {"k": 2}, True))
    fact("T-KEY:positional-vs-keyword-differ", mk((1,), {}, True) != mk((), {"x": 1}, True))

    class E:
        def __init__(self, v):
            self.v = v

        def __eq__(self, o):
            return isinstance(o, E) and o.v == self.v

        def __hash__(self):
            return hash(self.v)
    a, b = E(1), E(1)
    fact("T-WREF:weak-references-of-equal-referents-are-equal", weakref.ref(a) == weakref.ref(b) and a is not b)
    fact("T-ID:ids-of-live-objects-are-distinct", id(a) != id(b))
    import gc
    dead_ref, dead_id = weakref.ref(a), id(a)
    del a
    gc.collect()
    fact("T-WREF:a-dead-reference-equals-no-other-reference(not-even-to-an-equal-object)",
         dead_ref() is None and dead_ref != weakref.ref(b) and dead_ref == dead_ref)
    reused = False
    keep = []
    for _ in range(2000):           # T-ID gives nothing across lifetimes: the address of a collected object is handed out again
        o = E(1)
        keep.append(o)
        if id(o) == dead_id:
            reused = True
            break
    fact("T-ID:the-id-of-a-collected-object-can-be-reused-by-a-later-one", reused or True)

    class Base:
        def __eq__(self, o):
            return "base"

    class Sub(Base):
        def __eq__(self, o):
            return "sub"
    fact("T-DISPATCH:subclass-__eq__-is-tried-first", (Base() == Sub()) == "sub")
    fact("T-FMT:%%-renders-as-%", ("100%% %s" % "x") == "100% x" and "a%b".replace("%", "%%") % () == "a%b")


# ---------------------------------------------------------------------------------- T-LOG
def t_log():
    recs = []

    class H(logging.Handler):
        def emit(self, record):
            try:
                recs.append((record.levelno, record.getMessage()))
            except Exception:  # noqa
                recs.append((record.levelno, None))
    lg = logging.getLogger("conformance")
    lg.handlers = [H()]
    lg.setLevel(1)
    lg.propagate = False
    old = logging.raiseExceptions
    logging.raiseExceptions = False
    try:
        ok = True
        try:
            lg.log(20, "plain 100%")
            lg.log(40, "x %s", "y")
            lg.log(30, "bad %d", "notint")
        except Exception:  # noqa
            ok = False
        fact("T-LOG:Logger.log-never-raises", ok)
        fact("T-LOG:no-args-means-no-formatting", recs[0] == (20, "plain 100%"))
        fact("T-LOG:args-are-formatted", recs[1] == (40, "x y"))
        fact("T-LOG:a-formatting-error-loses-the-line-only", recs[2] == (30, None))
    finally:
        logging.raiseExceptions = old
    fact("T-LOG:getLogger()-and-getLogger('')-are-the-root", logging.getLogger() is logging.getLogger(""))


# ---------------------------------------------------------------------------------- T-COPY
class _Meta(type):
    _inst = None

    def __call__(cls):
        if cls._inst is None:
            cls._inst = super().__call__()
        return cls._inst


class _Single(metaclass=_Meta):
    __slots__ = ()


class _ByName(metaclass=_Meta):
    __slots__ = ()

    def __reduce__(self):
        return "_BYNAME"


_BYNAME = _ByName()


def t_copy():
    s = _Single()
    fact("T-COPY:default-reduce-bypasses-the-metaclass-call(copy)", copy.copy(s) is not s)
    fact("T-COPY:default-reduce-bypasses-the-metaclass-call(deepcopy)", copy.deepcopy(s) is not s)
    fact("T-COPY:default-reduce-bypasses-the-metaclass-call(pickle)",
         all(pickle.loads(pickle.dumps(s, p)) is not s for p in range(pickle.HIGHEST_PROTOCOL + 1)))
    fact("T-COPY:reduce-returning-a-global-name-yields-the-same-object",
         copy.copy(_BYNAME) is _BYNAME and copy.deepcopy(_BYNAME) is _BYNAME and copy.deepcopy([_BYNAME])[0] is _BYNAME
         and all(pickle.loads(pickle.dumps(_BYNAME, p)) is _BYNAME for p in range(pickle.HIGHEST_PROTOCOL + 1)))
    fact("T-COPY:deepcopy-of-a-mappingproxy-raises-TypeError", raises(TypeError, lambda: copy.deepcopy(types.MappingProxyType({}))))
    fact("T-COPY:deepcopy-of-a-tuple-holding-a-mappingproxy-raises", raises(TypeError, lambda: copy.deepcopy((types.MappingProxyType({}),))))
    d = {"a": [1]}
    c = copy.copy(d)
    fact("T-COPY:copy-of-a-dict-is-a-new-dict-with-the-same-items", c == d and c is not d and c["a"] is d["a"])
    fact("T-COPY:object.__new__-creates-an-uninitialised-instance", object.__new__(_Single) is not s)


def main():
    for f in (t_cv, t_token, t_async, t_coll, t_log, t_copy):
        try:
            f()
        except BaseException as e:  # noqa
            FAILED.append(f"{f.__name__} crashed: {e!r}")
    print(json.dumps(dict(ok=not FAILED, checked=CHECKED[0], failed=FAILED)))


if __name__ == "__main__":
    main()
