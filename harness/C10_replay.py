"""Native replay for C10: records of several metric types at arbitrary positions of a scope tree,
merge functions from a family (replace, sum, concatenate, raising), compared with a left-fold model."""
import asyncio
import json
import logging
import os
import random
import sys
logging.disable(logging.CRITICAL)

from haiway import State, ctx
from haiway.context.metrics import MetricsContext


class M1(State):
    v: int = 0


class M2(State):
    items: tuple[int, ...] = ()


def m_replace(a, b):
    return b


def m_sum(a, b):
    return M1(v=a.v + b.v) if isinstance(a, M1) else M2(items=a.items + b.items)


def m_first(a, b):
    return a


def m_raise(a, b):
    raise ValueError("merge failed")


MERGES = [m_replace, m_sum, m_first, m_raise]


def run_program(rng):
    problems = []
    model = {}            # scope id -> {type: value}
    counter = [0]

    def record(sid):
        metric = M1(v=rng.randint(1, 9)) if rng.random() < 0.5 else M2(items=(rng.randint(1, 9),))
        merge = rng.choice(MERGES)
        cur = model[sid].get(type(metric))
        try:
            ctx.record(metric, merge=merge)
        except Exception as e:  # noqa
            problems.append(f"ctx.record raised {e!r}")
            return
        if cur is None:
            model[sid][type(metric)] = metric
        elif merge is not m_raise:
            model[sid][type(metric)] = merge(cur, metric)

    def check(sid, where):
        m = MetricsContext._context.get()
        for T in (M1, M2):
            got, want = m.read(T), model[sid].get(T)
            if got != want:
                problems.append(f"{where}: scope s{sid} holds {got} for {T.__name__}, left fold of its records gives {want}")

    def walk(depth):
        sid = counter[0]
        counter[0] += 1
        model[sid] = {}
        with ctx.scope(f"s{sid}"):
            for _ in range(rng.randint(0, 3)):
                record(sid)
            check(sid, "before children")
            if depth > 0:
                for _ in range(rng.randint(0, 2)):
                    walk(depth - 1)
                    record(sid)
                    check(sid, "after a child")
    try:
        ctx.record(M1(v=1))           # outside any scope: must not raise
    except Exception as e:  # noqa
        return [f"ctx.record outside any scope raised {e!r}"]
    walk(2)
    return problems


def main():
    sys.stdin.read()
    seed = int(os.environ.get("VERIF_SEED", "0") or 0)
    n, p = 0, None
    for k in range(int(os.environ.get("C10_PROGRAMS", "200"))):
        n += 1
        pr = run_program(random.Random(seed * 15485863 + k))
        if pr:
            p = pr[0]
            break
    if p:
        print(json.dumps(dict(reproduced=True, detail=dict(problem=p, seed=seed, program=n), cases_tried=n), default=str))
    else:
        print(json.dumps(dict(reproduced=False, cases_tried=n, detail="statement held on every generated program")))


if __name__ == "__main__":
    main()
