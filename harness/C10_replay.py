"""Native replay for C10: records of several metric types at arbitrary positions of a scope tree,
merge functions from a family (replace, sum, concatenate, raising), compared with a left-fold model."""
import asyncio
import json
import logging
import os
import random
import sys
logging.disable(logging.CRITICAL)

from haiway import State, ctx, not_missing
from haiway.context.metrics import MetricsContext


class M1(State):
    v: int = 0


class M1s(M1):                 # a metric type derived from another one: each is its own metric ("a scope's value for a metric type")
    pass


class M2(State):
    items: tuple[int, ...] = ()


class M3(State):               # a metric class with its own truthiness (falsy while `ok` is False)
    v: int = 0
    ok: bool = True

    def __bool__(self):
        return self.ok


def m_replace(a, b):
    return b


def m_sum(a, b):
    if isinstance(a, M3):
        return M3(v=a.v + b.v, ok=a.ok and b.ok)
    return type(a)(v=a.v + b.v) if isinstance(a, M1) else M2(items=a.items + b.items)


def m_first(a, b):
    return a


def m_raise(a, b):
    raise ValueError("merge failed")


MERGES = [m_replace, m_sum, m_first, m_raise]


def run_program(rng):
    problems = []
    model = {}            # scope id -> {type: value}
    counter = [0]

    def record(sid):
        metric = rng.choice([lambda: M1(v=rng.randint(1, 9)), lambda: M1s(v=rng.randint(10, 19)), lambda: M2(items=(rng.randint(1, 9),)),
                             lambda: M3(v=rng.randint(1, 9), ok=rng.random() < 0.5)])()
        merge = rng.choice(MERGES)
        cur = model[sid].get(type(metric))
        try:
            ctx.record(metric, merge=merge)
        except Exception as e:  # noqa
            problems.append(f"ctx.record raised {e!r}")
            return
        if cur is None:
            model[sid][type(metric)] = metric
        elif merge is not m_raise:
            model[sid][type(metric)] = merge(cur, metric)

    def check(sid, where):
        m = MetricsContext._context.get()
        for T in (M1, M1s, M2, M3):
            got, want = m.read(T), model[sid].get(T)
            if got != want or (got is not None and type(got) is not T):
                problems.append(f"{where}: scope s{sid} holds {got!r} for {T.__name__}, left fold of its records of that type gives {want!r}")
            fallback = T()
            got_d = m.read(T, default=fallback)
            if (want is None and got_d is not fallback) or (want is not None and got_d != want):
                problems.append(f"{where}: scope s{sid} read({T.__name__}, default=...) gives {got_d!r}, expected "
                                f"{'the default' if want is None else want!r}")

    children = {}

    def fold(cur, item):                 # merge of the merged view: concatenating / summing, never commutative for M2
        return item if not not_missing(cur) else m_sum(cur, item)

    def expected_merged(sid, T):
        vals = [model[sid][T]] if T in model[sid] else []
        for c in children[sid]:
            v = expected_merged(c, T)
            if v is not None:
                vals.append(v)
        if not vals:
            return None
        out = vals[0]
        for v in vals[1:]:
            out = m_sum(out, v)
        return out

    def check_merged(sid, where):
        m = MetricsContext._context.get()
        try:
            got = {type(x): x for x in m.metrics(merge=fold)}
        except Exception as e:  # noqa
            problems.append(f"{where}: merged view of s{sid} raised {e!r}")
            return
        for T in (M1, M1s, M2, M3):
            want = expected_merged(sid, T)
            if got.get(T) != want:
                problems.append(f"{where}: merged view of s{sid} gives {got.get(T)} for {T.__name__}, folding its records and "
                                f"its nested scopes in creation order gives {want}")

    def walk(depth):
        sid = counter[0]
        counter[0] += 1
        model[sid] = {}
        children[sid] = []
        with ctx.scope(f"s{sid}"):
            for _ in range(rng.randint(0, 3)):
                record(sid)
            check(sid, "before children")
            if depth > 0:
                for _ in range(rng.randint(0, 2)):
                    children[sid].append(counter[0])
                    walk(depth - 1)
                    if rng.random() < 0.7:
                        record(sid)
                    check(sid, "after a child")
                if rng.random() < 0.3:
                    # a scope object made here (its metrics nest under this scope) but entered inside another block:
                    # after it is left, records land in the block it was entered in - the innermost *active* one
                    psid, isid = counter[0], counter[0] + 1
                    counter[0] += 2
                    model[psid], model[isid], children[psid], children[isid] = {}, {}, [], []
                    children[sid].append(psid)
                    prepared = ctx.scope(f"s{psid}")
                    children[sid].append(isid)
                    with ctx.scope(f"s{isid}"):
                        record(isid)
                        with prepared:
                            record(psid)
                            check(psid, "inside a prepared scope")
                        record(isid)
                        check(isid, "after a prepared scope was left")
                    record(sid)
                    check(sid, "after the block around a prepared scope")
            check_merged(sid, "at the end of the block")
    try:
        ctx.record(M1(v=1))           # outside any scope: must not raise
    except Exception as e:  # noqa
        return [f"ctx.record outside any scope raised {e!r}"]
    walk(3)
    return problems


def run_concurrent():
    """Spawned tasks record into the scope they were spawned in - also after the scope's body has ended
    (the scope stays open until its task group has been drained) - and into scopes they open themselves."""
    problems = []

    async def prog(order):
        seen = {}

        def completion(metrics):
            seen["own"] = (metrics.read(M1), metrics.read(M2))
            seen["merged"] = {type(x): x for x in metrics.metrics(merge=lambda a, b: b if not a else m_sum(a, b))}
        gate, started, body_ended = asyncio.Event(), asyncio.Event(), asyncio.Event()

        async def worker(tag):
            try:
                ctx.record(M2(items=(tag,)), merge=m_sum)
                started.set()
                await gate.wait()
                ctx.record(M2(items=(tag + 1,)), merge=m_sum)
                with ctx.scope("nested"):
                    ctx.record(M1(v=8), merge=m_sum)
                ctx.record(M1(v=4), merge=m_sum)
            except Exception as e:  # noqa
                problems.append(f"recording in a spawned task raised {e!r}")

        async def opener():
            await started.wait()
            if order == "after-body":
                await body_ended.wait()
            gate.set()
        t = asyncio.create_task(opener())
        async with ctx.scope("root", completion=completion):
            ctx.record(M1(v=1), merge=m_sum)
            ctx.record(M2(items=(0,)), merge=m_sum)
            ctx.spawn(worker, 10)
            await started.wait()
            if order == "before-body-end":
                await gate.wait()
                await asyncio.sleep(0)
            body_ended.set()
        await t
        for _ in range(5):
            await asyncio.sleep(0)
        if "own" not in seen:
            problems.append(f"[{order}] the root scope never completed")
            return
        if seen["own"] != (M1(v=5), M2(items=(0, 10, 11))):
            problems.append(f"[{order}] records of a task spawned in the scope: the scope holds {seen['own']}, "
                            f"expected (M1(v=5), M2(items=(0, 10, 11)))")
        if seen["merged"].get(M1) != M1(v=13):
            problems.append(f"[{order}] merged view gives {seen['merged'].get(M1)} for M1, expected M1(v=13)")
    for order in ("before-body-end", "after-body"):
        asyncio.run(asyncio.wait_for(prog(order), 5))
    return problems


def sibling_tasks():
    """Several tasks spawned into ONE scope's group, from different scope levels: a record lands in the innermost scope active
    in the recording task - not in a scope a sibling happens to sit in, and in the scope that was current where the task
    was spawned (second spawn from inside a nested synchronous scope)."""
    problems = []

    async def prog():
        done = {}

        def completion(tag):
            def cb(metrics):
                done[tag] = (metrics.read(M1), metrics.read(M2))
            return cb
        sitting, release = asyncio.Event(), asyncio.Event()

        async def first():
            with ctx.scope("first-private", completion=completion("first-private")):
                ctx.record(M1(v=1), merge=m_sum)
                sitting.set()
                await release.wait()
                ctx.record(M1(v=2), merge=m_sum)

        async def second():
            await sitting.wait()
            ctx.record(M2(items=(21,)), merge=m_sum)      # while `first` sits in its private scope
            release.set()

        async def from_inner():
            ctx.record(M2(items=(31,)), merge=m_sum)

        async def from_root_again():
            ctx.record(M2(items=(22,)), merge=m_sum)
        async with ctx.scope("root", completion=completion("root")):
            ctx.spawn(first)
            ctx.spawn(second)
            with ctx.scope("inner", completion=completion("inner")):
                ctx.spawn(from_inner)
                for _ in range(3):          # the task records while the synchronous scope it was spawned in is still open
                    await asyncio.sleep(0)
            await sitting.wait()
            ctx.spawn(from_root_again)
        for _ in range(6):
            await asyncio.sleep(0)
        want = {"root": (None, M2(items=(21, 22))), "inner": (None, M2(items=(31,))),
                "first-private": (M1(v=3), None)}
        for tag, w in want.items():
            if tag not in done:
                problems.append(f"sibling tasks: scope {tag!r} never completed")
            elif done[tag] != w:
                problems.append(f"sibling tasks of one group: scope {tag!r} holds {done[tag]}, expected {w} (each record belongs to the "
                                "innermost scope of the task that made it / the scope where that task was spawned)")
    asyncio.run(asyncio.wait_for(prog(), 5))
    return problems


def generic_metric_types():
    """A scope's value "for a metric type": specialisations of one generic state are different types - also when their
    arguments print alike (`Usage[Literal["small"]]` / `Usage[Literal["large"]]`, `Seen[Sequence[int]]` / `Seen[Sequence[str]]`) -
    and are folded separately."""
    from typing import Literal
    from collections.abc import Sequence
    problems = []

    class Usage[Model](State):
        tokens: int = 0

    class Seen[Item](State):
        count: int = 0
    small, large = Usage[Literal["small"]], Usage[Literal["large"]]
    ints, strs = Seen[Sequence[int]], Seen[Sequence[str]]
    if small is large or ints is strs:
        return ["specialisations of a generic state with different arguments are one and the same class"]
    add = lambda a, b: type(a)(**{k: getattr(a, k) + getattr(b, k) for k in ("tokens", "count") if hasattr(a, k)})      # noqa: E731

    async def prog():
        done = {}
        async with ctx.scope("root", completion=lambda m: done.update(root=m)):
            ctx.record(small(tokens=1), merge=add)
            ctx.record(large(tokens=100), merge=add)
            with ctx.scope("nested"):
                ctx.record(small(tokens=2), merge=add)
                ctx.record(large(tokens=1000), merge=add)
                ctx.record(ints(count=1), merge=add)
            ctx.record(strs(count=5), merge=add)
            ctx.record(small(tokens=4), merge=add)
        for _ in range(4):
            await asyncio.sleep(0)
        m = done.get("root")
        if m is None:
            problems.append("generic metric types: the root scope never completed")
            return
        own = (m.read(small), m.read(large), m.read(ints), m.read(strs))
        want = (small(tokens=5), large(tokens=100), None, strs(count=5))
        if own != want or any(type(a) is not type(b) for a, b in zip(own, want) if b is not None):
            problems.append(f"records of four specialised metric types in one scope: the scope holds {own}, expected {want}")
        merged = {type(x): x for x in m.metrics(merge=lambda a, b: b if not a else add(a, b))}
        wantm = {small: small(tokens=7), large: large(tokens=1100), ints: ints(count=1), strs: strs(count=5)}
        if merged != wantm:
            problems.append(f"merged view over specialised metric types: {merged}, expected {wantm}")
    asyncio.run(asyncio.wait_for(prog(), 5))
    return problems


def several_views():
    """The merged view is the fold with the merge function *supplied to that call*: several views of one scope - live and
    completed - taken one after another with different, freshly made functions (inline lambdas, whose addresses CPython reuses)."""
    out = []
    kept = {}

    async def prog():
        async with ctx.scope("root", completion=lambda metrics: kept.setdefault("root", metrics)):
            ctx.record(M1(v=1000))
            ctx.record(M2(items=(0,)))
            with ctx.scope("a"):
                ctx.record(M1(v=100))
                with ctx.scope("a1"):
                    ctx.record(M1(v=10))
                    ctx.record(M2(items=(1,)))
            with ctx.scope("b"):
                ctx.record(M1(v=3))
                ctx.record(M2(items=(2,)))
            kept["live"] = MetricsContext._context.get()
            check("live")
        for _ in range(3):
            await asyncio.sleep(0)

    want = {"sum": (1113, (0, 1, 2)), "replace": (3, (2,)), "first": (1000, (0,))}

    def view(m, kind):
        # a new function object for every call, dropped right after it
        if kind == "sum":
            got = m.metrics(merge=lambda a, b: b if not_missing_(a) is False else m_sum(a, b))
        elif kind == "replace":
            got = m.metrics(merge=lambda a, b: b)
        else:
            got = m.metrics(merge=lambda a, b: b if not_missing_(a) is False else a)
        d = {type(x): x for x in got}
        return (d[M1].v if M1 in d else None, d[M2].items if M2 in d else None)

    def check(label):
        m = kept["root"] if label != "live" else kept["live"]
        import gc
        for kind in ("sum", "replace", "first", "replace", "sum", "first", "sum"):
            gc.collect()
            try:
                got = view(m, kind)
            except Exception as e:  # noqa
                out.append(f"{label} scope, merged view with a fresh {kind!r} function raised {e!r}")
                return
            if got != want[kind]:
                out.append(f"{label} scope: the merged view taken with a fresh {kind!r} merge function gives {got}, folding with that "
                           f"function gives {want[kind]} (an earlier view was taken with another function)")
                return
    asyncio.run(prog())
    if "root" not in kept:
        out.append("the root scope never completed")
    elif not out:
        check("completed")
    return out


def late_records():
    """A task that outlives the scope it was started in records after that scope completed: the record lands in no scope (it
    is refused and logged) - in particular not in an enclosing scope, whose value and merged view hold only its own records -
    and nothing is raised."""
    out = []
    kept = {}

    async def prog():
        gate = asyncio.Event()

        async def late():
            await gate.wait()
            try:
                ctx.record(M1(v=500), merge=m_sum)
                ctx.record(M2(items=(9,)), merge=m_sum)
            except Exception as e:  # noqa
                out.append(f"ctx.record after the scope completed raised {e!r}")
        async with ctx.scope("outer", completion=lambda m: kept.setdefault("outer", m)):
            ctx.record(M1(v=1), merge=m_sum)
            with ctx.scope("inner", completion=lambda m: kept.setdefault("inner", m)):
                ctx.record(M2(items=(1,)), merge=m_sum)
                t = ctx.spawn(late)
            await asyncio.sleep(0)
            gate.set()
            await t
            ctx.record(M1(v=2), merge=m_sum)
        for _ in range(3):
            await asyncio.sleep(0)
    asyncio.run(prog())
    o, i = kept.get("outer"), kept.get("inner")
    if o is None or i is None:
        return out + ["a scope never completed"]
    view = {type(x): x for x in o.metrics(merge=lambda a, b: b if a is MISSING_ else m_sum(a, b))}
    if o.read(M1) != M1(v=3) or o.read(M2) is not None:
        out.append(f"records made after the inner scope completed landed in the enclosing scope: outer holds M1={o.read(M1)!r}, M2={o.read(M2)!r}")
    if i.read(M2) != M2(items=(1,)) or i.read(M1) is not None:
        out.append(f"the completed inner scope changed: M1={i.read(M1)!r}, M2={i.read(M2)!r}")
    if view.get(M1) != M1(v=3) or view.get(M2) != M2(items=(1,)):
        out.append(f"the merged view of the outer scope is {view}")
    return out


from haiway import MISSING as MISSING_  # noqa: E402


def not_missing_(v):
    from haiway import MISSING
    return v is not MISSING


def main():
    sys.stdin.read()

    seed = int(os.environ.get("VERIF_SEED", "0") or 0)
    n, p = 0, None
    for k in range(int(os.environ.get("C10_PROGRAMS", "200"))):
        n += 1
        pr = run_program(random.Random(seed * 15485863 + k))
        if pr:
            p = pr[0]
            break
    if not p:
        n += 2
        pc = run_concurrent()          # (last: asyncio.run leaves the thread without a current event loop)
        p = pc[0] if pc else None
    if not p:
        n += 1
        pv = several_views() or late_records() or sibling_tasks() or generic_metric_types()
        p = pv[0] if pv else None
    if p:
        print(json.dumps(dict(reproduced=True, detail=dict(problem=p, seed=seed, program=n), cases_tried=n), default=str))
    else:
        print(json.dumps(dict(reproduced=False, cases_tried=n, detail="statement held on every generated program")))


if __name__ == "__main__":
    main()
