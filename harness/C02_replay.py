"""Native replay for C02: the block must leave state / metrics scope / task group as it found them
on every exit path; the body's exception reaches the caller as the same object unless cleanup failed."""
import asyncio
from scope_native import main, DispError


def check(sc, obs):
    if "hang" in obs:
        return f"hang: {obs['hang']}"
    if "before" not in obs or "after" not in obs:
        return None
    if obs["before"] != obs["after"]:
        names = ["state", "metrics scope", "task group"]
        diff = [names[i] for i in range(3) if obs["before"][i] is not obs["after"][i]]
        return f"after the block the surrounding code sees a different {', '.join(diff)} than before it"
    kind, exc = obs.get("outcome", (None, None))
    cleanup_failed = any(x.endswith("fail") for _, x in sc["disps"]) or any(e.endswith("fail") for e, _ in sc["disps"])
    be = obs.get("body_raised")
    if be is not None and not cleanup_failed and not obs.get("cancel_delivered") and not (kind == "raise" and exc is be):
        return f"the body raised {be!r} but the caller got {(kind, exc)!r}"
    return None


if __name__ == "__main__":
    main(check)
