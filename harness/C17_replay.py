"""Native replay for C17: exhaustive operation sequences (bounded) against the real AsyncQueue,
checking the statement literally: received == enqueued prefix, in order, then the finish reason."""
import asyncio
import itertools
import json
import sys
import logging
logging.disable(logging.CRITICAL)

from haiway.utils.queue import AsyncQueue

OPS = ["enq", "enq2", "finish", "finish_err", "cancel_q", "recv", "cancel_recv", "run"]


class Boom(Exception):
    pass


def run_seq(seq):
    loop = asyncio.new_event_loop()
    try:
        return loop.run_until_complete(_run(seq))
    finally:
        loop.close()


async def _run(seq):
    q = AsyncQueue()
    accepted, received, ends = [], [], []
    counter = itertools.count(1)
    task = None
    finished = None
    boom = Boom("reason")

    async def consume():
        try:
            received.append(await q.__anext__())
        except BaseException as e:  # noqa
            ends.append(e)
            if isinstance(e, asyncio.CancelledError) and e is not finished and not q.is_finished:
                raise

    async def settle():
        for _ in range(3):
            await asyncio.sleep(0)

    for op in seq:
        if op in ("enq", "enq2"):
            items = [next(counter) for _ in range(1 if op == "enq" else 2)]
            try:
                q.enqueue(*items)
                if finished is not None:
                    return f"enqueue accepted after finish ({seq})"
                accepted.extend(items)
            except RuntimeError:
                if finished is None:
                    return f"enqueue failed before finish ({seq})"
        elif op == "finish":
            q.finish()
            finished = finished or "stop"
        elif op == "finish_err":
            q.finish(boom)
            finished = finished or boom
        elif op == "cancel_q":
            q.cancel()
            finished = finished or "cancel"
        elif op == "recv":
            if task is None or task.done():
                task = asyncio.ensure_future(consume())
        elif op == "cancel_recv":
            if task is not None and not task.done():
                task.cancel()
        elif op == "run":
            await settle()
    # drain: finish and read everything that is left
    if task is not None and not task.done():
        await settle()
        if not task.done():
            q.finish()
            finished = finished or "stop"
            await settle()
    if task is not None:
        try:
            await task
        except BaseException:  # noqa
            pass
    if finished is None:
        q.finish()
        finished = "stop"
    for _ in range(len(accepted) + 2):
        try:
            received.append(await q.__anext__())
        except StopAsyncIteration as e:
            if finished != "stop":
                return f"ended with StopAsyncIteration but finish reason was {finished!r} ({seq})"
            break
        except Boom as e:
            if e is not boom or finished is not boom:
                return f"wrong finish reason {e!r} ({seq})"
            break
        except asyncio.CancelledError:
            if finished != "cancel":
                return f"ended cancelled but finish reason was {finished!r} ({seq})"
            break
    if received != accepted:
        return f"enqueued {accepted} but received {received} ({seq})"
    return None


def search(maxlen):
    n = 0
    for ln in range(1, maxlen + 1):
        for seq in itertools.product(OPS, repeat=ln):
            n += 1
            p = run_seq(seq)
            if p:
                return n, dict(sequence=list(seq), problem=p)
    # a producer far ahead of its consumer (dozens of buffered elements), also around a cancelled pending receive, and long
    # random sequences (length 25-40) biased towards enqueueing
    long_ones = [["enq2"] * 12, ["enq"] * 20 + ["recv", "run"] * 5, ["recv", "run"] + ["enq2"] * 10 + ["cancel_recv", "run", "recv", "run"],
                 ["recv"] + ["enq2"] * 9 + ["cancel_recv", "run"], ["enq2"] * 9 + ["finish"] + ["recv", "run"] * 3,
                 ["enq2"] * 9 + ["finish_err"], ["enq2"] * 10 + ["cancel_q", "recv", "run"]]
    import random
    rng = random.Random(int(__import__("os").environ.get("VERIF_SEED", "0") or 0))
    for _ in range(int(__import__("os").environ.get("C17_RANDOM", "150"))):
        long_ones.append([rng.choice(("enq", "enq2", "enq2", "enq2", "recv", "run", "cancel_recv", "recv", "run"))
                          for _ in range(rng.randint(25, 40))] + rng.choice(([], ["finish"], ["finish_err"], ["cancel_q"])))
    for seq in long_ones:
        n += 1
        p = run_seq(tuple(seq))
        if p:
            return n, dict(sequence=list(seq), problem=p)
    return n, None


def main():
    sys.stdin.read()
    n, fail = search(int(__import__("os").environ.get("C17_MAXLEN", "4")))
    if fail:
        print(json.dumps(dict(reproduced=True, detail=fail, cases_tried=n)))
    else:
        print(json.dumps(dict(reproduced=False, cases_tried=n, detail="statement held on every enumerated sequence")))


if __name__ == "__main__":
    main()
