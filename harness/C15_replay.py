"""Native replay for C15 in exact virtual time: arrival patterns x limits x periods; the start
instants of the wrapped function must satisfy the window bound, arrive in order, and every call
must return the function's own outcome."""
import asyncio
import itertools
import json
import logging
import sys
import os
from datetime import timedelta
sys.path.insert(0, os.path.dirname(os.path.abspath(__file__)))
logging.disable(logging.CRITICAL)

import haiway.helpers.throttling as T
from haiway import throttle
from vloop import run, Hang


class Boom(Exception):
    pass


def run_case(limit, period, arrivals, duration, hops=0):
    per = period.total_seconds() if isinstance(period, timedelta) else float(period)

    async def main(loop):
        starts = []
        arrival_seq = []

        @throttle(limit=limit, period=period)
        async def fn(i):
            starts.append((loop.time(), i))
            if duration:
                await asyncio.sleep(duration)
            if i % 3 == 2:
                raise Boom(i)
            return ("value", i)

        async def caller(i, at):
            await asyncio.sleep(at)
            for _ in range(hops):          # the call is made a few loop turns after the instant was reached (same virtual time):
                await asyncio.sleep(0)     # its first step then falls between the wake-ups of calls already queued
            arrived = loop.time()
            arrival_seq.append(i)
            try:
                r = await fn(i)
                return (i, arrived, "ret", r)
            except Boom as e:
                return (i, arrived, "exc", e.args[0])

        res = await asyncio.gather(*[caller(i, at) for i, at in enumerate(arrivals)])
        return starts, res, arrival_seq

    try:
        starts, res, arrival_seq = run(main, T)
    except Hang as h:
        return f"hang: {h}"
    times = [t for t, _ in starts]
    if len(starts) != len(arrivals):
        return f"{len(starts)} invocations for {len(arrivals)} calls"
    for a in range(len(times)):
        inwin = [t for t in times if times[a] <= t < times[a] + per]
        if len(inwin) > limit:
            return f"{len(inwin)} invocations began in [{times[a]}, {times[a] + per}) with limit {limit}: starts={times}"
    order = [i for _, i in starts]
    by_arrival = arrival_seq
    if order != by_arrival:
        return f"calls began in order {order}, arrived in order {by_arrival}"
    for (i, arrived, kind, v) in res:
        want = ("exc", i) if i % 3 == 2 else ("ret", ("value", i))
        if (kind, v) != want:
            return f"call {i} got {(kind, v)}, expected {want}"
    # a call must not be delayed when fewer than `limit` calls began in the preceding period and nobody waits
    for (t, i) in starts:
        arrived = [r[1] for r in res if r[0] == i][0]
        if t > arrived:
            earlier_waiting = any(r[1] <= arrived and [s for s, k in starts if k == r[0]][0] > arrived
                                  for r in res if r[0] != i)
            recent = [s for s, k in starts if k != i and arrived - per < s <= arrived]
            if len(recent) < limit and not earlier_waiting:
                return f"call {i} arrived at {arrived} with {len(recent)} recent starts (< {limit}) but began at {t}"
    # ... nor any longer than that: a waiting call begins at the first instant at which fewer than `limit` calls began in
    # the preceding period and every call that arrived before it has begun.  The instants that matter are the arrival,
    # the begins of other calls and the instants a begin leaves the window (begin + period).
    eps = 1e-6
    start_of = {k: s for s, k in starts}
    arrival_pos = {k: n for n, k in enumerate(arrival_seq)}
    for (t, i) in starts:
        arrived = [r[1] for r in res if r[0] == i][0]
        instants = sorted({arrived} | {s for s, k in starts if k != i} | {s + per for s, k in starts if k != i})
        for u in instants:
            if not (arrived <= u < t - eps):
                continue
            waiting = [k for k in start_of if k != i and arrival_pos[k] < arrival_pos[i] and start_of[k] > u]
            recent = [s for s, k in starts if k != i and u - per + eps < s <= u]
            if len(recent) < limit and not waiting:
                return (f"call {i} (arrived at {arrived}) was still held back at {u}, when only {len(recent)} calls (< {limit}) "
                        f"had begun in the preceding period and no earlier call was waiting; it began at {t}: starts={starts}")
    return None


def search():
    n = 0
    patterns = [[0.0] * k for k in range(1, 7)] + [[0, 0.1, 0.2, 0.3, 0.4, 0.5], [0, 0, 1.0, 1.0, 1.0, 2.0],
                                                   [0, 0.999, 1.0, 1.001, 2.0], [0, 0.5, 0.5, 1.5, 1.5, 1.5, 3.0]]
    # bursts larger than the limit followed by arrivals exactly on a window boundary (queued calls and a newcomer meet at the
    # instant several window entries expire), and random patterns on a dyadic grid (all instants exact floats)
    base_patterns = list(patterns)
    import random
    rng = random.Random(int(os.environ.get("VERIF_SEED", "0") or 0))
    patterns = patterns + [[0, 0, 0, 0.25, 0.25, 0.25, 0.5, 1.0], [0, 0, 0, 0, 0, 1.0], [0, 0, 0, 0, 1.0, 1.0, 1.0],
                           [0, 0, 0.5, 0.5, 0.5, 1.0, 1.0, 1.5], [0, 0, 0, 0, 0, 0, 1.0, 2.0, 2.0]] + \
        [sorted(rng.choice((0, 0.25, 0.5, 1.0, 1.0, 1.25, 2.0, 2.0, 3.0)) for _ in range(rng.randint(5, 9)))
         for _ in range(int(os.environ.get("C15_RANDOM", "12")))]
    for limit in (1, 2, 3, 4):
        for period in (1.0, 0.25, 2, timedelta(seconds=1), timedelta(milliseconds=1500), timedelta(days=1, microseconds=5)):
            for arrivals in patterns:
                for duration in (0, 0.3, 1.7):
                    for hops in ((0,) if arrivals in base_patterns else (0, 1, 2, 3, 4)):
                        n += 1
                        p = run_case(limit, period, arrivals, duration, hops)
                        if p:
                            return n, dict(limit=limit, period=str(period), arrivals=arrivals, duration=duration, hops=hops, problem=p)
    return n, None


def throttled_twice():
    """Each `throttle(...)` application has a window, limit and period of its own: the same coroutine function throttled twice
    (looser first / stricter first) gives two throttles that each keep their own bound."""
    for first_cfg, second_cfg, want in (((4, 1.0), (1, timedelta(seconds=2)), [0.0, 2.0, 4.0]),
                                        ((1, 5), (3, 1.0), [0.0, 0.0, 0.0])):
        starts = []

        async def main(loop, first_cfg=first_cfg, second_cfg=second_cfg, starts=starts):
            async def fetch(i):
                starts.append(loop.time())
                return i
            first = throttle(limit=first_cfg[0], period=first_cfg[1])(fetch)
            await first(0)
            del starts[:]
            await asyncio.sleep(20)                   # the first throttle's window is long over
            t0 = loop.time()
            second = throttle(limit=second_cfg[0], period=second_cfg[1])(fetch)
            res = await asyncio.gather(*[second(i) for i in range(3)])
            return t0, res
        try:
            t0, res = run(main, T)
        except Hang as h:
            return f"the same function throttled twice: {h}"
        got = [round(s - t0, 6) for s in starts]
        if got != want or res != [0, 1, 2]:
            return (f"the same function throttled with (limit, period) = {first_cfg} and later with {second_cfg}: three calls through the "
                    f"second throttle began at {got} (results {res}), expected {want}")
    return None


def main():
    sys.stdin.read()
    n, fail = search()
    if not fail:
        n += 2
        p = throttled_twice()
        fail = dict(problem=p) if p else None
    if not fail:
        from mimic_frame import own_state_problems
        n += 1
        p = own_state_problems(lambda f: throttle(limit=2, period=5)(f), True, "throttle")
        fail = dict(problem=p) if p else None
    if fail:
        print(json.dumps(dict(reproduced=True, detail=fail, cases_tried=n)))
    else:
        print(json.dumps(dict(reproduced=False, cases_tried=n, detail="statement held on every enumerated arrival pattern")))


if __name__ == "__main__":
    main()
