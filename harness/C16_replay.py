"""Native replay for C16 in virtual time: (duration, outcome) x timeout x caller-cancel instant."""
import asyncio
import json
import logging
import os
import sys
sys.path.insert(0, os.path.dirname(os.path.abspath(__file__)))
logging.disable(logging.CRITICAL)

from haiway import timeout
from vloop import run, Hang


class Boom(Exception):
    pass


class Base(BaseException):
    pass


OUTCOMES = ["value", "exc", "base", "selfcancel", "stubborn"]


def run_case(duration, outcome, tmo, cancel_at):
    state = {}

    async def main(loop):
        boom, base = Boom("x"), Base("y")

        @timeout(tmo)
        async def fn(a, b=0):
            state["started"] = loop.time()
            if cancel_at == "with-completion":
                # the caller is cancelled in the very loop iteration in which the function finishes, after the
                # function's own wake-up was queued: the function completes, the caller must still end cancelled
                async def helper():
                    await asyncio.sleep(duration)
                    state["cancel_result"] = state["caller_task"].cancel()
                state["helper"] = asyncio.ensure_future(helper())
            try:
                if outcome == "stubborn":
                    try:
                        await asyncio.sleep(duration)
                    except asyncio.CancelledError:
                        state["first_cancel"] = loop.time()
                        await asyncio.sleep(0.5)        # ignores the first cancellation for a while
                        state["finished"] = loop.time()
                        return ("late", a, b)
                else:
                    await asyncio.sleep(duration)
                if outcome == "exc":
                    raise boom
                if outcome == "base":
                    raise base
                if outcome == "selfcancel":
                    raise asyncio.CancelledError()
                return ("value", a, b)
            except asyncio.CancelledError:
                state["fn_cancelled"] = loop.time()
                raise
            finally:
                state["ended"] = loop.time()

        async def caller():
            try:
                return ("ret", await fn(1, b=2), loop.time())
            except BaseException as e:  # noqa
                return ("exc", e, loop.time())

        t = asyncio.ensure_future(caller())
        state["caller_task"] = t
        if isinstance(cancel_at, str) and cancel_at.startswith("turns:"):
            for _ in range(int(cancel_at.split(":")[1])):      # cancel after k event-loop turns (every early suspension point)
                await asyncio.sleep(0)
            state["cancel_result"] = (not t.done()) and t.cancel()
        elif cancel_at is not None and cancel_at != "with-completion":
            await asyncio.sleep(cancel_at)
            state["cancel_result"] = (not t.done()) and t.cancel()
        try:
            res = await t
        except asyncio.CancelledError:
            res = ("cancelled-task", None, loop.time())
        await asyncio.sleep(5)          # let everything settle
        return res, boom, base

    try:
        (kind, val, at), boom, base = run(main)
    except Hang as h:
        return f"caller never finished: {h}"
    if "ended" not in state and "started" in state:
        return "the wrapped function was still running 5s after the call ended"
    if isinstance(cancel_at, str) and cancel_at.startswith("turns:"):
        if duration > 0 and state.get("cancel_result") and not (kind == "cancelled-task" or (kind == "exc" and isinstance(val, asyncio.CancelledError))):
            return f"the caller was cancelled after {cancel_at} loop turns (function still running) but got {(kind, val)}"
        if duration > 0 and state.get("cancel_result") and "started" in state and outcome != "selfcancel" \
                and "fn_cancelled" not in state and "first_cancel" not in state:
            return (f"the caller was cancelled after {cancel_at} loop turns; the function had started and was never cancelled "
                    f"(it ran on for its full {duration}s with no timeout guard)")
        return None
    if cancel_at == "with-completion":
        if state.get("cancel_result") and not (kind == "cancelled-task" or (kind == "exc" and isinstance(val, asyncio.CancelledError))):
            return (f"the caller was cancelled while still inside the call (in the loop iteration in which the function "
                    f"finished) but got {(kind, val)}")
        return None
    finishes_first = duration < tmo and (cancel_at is None or duration < cancel_at)
    if cancel_at is not None and cancel_at < min(duration, tmo):
        if not (kind == "cancelled-task" or (kind == "exc" and isinstance(val, asyncio.CancelledError))):
            return f"caller cancelled at {cancel_at} but got {(kind, val)}"
        return None
    if cancel_at is not None and cancel_at <= max(duration, tmo) + 1:
        return None                      # races at equal instants: outcome not pinned by the statement
    if finishes_first:
        want = {"value": ("ret", ("value", 1, 2)), "exc": ("exc", boom), "base": ("exc", base),
                "selfcancel": ("exc", "cancel"), "stubborn": ("ret", ("value", 1, 2))}[outcome]
        if outcome == "stubborn":
            want = ("ret", ("late", 1, 2)) if False else None
        if want is None:
            return None
        if want[1] == "cancel":
            if not (kind == "exc" and isinstance(val, asyncio.CancelledError)):
                return f"function ended cancelled but the caller got {(kind, val)}"
        elif want[0] == "ret":
            if (kind, val) != want:
                return f"expected {want}, got {(kind, val)}"
        elif not (kind == "exc" and val is want[1]):
            return f"expected the function's exception object {want[1]!r}, got {(kind, val)}"
        if at != duration:
            return f"finished at {at}, function took {duration}"
    elif duration > tmo:
        if not (kind == "exc" and isinstance(val, TimeoutError)):
            return f"deadline {tmo} passed (duration {duration}) but got {(kind, val)}"
        if at != tmo:
            return f"TimeoutError delivered at {at}, deadline was {tmo}"
    return None


def stacked():
    """Wrapping an already wrapped function gives a new, independent wrapper: the inner one keeps its own deadline."""
    state = {}

    async def main(loop):
        async def fn():
            await asyncio.sleep(5.0)
            return "done"
        relaxed = timeout(10)(fn)
        strict = timeout(1)(relaxed)
        t0 = loop.time()
        try:
            await strict()
            state["strict"] = "returned"
        except TimeoutError:
            state["strict"] = ("timeout", loop.time() - t0)
        t0 = loop.time()
        try:
            state["relaxed"] = (await relaxed(), loop.time() - t0)
        except BaseException as e:  # noqa
            state["relaxed"] = (repr(e), loop.time() - t0)
        # a deadline of zero (a falsy number) around a wrapper / a callable object that carries a `_timeout` of its own
        class Fetcher:
            def __init__(self):
                self._timeout = 30

            async def __call__(self):
                await asyncio.sleep(2.0)
                return "fetched"
        for label, inner in (("timeout(0)(timeout(5)(f))", timeout(5)(fn)), ("timeout(0)(callable object with its own _timeout)", Fetcher())):
            t0 = loop.time()
            try:
                state[label] = ("returned", await timeout(0)(inner)(), loop.time() - t0)
            except TimeoutError:
                state[label] = ("timeout", loop.time() - t0)
            except BaseException as e:  # noqa
                state[label] = (repr(e), loop.time() - t0)
    try:
        run(main)
    except Hang as h:
        return f"stacked timeouts: {h}"
    if state.get("strict") != ("timeout", 1.0):
        return f"timeout(1)(timeout(10)(f)) with a 5s function: {state.get('strict')}, expected TimeoutError at 1.0"
    for label in ("timeout(0)(timeout(5)(f))", "timeout(0)(callable object with its own _timeout)"):
        if state.get(label) != ("timeout", 0.0):
            return f"{label}: {state.get(label)}, expected TimeoutError at the deadline 0.0"
    if state.get("relaxed") != ("done", 5.0):
        return (f"timeout(10)(f) called directly after it was also wrapped in timeout(1): {state.get('relaxed')}, expected the "
                f"function's own result after 5.0 (its deadline is 10)")
    return None


def overlapping(tmo, calls):
    """Several calls in flight through ONE wrapper object (two tasks calling the same decorated function): each call has its
    own deadline and its own outcome.  calls = [(start offset, duration)], all through the same wrapper."""
    state = {}

    async def main(loop):
        cancelled_at = {}

        @timeout(tmo)
        async def fn(i, duration):
            try:
                await asyncio.sleep(duration)
                return ("value", i)
            except asyncio.CancelledError:
                cancelled_at[i] = loop.time()
                raise

        async def caller(i, offset, duration):
            await asyncio.sleep(offset)
            t0 = loop.time()
            try:
                return (i, "ret", await fn(i, duration), loop.time() - t0)
            except BaseException as e:  # noqa
                return (i, "exc", type(e).__name__, loop.time() - t0)
        res = await asyncio.gather(*[caller(i, o, d) for i, (o, d) in enumerate(calls)])
        await asyncio.sleep(1)
        state["res"], state["cancelled_at"] = res, cancelled_at
    try:
        run(main)
    except Hang as h:
        return f"overlapping calls {calls} through one timeout({tmo}) wrapper: {h}"
    for (i, kind, val, took) in state["res"]:
        offset, duration = calls[i]
        if duration < tmo:
            if (kind, val) != ("ret", ("value", i)) or abs(took - duration) > 1e-9:
                return (f"overlapping calls {calls} through one timeout({tmo}) wrapper: call {i} (duration {duration}) got "
                        f"{(kind, val)} after {took}")
        elif duration > tmo:
            if (kind, val) != ("exc", "TimeoutError") or abs(took - tmo) > 1e-9:
                return (f"overlapping calls {calls} through one timeout({tmo}) wrapper: call {i} (duration {duration}) got "
                        f"{(kind, val)} after {took}, expected TimeoutError after {tmo}")
            if abs(state["cancelled_at"].get(i, -1.0) - (offset + tmo)) > 1e-9:
                return (f"overlapping calls {calls} through one timeout({tmo}) wrapper: the function of call {i} was cancelled at "
                        f"{state['cancelled_at'].get(i)}, expected {offset + tmo}")
    return None


def inside_scope():
    """The same outcomes when the call is made inside an asynchronous scope that has other spawned tasks: a failing function
    fails its caller with its own exception and nobody else."""
    from haiway import ctx
    out = {}

    async def main(loop):
        for kind in ("value", "exc", "base", "timeout"):
            boom, base = Boom("x"), Base("y")

            @timeout(1.0)
            async def fn():
                await asyncio.sleep(0.25 if kind != "timeout" else 5.0)
                if kind == "exc":
                    raise boom
                if kind == "base":
                    raise base
                return "value"

            async def bystander():
                await asyncio.sleep(2.0)
                return "bystander done"
            try:
                async with ctx.scope("around"):
                    other = ctx.spawn(bystander)
                    try:
                        got = ("ret", await fn())
                    except BaseException as e:  # noqa
                        got = ("exc", e)
                    by = await other
            except BaseException as e:  # noqa
                out[kind] = f"the scope around the call failed with {e!r} (function outcome {kind})"
                continue
            want_ok = {"value": got == ("ret", "value"), "exc": got[0] == "exc" and got[1] is boom,
                       "base": got[0] == "exc" and got[1] is base, "timeout": got[0] == "exc" and isinstance(got[1], TimeoutError)}[kind]
            if not want_ok or by != "bystander done":
                out[kind] = f"inside a scope, function outcome {kind}: the caller got {got!r}, the bystander task {by!r}"
    try:
        run(main)
    except Hang as h:
        return f"calls inside a scope: {h}"
    return "; ".join(out.values()) if out else None


def several_loops():
    """One wrapper object (a module-level `@timeout(...)` function) serves calls from several event loops, one after another
    (`asyncio.run` twice in a process): every call gets the function's own outcome / the timeout at its deadline, as in the
    first loop."""
    class Boom2(Exception):
        pass
    boom = Boom2("x")
    started = []

    @timeout(1.0)
    async def value(a):
        return ("value", a)

    @timeout(1.0)
    async def fails(a):
        raise boom

    @timeout(1.0)
    async def slow(a):
        started.append(a)
        try:
            await asyncio.sleep(5.0)
        except asyncio.CancelledError:
            started.append(("cancelled", a))
            raise
    for k in range(3):
        state = {}

        async def main(loop, k=k):
            for name, fn in (("value", value), ("fails", fails), ("slow", slow)):
                t0 = loop.time()
                try:
                    state[name] = ("ret", await fn(k), loop.time() - t0)
                except BaseException as e:  # noqa
                    state[name] = ("exc", e, loop.time() - t0)
        try:
            run(main)
        except Hang as h:
            return f"event loop #{k + 1} using the wrappers of loop #1: {h}"
        except BaseException as e:  # noqa
            return f"event loop #{k + 1} using the wrappers of loop #1: the program ended with {e!r}"
        want_slow = state.get("slow", (None, None, None))
        ok = state.get("value") == ("ret", ("value", k), 0) and state.get("fails", (0, 0, 0))[:2] == ("exc", boom) \
            and want_slow[0] == "exc" and isinstance(want_slow[1], TimeoutError) and want_slow[2] == 1.0 \
            and k in started and ("cancelled", k) in started
        if not ok:
            return (f"the same timeout wrappers called from event loop #{k + 1}: outcomes {state} (function started/cancelled: "
                    f"{started}); expected the value, the function's exception, and TimeoutError at 1.0 with the function cancelled")
    return None


def search():
    n = 0
    p = stacked() or inside_scope() or several_loops()
    if p:
        return 1, dict(problem=p)
    for tmo in (1.0, 5.0):
        for calls in ([(0, 0.5), (0.1, 50.0)], [(0, 50.0), (0.1, 0.5)], [(0, 0.5), (0, 0.5)], [(0, 50.0), (0.5, 50.0)],
                      [(0, 0.25), (0.1, 50.0), (0.2, 0.3)], [(0, 50.0), (0.1, 0.2), (0.2, 50.0), (0.3, 0.1)],
                      [(0, 0.5), (0.6, 50.0), (0.7, 0.1)]):
            n += 1
            p = overlapping(tmo, calls)
            if p:
                return n, dict(problem=p)
    # deadlines that are not whole milliseconds, or whose float product with 1000 is not exact: the deadline is the number given
    for duration, tmo in ((0.0002, 0.0005), (2.0095, 2.01), (5.0, 2.01), (1.0, 0.0625), (0.06225, 0.0625), (1.0015, 1.002),
                          (7.0, 1.001), (0.25, 1e-9)):
        for outcome in ("value", "exc"):
            n += 1
            p = run_case(duration, outcome, tmo, None)
            if p:
                return n, dict(duration=duration, outcome=outcome, timeout=tmo, cancel_at=None, problem=p)
    for outcome in OUTCOMES:
        for duration in (0.0, 0.5, 1.0, 2.0):
            for tmo in (0, 0.0, 0.5, 1.0, 3.0):
                for cancel_at in (None, 0.0, 0.25, 0.75, 1.5, 9.0, "with-completion", "turns:0", "turns:1", "turns:2", "turns:3"):
                    n += 1
                    p = run_case(duration, outcome, tmo, cancel_at)
                    if p:
                        return n, dict(duration=duration, outcome=outcome, timeout=tmo, cancel_at=cancel_at, problem=p)
    return n, None


def main():
    sys.stdin.read()
    n, fail = search()
    if not fail:
        from mimic_frame import own_state_problems
        from haiway import timeout as _timeout
        n += 1
        p = own_state_problems(lambda f: _timeout(5)(f), True, "timeout")
        fail = dict(problem=p) if p else None
    if fail:
        print(json.dumps(dict(reproduced=True, detail=fail, cases_tried=n)))
    else:
        print(json.dumps(dict(reproduced=False, cases_tried=n, detail="statement held on every enumerated case")))


if __name__ == "__main__":
    main()
