"""Native replay for C18: transparency of asynchronous / wrap_async / traced, caller context carried
into the executor, metadata kept by all seven decorators."""
import asyncio
import contextvars
import json
import logging
import sys
import threading
from concurrent.futures import ThreadPoolExecutor
logging.disable(logging.CRITICAL)

from haiway import State, asynchronous, cache, ctx, retry, throttle, timeout, traced, wrap_async
from haiway.context.metrics import MetricsContext
from haiway.helpers.tracing import ArgumentsTrace, ResultTrace


class Cfg(State):
    v: int = 0


class Boom(Exception):
    pass


probe = contextvars.ContextVar("probe", default="unset")


def problems():
    out = []
    boom = Boom("x")
    main_thread = threading.get_ident()

    def work(a, b=2, *rest, key="k", **kw):
        """work doc"""
        seen = dict(thread=threading.get_ident(), cfg=ctx.state(Cfg).v, probe=probe.get())
        probe.set("changed-inside")
        if a == "raise":
            raise boom
        return (a, b, rest, key, kw, seen)

    class Svc:
        def __init__(self, tag):
            self.tag = tag

        @asynchronous
        def m(self, a, *, key="k"):
            """m doc"""
            if a == "raise":
                raise boom
            return (self.tag, a, key, ctx.state(Cfg).v, threading.get_ident())

    async def main():
        pool = ThreadPoolExecutor(max_workers=1)
        for name, deco in (("default", asynchronous), ("explicit", asynchronous(executor=pool))):
            f = deco(work)
            async with ctx.scope("s", Cfg(v=7)):
                probe.set("caller")
                r = await f(1, 3, 4, key="z", extra=5)
                if r[:5] != (1, 3, (4,), "z", {"extra": 5}):
                    out.append(f"asynchronous({name}): arguments/result changed: {r[:5]}")
                if r[5]["thread"] == main_thread:
                    out.append(f"asynchronous({name}): ran on the event-loop thread")
                if r[5]["cfg"] != 7 or r[5]["probe"] != "caller":
                    out.append(f"asynchronous({name}): the function did not see the caller's context: {r[5]}")
                if probe.get() != "caller":
                    out.append(f"asynchronous({name}): a context change made inside leaked back to the caller")
                try:
                    await f("raise")
                    out.append(f"asynchronous({name}): exception swallowed")
                except Boom as e:
                    if e is not boom:
                        out.append(f"asynchronous({name}): a different exception object was raised")
                s = Svc("t")
                try:
                    r = await s.m(1, key="q")
                    if r[:4] != ("t", 1, "q", 7) or r[4] == main_thread:
                        out.append(f"asynchronous method: {r}")
                except Exception as e:  # noqa
                    out.append(f"asynchronous method raised {e!r} (caller context not carried?)")
                keys_before = set(vars(s))
                await s.m(1)
                if set(vars(s)) != keys_before:
                    out.append(f"calling an asynchronous method planted {set(vars(s)) - keys_before} in the instance")
                import copy as _copy
                twin = _copy.copy(s)
                twin.tag = "twin"
                try:
                    r = await twin.m(1)
                    if r[0] != "twin":
                        out.append(f"a copy of an instance whose asynchronous method was used runs the method on the original ({r[0]!r})")
                except Exception as e:  # noqa
                    out.append(f"asynchronous method on a copied instance raised {e!r}")
                try:
                    r = await Svc.m(s, 1, key="q")          # the same method reached through the class
                    if r[:4] != ("t", 1, "q", 7):
                        out.append(f"asynchronous method called through the class: {r}")
                except Exception as e:  # noqa
                    out.append(f"asynchronous method called through the class (Svc.m(obj, 1, key='q')) raised {e!r}")
                try:
                    await s.m("raise")
                    out.append("asynchronous method: exception swallowed")
                except Boom as e:
                    if e is not boom:
                        out.append("asynchronous method: different exception object")
        # results of arbitrary type are handed back as they are - also objects that happen to be awaitable
        done_fut = asyncio.get_running_loop().create_future()
        done_fut.set_result("payload")
        failed_fut = asyncio.get_running_loop().create_future()
        failed_fut.set_exception(ValueError("inner failure"))

        async def never_run():
            out.append("a coroutine object returned as a *result* was run by the wrapper")
        coro_obj = never_run()
        for label, deco in (("wrap_async", wrap_async), ("asynchronous", asynchronous), ("traced", traced)):
            for what, obj in (("a completed Future", done_fut), ("a failed Future", failed_fut), ("a coroutine object", coro_obj),
                              ("a list", [1]), ("None", None)):
                def give(o=obj):
                    return o
                try:
                    async with ctx.scope("r"):
                        v = deco(give)()
                        v = await v if label != "traced" else v
                    if v is not obj:
                        out.append(f"{label}: a function returning {what} - the caller received {v!r} instead of that object")
                except Exception as e:  # noqa
                    out.append(f"{label}: a function returning {what} - the call raised {e!r}")
        failed_fut.exception()
        coro_obj.close()
        # every keyword name is the caller's to choose: none may collide with a wrapper's own parameter
        KEYWORDS = ["cls", "instance", "function", "owner", "args", "kwargs", "executor", "loop", "context", "func", "method",
                    "obj", "wrapped", "result", "value", "key", "name", "label", "limit", "timeout", "other"]

        def anykw(*a, **kw):
            return (a, kw)

        class KwSvc:
            @asynchronous
            def m(self, *a, **kw):
                return (a, kw)

        async def a_anykw(*a, **kw):
            return (a, kw)
        af, ksvc, tf, taf, wf = asynchronous(anykw), KwSvc(), traced(anykw), traced(a_anykw), wrap_async(anykw)
        async with ctx.scope("kw"):
            for k in KEYWORDS:
                for label, call in (("asynchronous function", lambda: af(1, **{k: 2})), ("asynchronous method", lambda: ksvc.m(1, **{k: 2})),
                                    ("traced", lambda: tf(1, **{k: 2})), ("traced async", lambda: taf(1, **{k: 2})),
                                    ("wrap_async", lambda: wf(1, **{k: 2}))):
                    try:
                        r = call()
                        if hasattr(r, "__await__"):
                            r = await r
                        if r != ((1,), {k: 2}):
                            out.append(f"{label}: called with keyword {k!r} the function received {r}")
                    except Exception as e:  # noqa
                        out.append(f"{label}: a call with the keyword argument {k!r} raised {e!r}")
                if out:
                    break
        # the loop keeps serving other tasks while the function blocks
        ev = threading.Event()
        ticks = []

        @asynchronous
        def blocker():
            ev.wait(2)
            return "done"

        async def ticker():
            for _ in range(3):
                await asyncio.sleep(0)
                ticks.append(1)
            ev.set()
        async with ctx.scope("s2"):
            r, _ = await asyncio.gather(blocker(), ticker())
            if r != "done" or len(ticks) != 3:
                out.append("the event loop did not keep serving tasks while the function blocked")
        # wrap_async
        wa = wrap_async(lambda a, b=1: (a, b))
        if await wa(1, b=2) != (1, 2):
            out.append("wrap_async changed arguments/result")

        def raising():
            raise boom
        try:
            await wrap_async(raising)()
            out.append("wrap_async swallowed the exception")
        except Boom as e:
            if e is not boom:
                out.append("wrap_async raised a different exception object")

        async def already():
            return 1
        if wrap_async(already) is not already:
            out.append("wrap_async re-wrapped an async function")
        # traced
        seen = []

        def completion(metrics):
            seen.append(metrics)

        @traced
        def t_sync(a, b=2, **kw):
            """t doc"""
            if a == "raise":
                raise boom
            return (a, b, kw)

        @traced
        async def t_async(a, **kw):
            if a == "raise":
                raise boom
            return (a, kw)
        async with ctx.scope("outer", completion=completion):
            for call, want in ((lambda: t_sync(1, b=3, x=4), (1, 3, {"x": 4})),):
                try:
                    if call() != want:
                        out.append("traced changed the result")
                except Exception as e:  # noqa
                    out.append(f"traced call with keyword arguments raised {e!r}")
            try:
                if await t_async(1, y=2) != (1, {"y": 2}):
                    out.append("traced (async) changed the result")
            except Exception as e:  # noqa
                out.append(f"traced async call raised {e!r}")
            for fn in (lambda: t_sync("raise"), None):
                try:
                    if fn is None:
                        await t_async("raise")
                    else:
                        fn()
                    out.append("traced swallowed the exception")
                except Boom as e:
                    if e is not boom:
                        out.append("traced raised a different exception object")
                except Exception as e:  # noqa
                    out.append(f"traced raised {e!r} instead of the function's exception")
            top = MetricsContext._context.get()
            names = [n.label for n in top._nested]
            if names.count("t_sync") != 2 or names.count("t_async") != 2:
                out.append(f"traced scopes are not named after the function exactly once per call: {names}")
            for n in top._nested:
                a, r = n.read(ArgumentsTrace), n.read(ResultTrace)
                if a is None or r is None:
                    out.append(f"traced scope {n.label} did not record arguments and outcome")
        # metadata
        def base(a: int = 1) -> int:
            """base doc"""
            return a

        async def abase(a: int = 1) -> int:
            """abase doc"""
            return a
        for name, w, o in (("asynchronous", asynchronous(base), base), ("wrap_async", wrap_async(base), base),
                           ("traced", traced(base), base), ("traced-async", traced(abase), abase),
                           ("cache", cache(base), base), ("cache-async", cache(abase), abase),
                           ("retry", retry(base), base), ("retry-async", retry(abase), abase),
                           ("throttle", throttle(abase), abase), ("timeout", timeout(1)(abase), abase)):
            if getattr(w, "__name__", None) != o.__name__ or getattr(w, "__doc__", None) != o.__doc__ \
                    or getattr(w, "__wrapped__", None) is not o:
                out.append(f"{name}: wrapper does not keep name / docstring / __wrapped__ of the original")
        # stacked decorators: each layer refers to the callable it directly wraps and goes *through* it
        a_decos = [("traced", traced), ("cache", cache(limit=4)), ("retry", retry(limit=1)), ("throttle", throttle(limit=50, period=0.001)),
                   ("timeout", timeout(5))]
        s_decos = [("traced", traced), ("cache", cache(limit=4)), ("retry", retry(limit=1))]
        for inner_name, inner in a_decos:
            for outer_name, outer in a_decos:
                # cache / throttle / timeout return wrapper *objects*; the other decorators accept only coroutine functions
                # (asyncio.iscoroutinefunction is False for such objects): those stacks are outside the helpers' domain
                if inner_name in ("cache", "throttle", "timeout") and outer_name != "timeout":
                    continue
                calls = []

                async def counted(a: int = 1) -> int:
                    """counted doc"""
                    calls.append(a)
                    return a
                layer1 = inner(counted)
                layer2 = outer(layer1)
                tag = f"{outer_name}({inner_name}(f))"
                if getattr(layer2, "__wrapped__", None) is not layer1 or getattr(layer1, "__wrapped__", None) is not counted:
                    out.append(f"{tag}: __wrapped__ does not refer to the callable each layer directly wraps")
                if layer2.__name__ != "counted" or layer2.__doc__ != "counted doc":
                    out.append(f"{tag}: name / docstring of the original lost")
                try:
                    async with ctx.scope("stack"):
                        r = [await layer2(7), await layer2(7)]
                except Exception as e:  # noqa
                    out.append(f"{tag}: calling through both layers raised {e!r}")
                    continue
                want_calls = 1 if "cache" in (inner_name, outer_name) else 2
                if r != [7, 7] or len(calls) != want_calls:
                    out.append(f"{tag}: results {r}, the original ran {len(calls)}x (expected {want_calls}x: a layer was bypassed "
                               f"or its configuration overwritten)")
        for inner_name, inner in s_decos:
            for outer_name, outer in s_decos + [("asynchronous", asynchronous), ("wrap_async", wrap_async)]:
                if inner_name == "traced" and outer_name == "asynchronous":
                    continue     # opening a scope needs the event loop of the calling thread: not promised off the loop thread
                calls = []

                def scounted(a: int = 1) -> int:
                    """scounted doc"""
                    calls.append(a)
                    return a
                layer1 = inner(scounted)
                layer2 = outer(layer1)
                tag = f"{outer_name}({inner_name}(f)) [sync]"
                if getattr(layer2, "__wrapped__", None) is not layer1:
                    out.append(f"{tag}: __wrapped__ does not refer to the callable it directly wraps")
                try:
                    async with ctx.scope("stack"):
                        r = []
                        for _ in range(2):
                            v = layer2(7)
                            r.append(await v if hasattr(v, "__await__") else v)
                except Exception as e:  # noqa
                    out.append(f"{tag}: calling through both layers raised {e!r}")
                    continue
                want_calls = 1 if "cache" in (inner_name, outer_name) else 2
                if r != [7, 7] or len(calls) != want_calls:
                    out.append(f"{tag}: results {r}, the original ran {len(calls)}x (expected {want_calls}x)")
        pool.shutdown(wait=False)

    asyncio.run(main())
    out.extend(reused_wrappers())
    out.extend(traced_outcomes())
    out.extend(chained_exceptions())
    out.extend(traced_after_the_scope_was_left())
    return out


def traced_outcomes():
    """traced records the outcome - whatever the result is: falsy values are results too, and a result is never inspected
    (an object whose truth value is undefined, like an array, must come back untouched)."""
    out = []
    if not __debug__:
        return out

    class Ambiguous:
        def __bool__(self):
            raise ValueError("the truth value of this result is ambiguous")

        __len__ = __bool__
    values = [0, 0.0, "", (), [], {}, False, None, Ambiguous(), 7, "text"]

    async def prog():
        for i, value in enumerate(values):
            for is_async in (False, True):
                if is_async:
                    @traced
                    async def produce(tag):
                        return value
                else:
                    @traced
                    def produce(tag):
                        return value
                kept = []
                label = f"traced({'async' if is_async else 'sync'}) returning {type(value).__name__} #{i}"
                try:
                    async with ctx.scope("root", completion=kept.append):
                        got = produce(i)
                        got = await got if is_async else got
                except BaseException as e:  # noqa
                    out.append(f"{label}: the function returned normally but the traced call raised {e!r}")
                    continue
                await asyncio.sleep(0)
                if got is not value:
                    out.append(f"{label}: the caller received {got!r}")
                nested = [n for n in kept[0]._nested if n.label == "produce"] if kept else []
                rec = nested[0].read(ResultTrace) if nested else None
                if rec is None or rec.result is not value:
                    out.append(f"{label}: the recorded outcome is {getattr(rec, 'result', rec)!r}, not the result itself")
    asyncio.run(prog())

    async def spawning():
        # transparency towards ctx.spawn: what a traced coroutine spawns belongs to the caller's scope, as without `traced`
        for label, deco in (("plain", lambda f: f), ("traced", traced)):
            gate = asyncio.Event()
            order = []

            @deco
            async def launch():
                async def worker():
                    await gate.wait()
                    order.append("worker done")
                return ctx.spawn(worker)
            async with ctx.scope("caller"):
                try:
                    handle = await asyncio.wait_for(launch(), 0.5)
                except BaseException as e:  # noqa
                    out.append(f"{label} coroutine that spawns a task and returns its handle: the call ended with {e!r} "
                               f"(it waited for the task it spawned)")
                    gate.set()
                    continue
                order.append("call returned")
                gate.set()
                await handle
            if order != ["call returned", "worker done"]:
                out.append(f"{label} coroutine that spawns a task: order {order}")
    asyncio.run(spawning())
    return out[:3]


def traced_after_the_scope_was_left():
    """"called from arbitrary scope nestings": also from a task that was started inside a scope and outlives it (a plain asyncio
    task, the function task of `timeout`, the shared invocation of the async cache) - the scope it inherited is completed by
    then; traced / wrap_async / asynchronous still give the function's own result and exception."""
    out = []
    if not __debug__:
        return out

    class Boom3(Exception):
        pass
    boom = Boom3("late")

    @traced
    def sync_value(a):
        return a * 2

    @traced
    async def async_value(a):
        return a + 1

    @traced
    async def async_fails(a):
        raise boom

    async def prog():
        gate = asyncio.Event()
        got = {}

        async def late():
            await gate.wait()
            for name, call in (("traced sync", lambda: sync_value(4)), ("traced async", lambda: async_value(4)),
                               ("traced async raising", lambda: async_fails(4)), ("wrap_async", lambda: wrap_async(lambda a: a * 3)(4)),
                               ("asynchronous", lambda: asynchronous(lambda a: a * 5)(4))):
                try:
                    r = call()
                    if asyncio.iscoroutine(r) or asyncio.isfuture(r):
                        r = await r
                    got[name] = ("ret", r)
                except BaseException as e:  # noqa
                    got[name] = ("exc", e)
        async with ctx.scope("origin"):
            t = asyncio.ensure_future(late())
            await asyncio.sleep(0)
        for _ in range(3):
            await asyncio.sleep(0)
        gate.set()
        await t
        want = {"traced sync": ("ret", 8), "traced async": ("ret", 5), "traced async raising": ("exc", boom),
                "wrap_async": ("ret", 12), "asynchronous": ("ret", 20)}
        for name, w in want.items():
            g = got.get(name)
            if g is None or g[0] != w[0] or (g[1] is not w[1] if w[0] == "exc" else g[1] != w[1]):
                out.append(f"{name} called from a task that outlived the scope it was started in: outcome {g!r}, the function's own is {w!r}")
    asyncio.run(prog())
    return out


def chained_exceptions():
    """An exception that passes through traced / wrap_async / asynchronous reaches the caller as the function left it: the
    same object, with its explicit cause (`raise X from Y`), its implicit context (raised while handling Y) and its
    __suppress_context__ flag - compared with the same function called undecorated."""
    out = []
    root = KeyError("root cause")

    def chain_of(e):
        return (type(e), e.args, e.__cause__, e.__context__, e.__suppress_context__)

    def sync_from(tag):
        raise ValueError(tag) from root

    def sync_during(tag):
        try:
            raise root
        except KeyError:
            raise ValueError(tag)  # noqa: B904

    def sync_plain(tag):
        raise ValueError(tag)

    async def async_from(tag):
        raise ValueError(tag) from root

    async def async_during(tag):
        try:
            raise root
        except KeyError:
            raise ValueError(tag)  # noqa: B904

    async def prog():
        decorators = [("wrap_async", wrap_async, False), ("asynchronous", asynchronous, False)]
        if __debug__:
            decorators += [("traced", traced, None)]
        for f in (sync_from, sync_during, sync_plain, async_from, async_during):
            is_async = asyncio.iscoroutinefunction(f)
            try:
                r = f("x")
                if is_async:
                    await r
            except ValueError as e:
                want = chain_of(e)
            for name, deco, for_async in decorators:
                if for_async is not None and for_async != is_async:
                    continue
                wrapped = deco(f)
                for where in ("outside any scope", "inside a scope"):
                    try:
                        if where == "inside a scope":
                            async with ctx.scope("root"):
                                r = wrapped("x")
                                if asyncio.iscoroutine(r) or asyncio.isfuture(r):
                                    await r
                        else:
                            r = wrapped("x")
                            if asyncio.iscoroutine(r) or asyncio.isfuture(r):
                                await r
                        out.append(f"{name}({f.__name__}) {where}: the function raised but the call returned")
                    except ValueError as e:
                        got = chain_of(e)
                        if got != want:
                            out.append(f"{name}({f.__name__}) {where}: the exception reaches the caller with (class, args, "
                                       f"__cause__, __context__, __suppress_context__) = {got!r}, the function raised it with {want!r}")
                    except BaseException as e:  # noqa
                        out.append(f"{name}({f.__name__}) {where}: the call ended with {e!r}, not the function's exception")
    asyncio.run(prog())
    return out


def reused_wrappers():
    """One wrapper object serves every call: from several tasks at once and from one event loop after another (a decorated
    module-level function outlives any single `asyncio.run`)."""
    out = []

    @asynchronous
    def double(x):
        return (x * 2, threading.get_ident())

    class Box:
        def __init__(self, tag):
            self.tag = tag

        @asynchronous
        def get(self, x):
            return (self.tag, x)

    @traced
    async def traced_double(x):
        return x * 2

    wrapped = wrap_async(lambda x: x + 1)
    box = Box("b")

    async def round_(label):
        loop_thread = threading.get_ident()
        try:
            async with ctx.scope(label):
                rs = await asyncio.gather(*[double(i) for i in range(3)], box.get(5), wrapped(1), traced_double(4))
        except BaseException as e:  # noqa
            out.append(f"reused wrappers, {label}: calls raised {e!r}")
            return
        if [r[0] for r in rs[:3]] != [0, 2, 4] or any(r[1] == loop_thread for r in rs[:3]):
            out.append(f"reused wrappers, {label}: concurrent calls through one @asynchronous wrapper gave {rs[:3]}")
        if rs[3:] != [("b", 5), 2, 8]:
            out.append(f"reused wrappers, {label}: {rs[3:]}")
    for label in ("first event loop", "second event loop", "third event loop"):
        try:
            asyncio.run(round_(label))
        except BaseException as e:  # noqa
            out.append(f"reused wrappers, {label}: {e!r}")
    return out


def main():
    sys.stdin.read()
    p = problems()
    if not p:
        from mimic_frame import own_state_problems
        from haiway import asynchronous as _asynchronous
        from haiway.utils.mimic import mimic_function as _mimic

        class _Holder:          # a wrapper object with falsy and truthy state of its own, as the helper decorators have
            def __init__(self, f):
                self._function = f
                self._entries = []
                self._count = 0
                self._flag = False
                self._label = ""
                self._limit = 3
                _mimic(f, within=self)

            def __call__(self, *args, **kwargs):
                return self._function(*args, **kwargs)
        q = own_state_problems(lambda f: _asynchronous(f), False, "asynchronous") \
            or own_state_problems(_Holder, False, "mimic_function(within=object)")
        p = [q] if q else p
    if p:
        print(json.dumps(dict(reproduced=True, detail=dict(problems=p[:5]), cases_tried=1)))
    else:
        print(json.dumps(dict(reproduced=False, cases_tried=1, detail="statement held natively")))


if __name__ == "__main__":
    main()
