"""Native replay for C07: a cancellation delivered while entering / inside / leaving scopes ends
the task cancelled; check_cancellation raises exactly after a cancellation request."""
import asyncio
from scope_native import main
from haiway import ctx


def check_check_cancellation():
    shared = []

    async def prog():
        out = shared
        try:
            ctx.check_cancellation()
        except asyncio.CancelledError:
            out.append("check_cancellation raised without any cancellation request")
        # "does not raise otherwise": somebody else's cancellation is not a request to this task - inside the handler of
        # a cancelled child (awaited task, spawned task of a scope, timed-out wait), after it, and in a finally block
        for where in ("an awaited child task that was cancelled", "a task spawned into the scope and then cancelled",
                      "a wait that timed out"):
            async def forever():
                await asyncio.Event().wait()
            async with ctx.scope("observer"):
                if where.startswith("an awaited"):
                    child = asyncio.ensure_future(forever())
                elif where.startswith("a task spawned"):
                    child = ctx.spawn(forever)
                else:
                    child = None
                await asyncio.sleep(0)
                try:
                    if child is None:
                        await asyncio.wait_for(forever(), 0.01)
                    else:
                        child.cancel()
                        await child
                except (asyncio.CancelledError, TimeoutError):
                    if asyncio.current_task().cancelling() == 0:
                        try:
                            ctx.check_cancellation()
                        except asyncio.CancelledError:
                            out.append(f"check_cancellation raised inside the handler of {where} although nobody asked "
                                       "this task to cancel (Task.cancelling() == 0)")
                        finally:
                            try:
                                ctx.check_cancellation()
                            except asyncio.CancelledError:
                                out.append(f"check_cancellation raised in a finally block while handling {where} although "
                                           "nobody asked this task to cancel")
                try:
                    ctx.check_cancellation()
                except asyncio.CancelledError:
                    out.append(f"check_cancellation raised after {where} was handled although nobody asked this task to cancel")
        try:
            raise KeyError("unrelated")
        except KeyError:
            try:
                ctx.check_cancellation()
            except asyncio.CancelledError:
                out.append("check_cancellation raised inside the handler of an unrelated exception")
        asyncio.current_task().cancel()
        try:
            ctx.check_cancellation()
            out.append("check_cancellation did not raise after the task was asked to cancel (asyncio)")
        except asyncio.CancelledError:
            pass
        asyncio.current_task().uncancel()
        ctx.cancel()
        try:
            ctx.check_cancellation()
            out.append("check_cancellation did not raise after ctx.cancel()")
        except asyncio.CancelledError:
            pass
        asyncio.current_task().uncancel()
        return out

    async def runner():
        t = asyncio.ensure_future(prog2())
        try:
            await t
        except asyncio.CancelledError:
            pass
        return collected

    collected = []

    async def prog2():
        try:
            collected.extend(await prog())
        except asyncio.CancelledError:
            raise
    # prog() appends to its own list; make it visible even when the task ends cancelled
    asyncio.run(_run_collect(prog))
    return shared


async def _run_collect(prog):
    out = []

    async def wrapper():
        gen = prog()
        try:
            out.extend(await gen)
        except asyncio.CancelledError:
            pass
    t = asyncio.ensure_future(wrapper())
    try:
        await t
    except asyncio.CancelledError:
        pass
    return out


_first = []


def check(sc, obs):
    if not _first:
        _first.append(1)
        p = check_check_cancellation()
        if p:
            return "; ".join(p)
    if "hang" in obs:
        return f"hang: {obs['hang']}"
    if obs.get("self_cancelled") is not None and obs.get("task_end") != "cancelled" \
            and not any(x.endswith("fail") for _, x in sc["disps"]):
        return (f"the task asked for its own cancellation as the last statement of the scope body but ended {obs.get('task_end')!r} "
                f"(block outcome {obs.get('outcome')!r})")
    # "unless cleanup itself fails" (C02): a cleanup error legitimately replaces a cancellation that the *body* received (or
    # one received while entering).  A cancellation delivered later - while the cleanups themselves are running or the scope
    # waits for its tasks - is not a body outcome that cleanup may replace: the task must end cancelled.
    exit_fails = any(x.endswith("fail") for _, x in sc["disps"])
    enter_fails = any(e.endswith("fail") for e, _ in sc["disps"])
    during_exit = obs.get("body_end_time") is not None and sc["cancel_at"] is not None and sc["cancel_at"] > obs["body_end_time"] \
        and obs.get("body_raised") is None
    user_cleanup_fails = enter_fails or (exit_fails and not during_exit)
    if obs.get("cancel_delivered") and obs.get("task_end") != "cancelled" and not user_cleanup_fails:
        return (f"a cancellation was delivered at t={sc['cancel_at']} but the task ended {obs.get('task_end')!r} "
                f"(block outcome {obs.get('outcome')!r})")
    if obs.get("cancel_delivered") and obs.get("task_end") == "cancelled" and not user_cleanup_fails \
            and (any(k in ("block", "respawn") for k in sc["spawned"]) or any(e == "spawner" for e, _ in sc["disps"])) \
            and obs.get("task_end_time", 0) - sc["cancel_at"] > 3.0:
        # every spawned task of the family ends at once when cancelled and no disposable step takes longer than 1s:
        # a victim that only ends much later was waiting for spawned tasks to run to completion
        return (f"cancelled at t={sc['cancel_at']} the task only ended at t={obs.get('task_end_time')}: the tasks it spawned in "
                f"the scope were awaited to completion instead of being cancelled too")
    if obs.get("cancel_delivered") and obs.get("leaked"):
        return "the task was cancelled but tasks it spawned in the scope kept running"
    return None


if __name__ == "__main__":
    main(check)
