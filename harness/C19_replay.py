"""Native replay for C19: scope trees with optional logger / trace id per node, log calls of every
level with %-style arguments at every position, arbitrary scope names (incl. formatting chars)."""
import itertools
import json
import logging
import os
import random
import sys

from haiway import ctx

logging.raiseExceptions = True


class Capture(logging.Handler):
    def __init__(self, sink, name):
        super().__init__(level=0)
        self.sink, self.lname = sink, name

    def emit(self, record):
        try:
            text = record.getMessage()
        except Exception as e:  # noqa
            self.sink.append((self.lname, record.levelno, None, f"LOST: {e!r}"))
            return
        self.sink.append((self.lname, record.levelno, text, None))

    def handleError(self, record):
        self.sink.append((self.lname, record.levelno, None, "LOST"))


NAMES = ["svc", "", "100%d", "a%sb", "50%", "%(x)s", "plain name"]
LEVELS = [("log_error", 40), ("log_warning", 30), ("log_info", 20), ("log_debug", 10)]


def run_tree(rng):
    sink, problems = [], []
    made = {}

    def logger(name):
        if name == "":
            return logging.getLogger()          # the logger named "" is the root logger
        if name not in made:
            lg = logging.getLogger(name)
            lg.handlers = [Capture(sink, name)]
            lg.setLevel(0)
            lg.propagate = False
            made[name] = lg
        return made[name]
    root = logging.getLogger()
    root.handlers = [Capture(sink, "<root>")]
    root.setLevel(0)
    counter = itertools.count()

    def emit_and_check(expect_logger, expect_trace, scope_name):
        fn, lvl = rng.choice(LEVELS)
        k = next(counter)
        msg, args, want = rng.choice([("plain %d" % k, (), "plain %d" % k), ("value %s #" + str(k), ("x",), "value x #" + str(k)),
                                     ("%d%% done " + str(k), (5,), "5% done " + str(k)), ("pct 100%% " + str(k), (), "pct 100%% " + str(k))])
        before = len(sink)
        try:
            getattr(ctx, fn)(msg, *args)
        except Exception as e:  # noqa
            problems.append(f"ctx.{fn}({msg!r}, *{args}) raised {e!r} in scope {scope_name!r}")
            return
        new = sink[before:]
        hits = [r for r in new if r[2] is not None and want in r[2]]
        if not hits:
            problems.append(f"line {want!r} logged in scope {scope_name!r} was lost (records: {new})")
            return
        lname, level, text, _ = hits[0]
        if lname != expect_logger:
            problems.append(f"line went to logger {lname!r}, expected {expect_logger!r}")
        if level != lvl:
            problems.append(f"line emitted at level {level}, requested {lvl}")
        if expect_trace is None:
            if text != want:
                problems.append(f"outside any scope the line must be untagged, got {text!r}")
        else:
            if f"[{expect_trace}]" not in text or (scope_name and f"[{scope_name}]" not in text):
                problems.append(f"line {text!r} is not tagged with trace id {expect_trace!r} and scope name {scope_name!r}")

    emit_and_check("<root>", None, None)

    def walk(depth, cur_logger, cur_trace):
        name = rng.choice(NAMES)
        own_logger = rng.choice([None, f"L{next(counter)}"])
        own_trace = rng.choice([None, f"T{next(counter)}", f"req%20{next(counter)}", f"%s{next(counter)}%"])
        lg = logger(own_logger) if own_logger else None
        with ctx.scope(name, logger=lg, trace_id=own_trace):
            from haiway.context.metrics import MetricsContext
            m = MetricsContext._context.get()
            eff_logger = own_logger or cur_logger or (name if name else "<root>")
            if own_logger is None and cur_logger is None:
                logger(name)          # outermost without logger: named after the scope
            if own_trace is not None:
                eff_trace = own_trace
            elif cur_trace is not None:
                eff_trace = cur_trace
            else:
                eff_trace = m.trace_id
                if not isinstance(eff_trace, str) or len(eff_trace) < 8:
                    problems.append(f"outermost scope without trace id got {eff_trace!r}")
            if m.trace_id != eff_trace:
                problems.append(f"scope {name!r}: trace id {m.trace_id!r}, expected {eff_trace!r} (own={own_trace}, enclosing={cur_trace})")
            if f"[{m.identifier}]" not in m._logger_prefix:
                problems.append("identifier missing from the tag")
            emit_and_check(eff_logger, eff_trace, name)
            if depth > 0 and not problems:
                for _ in range(rng.randint(0, 2)):
                    walk(depth - 1, eff_logger, eff_trace)
                    emit_and_check(eff_logger, eff_trace, name)
    # loggers named after scopes must exist with a capture handler before the scope is created
    for n in NAMES:
        logger(n)
    walk(2, None, None)
    emit_and_check("<root>", None, None)
    return problems


def spawned_tasks():
    """"... in the creating task and in spawned tasks": a task logs through the scope that was current where it was started
    (ctx.spawn into the scope's group - several spawns of one group from different scope levels - and plain asyncio tasks,
    which inherit the context), also after that scope was left, and whatever its siblings enter meanwhile."""
    import asyncio
    sink, problems = [], []

    def logger(name):
        lg = logging.getLogger(name)
        lg.handlers = [Capture(sink, name)]
        lg.setLevel(0)
        lg.propagate = False
        return lg
    root = logging.getLogger()
    root.handlers = [Capture(sink, "<root>")]
    root.setLevel(0)
    expected = {}

    async def say(tag, gate=None, inside=None):
        if gate is not None:
            await gate.wait()
        if inside is not None:                  # a sibling that sits in a scope of its own while others log
            with ctx.scope("private", logger=logger("private"), trace_id="T-private"):
                inside.set()
                await asyncio.sleep(0)
                await asyncio.sleep(0)
        ctx.log_info("line %s", tag)

    async def main():
        late = asyncio.Event()
        sibling_in = asyncio.Event()
        tasks = []
        async with ctx.scope("outer", logger=logger("outer"), trace_id="T-outer"):
            expected["first"] = ("outer", "T-outer", "outer")
            tasks.append(ctx.spawn(say, "first"))
            expected["sitting"] = ("outer", "T-outer", "outer")
            tasks.append(ctx.spawn(say, "sitting", None, sibling_in))
            with ctx.scope("inner", logger=logger("inner"), trace_id="T-inner"):
                expected["second"] = ("inner", "T-inner", "inner")
                tasks.append(ctx.spawn(say, "second"))
                expected["late"] = ("inner", "T-inner", "inner")
                tasks.append(ctx.spawn(say, "late", late))
                expected["plain"] = ("inner", "T-inner", "inner")
                tasks.append(asyncio.ensure_future(say("plain", late)))
                await asyncio.sleep(0)
            expected["third"] = ("outer", "T-outer", "outer")
            tasks.append(ctx.spawn(say, "third"))
            await sibling_in.wait()
            expected["while-sibling-inside"] = ("outer", "T-outer", "outer")
            tasks.append(ctx.spawn(say, "while-sibling-inside"))
            async with ctx.scope("nested-async", trace_id="T-nested"):
                expected["fourth"] = ("outer", "T-nested", "nested-async")
                tasks.append(ctx.spawn(say, "fourth"))
            late.set()
        await asyncio.gather(*tasks, return_exceptions=True)
    async def through_helpers():
        # the helper decorators run the function in tasks of their own (timeout) or share one invocation (cache): a line logged
        # by the function goes to the scope of *this* call's caller, on every call
        from haiway import timeout, retry

        @timeout(5)
        async def timed(tag):
            ctx.log_info("line %s", tag)

        @retry(limit=1)
        async def retried(tag):
            ctx.log_info("line %s", tag)
        for n in ("one", "two", "three"):
            async with ctx.scope(f"call-{n}", logger=logger(f"call-{n}"), trace_id=f"T-{n}"):
                expected[f"timed-{n}"] = (f"call-{n}", f"T-{n}", f"call-{n}")
                await timed(f"timed-{n}")
                expected[f"retried-{n}"] = (f"call-{n}", f"T-{n}", f"call-{n}")
                await retried(f"retried-{n}")
    try:
        asyncio.run(main())
        asyncio.run(through_helpers())
    except BaseException as e:  # noqa
        return [f"spawned-task logging program ended with {e!r}"]
    for tag, (lname, trace, scope) in expected.items():
        hits = [r for r in sink if r[2] is not None and r[2].endswith(f"line {tag}")]
        if len(hits) != 1:
            problems.append(f"the line logged by task {tag!r} was emitted {len(hits)} times")
            continue
        got_logger, _, text, _ = hits[0]
        if got_logger != lname or f"[{trace}]" not in text or f"[{scope}]" not in text:
            problems.append(f"task {tag!r} was started in scope {scope!r} (logger {lname!r}, trace {trace!r}) but its line went "
                            f"to logger {got_logger!r} as {text!r}")
    return problems


def main():
    sys.stdin.read()
    seed = int(os.environ.get("VERIF_SEED", "0") or 0)
    n, p = 0, None
    for k in range(int(os.environ.get("C19_TREES", "200"))):
        n += 1
        pr = run_tree(random.Random(seed * 7919 + k))
        if pr:
            p = pr[0]
            break
    if not p:
        # last: asyncio.run() leaves the main thread without an event loop, which the synchronous trees above need
        sp = spawned_tasks()
        n += 1
        if sp:
            print(json.dumps(dict(reproduced=True, detail=dict(problem=sp[0], scenario="spawned tasks"), cases_tried=n)))
            return
    if p:
        print(json.dumps(dict(reproduced=True, detail=dict(problem=p, seed=seed, tree=n), cases_tried=n)))
    else:
        print(json.dumps(dict(reproduced=False, cases_tried=n, detail="statement held on every generated tree")))


if __name__ == "__main__":
    main()
