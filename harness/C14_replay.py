"""Native replay for C14: evaluates the property statement literally on the real retry wrapper over
the neighbourhood of the solver's counter-model (all outcome sequences up to limit+2, limits 1..3,
every shape of `catching` and `delay`, sync and async).  Prints one JSON line."""
import asyncio
import itertools
import json
import sys
from asyncio import CancelledError

import logging
logging.disable(logging.CRITICAL)
import haiway.helpers.retries as R
from haiway import retry


class Caught(Exception):
    pass


class SubCaught(Caught):
    pass


class Uncaught(Exception):
    pass


class OtherCaught(Exception):      # listed in some caught-sets, never raised
    pass


class Base(BaseException):
    pass


KINDS = ["ok", "caught", "sub", "uncaught", "cancel", "base"]


def mk(kind, k):
    return {"caught": Caught, "sub": SubCaught, "uncaught": Uncaught, "cancel": CancelledError, "base": Base}[kind](k)


def expected(seq, limit):
    """Index of the call whose outcome must be delivered."""
    for k, kind in enumerate(seq):
        if kind == "ok" or kind in ("uncaught", "cancel", "base") or k == limit:
            return k
    return None


def run_case(seq, limit, catching, delay, is_async, prior=None, facade=None):
    """`prior`: outcome sequence of an earlier invocation of the *same* wrapper (the statement is per
    invocation, whatever happened before)."""
    sleeps = []
    excs = []
    calls = []
    measured = seq
    seq = list(prior) if prior is not None else measured

    def outcome():
        k = len(calls)
        calls.append(k)
        kind = seq[k] if k < len(seq) else "ok"
        if kind == "ok":
            return ("value", k)
        e = mk(kind, k)
        excs.append(e)
        raise e

    delay_log = []
    if delay == "fn":
        def dfn(attempt, exc):
            delay_log.append((attempt, exc))
            return 0.25 * attempt
        d = dfn
    else:
        d = delay

    R.sleep_sync = lambda x: sleeps.append(x)

    async def fake_sleep(x):
        sleeps.append(x)
    R.sleep = fake_sleep
    if is_async:
        if facade == "wrap_async":
            # what is retried is the callable handed to retry: an `async def` forwarder (haiway.wrap_async) around a plain function
            def plain(*a, **k):
                return outcome()
            from haiway import wrap_async
            fn = wrap_async(plain)
        elif facade == "wraps":
            async def inner(*a, **k):
                return outcome()

            def marker(*a, **k):         # an unrelated plain function whose metadata the coroutine function carries
                raise AssertionError("never called")
            import functools
            fn = functools.wraps(marker)(inner)
        else:
            async def fn(*a, **k):
                return outcome()
        wrapped = retry(limit=limit, delay=d, catching=catching)(fn)
        if prior is not None:
            try:
                asyncio.run(wrapped(1, x=2))
            except BaseException:  # noqa
                pass
            seq[:] = measured
            del sleeps[:], excs[:], calls[:], delay_log[:]
        try:
            res = ("ret", asyncio.run(wrapped(1, x=2)))
        except BaseException as e:  # noqa
            res = ("exc", e)
    else:
        def fn(*a, **k):
            return outcome()
        wrapped = retry(limit=limit, delay=d, catching=catching)(fn)
        if prior is not None:
            try:
                wrapped(1, x=2)
            except BaseException:  # noqa
                pass
            seq[:] = measured
            del sleeps[:], excs[:], calls[:], delay_log[:]
        try:
            res = ("ret", wrapped(1, x=2))
        except BaseException as e:  # noqa
            res = ("exc", e)
    idx = expected(seq, limit)
    problems = []
    if len(calls) != idx + 1:
        problems.append(f"made {len(calls)} calls, expected {idx + 1}")
    kind = seq[idx] if idx < len(seq) else "ok"
    if kind == "ok":
        if res != ("ret", ("value", idx)):
            problems.append(f"expected the value of call {idx}, got {res!r}")
    else:
        want = [e for e in excs if e.args == (idx,)]
        if res[0] != "exc" or not want or res[1] is not want[0]:
            problems.append(f"expected the exception object of call {idx} ({kind}), got {res!r}")
    n_pause = 0 if delay is None else idx
    if len(sleeps) != n_pause:
        problems.append(f"{len(sleeps)} pauses, expected {n_pause}")
    elif delay == "fn":
        if sleeps != [0.25 * (i + 1) for i in range(idx)] or [a for a, _ in delay_log] != list(range(1, idx + 1)) \
                or any(e is not excs[i] for i, (_, e) in enumerate(delay_log)):
            problems.append(f"pauses {sleeps} / delay calls do not match (attempt, exception)")
    elif delay is not None and any(s != delay for s in sleeps):
        problems.append(f"pauses {sleeps} differ from configured {delay}")
    return problems


def search():
    n = 0
    for limit in (1, 2):
        for seq in itertools.product(KINDS, repeat=limit + 1):
            for catching in (Caught, (Caught,), {Caught}, (Caught, OtherCaught), (OtherCaught, Caught), (Caught, SubCaught)):
                for delay in (None, 0, 1, 0.5, "fn"):
                    for is_async in (False, True):
                        for prior in ((None, ["caught"] * (limit + 1), ["caught", "cancel"], ["caught", "ok"]) if catching is Caught else (None,)):
                            n += 1
                            p = run_case(list(seq), limit, catching, delay, is_async, prior)
                            if p:
                                return n, dict(limit=limit, outcomes=list(seq), catching=repr(catching), delay=repr(delay),
                                               variant="async" if is_async else "sync", problems=p,
                                               earlier_invocation_of_the_same_wrapper=prior)
    # the callable kinds a retried function comes in: an async forwarder around a plain function, a coroutine function
    # carrying another function's metadata (__wrapped__ points at a function of the other kind)
    for facade in ("wrap_async", "wraps"):
        for limit in (1, 2):
            for seq in itertools.product(("ok", "caught", "uncaught"), repeat=limit + 1):
                for delay in (None, 0.5):
                    n += 1
                    p = run_case(list(seq), limit, Caught, delay, True, None, facade)
                    if p:
                        return n, dict(limit=limit, outcomes=list(seq), delay=repr(delay), variant=f"async ({facade})", problems=p)
    return n, None


def decorated_twice():
    """Each `retry(...)` application is a configuration of its own: the same function wrapped twice (different limits, caught
    sets, delays) gives two wrappers that each obey their own configuration - sync and async."""
    class Caught(Exception):
        pass
    pauses = []
    saved = (R.sleep, R.sleep_sync)

    async def fake_sleep(d):
        pauses.append(d)
    R.sleep, R.sleep_sync = fake_sleep, lambda d: pauses.append(d)
    try:
        for is_async in (False, True):
            calls = []
            if is_async:
                async def flaky(n):
                    calls.append(n)
                    if len(calls) <= n:
                        raise Caught(len(calls))
                    return ("ok", len(calls))
            else:
                def flaky(n):
                    calls.append(n)
                    if len(calls) <= n:
                        raise Caught(len(calls))
                    return ("ok", len(calls))
            first = retry(limit=1, catching=KeyError)(flaky)
            second = retry(limit=3, delay=0.25, catching=(Caught,))(flaky)
            for label, wrapper, fails, want_calls, want in (("limit=3, delay=0.25, catching=(Caught,)", second, 3, 4, ("ok", 4)),
                                                            ("limit=1, catching=KeyError", first, 1, 1, "Caught")):
                del calls[:]
                del pauses[:]
                try:
                    r = wrapper(fails)
                    if is_async:
                        r = asyncio.run(r)
                    got = r
                except Caught:
                    got = "Caught"
                if got != want or len(calls) != want_calls or (want != "Caught" and pauses != [0.25] * (want_calls - 1)):
                    return (f"{'async' if is_async else 'sync'} function wrapped twice; the wrapper made with retry({label}) on a function "
                            f"failing {fails} times: outcome {got!r} after {len(calls)} calls with pauses {pauses}; expected {want!r} "
                            f"after {want_calls} calls")
    finally:
        R.sleep, R.sleep_sync = saved
    return None


def main():
    record = json.loads(sys.stdin.read() or "{}")
    n, fail = search()
    if not fail:
        n += 1
        p = decorated_twice()
        fail = dict(problem=p) if p else None
    if fail:
        print(json.dumps(dict(reproduced=True, detail=fail, cases_tried=n)))
    else:
        print(json.dumps(dict(reproduced=False, cases_tried=n,
                              detail="statement held natively on every enumerated case around the model")))


if __name__ == "__main__":
    main()
