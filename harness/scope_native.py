"""Native scope scenarios (virtual time) shared by the C02 / C06 / C07 / C08 replays.

A scenario = disposables (enter/exit behaviours) x body outcome x spawned tasks x one external
cancellation delivered at a chosen virtual instant.  `run_scenario` returns an observation record;
the per-property replay scripts evaluate their statement on it."""
import asyncio
import itertools
import logging
import os
import sys
sys.path.insert(0, os.path.dirname(os.path.abspath(__file__)))
logging.disable(logging.CRITICAL)

from haiway import Disposables, State, ctx
from haiway.context.metrics import MetricsContext
from haiway.context.state import StateContext
from haiway.context.tasks import TaskGroupContext
from vloop import run, Hang

_NONE = object()


class A(State):
    v: int = 0


class Bst(State):
    v: int = 0


class BodyError(Exception):
    pass


class BodyBase(BaseException):
    pass


class DispError(Exception):
    pass


def context_now():
    return (StateContext._context.get(_NONE), MetricsContext._context.get(_NONE), TaskGroupContext._context.get(_NONE))


class Disp:
    def __init__(self, i, enter, exit_, log, spawner=None):
        self.i, self.enter, self.exit_, self.log, self.spawner = i, enter, exit_, log, spawner

    async def __aenter__(self):
        self.log.append(("enter-start", self.i))
        if self.enter == "leaky":              # a disposable that changes the context of whatever task runs its __aenter__
            ctx.updated(A(v=777)).__enter__()
            self.log.append(("entered", self.i))
            return None
        if self.enter == "spawner":            # a disposable that starts a background task of the scope while entering
            self.spawner()
            self.log.append(("entered", self.i))
            return None
        if self.enter.startswith("slow"):
            await asyncio.sleep(1.0)
        if self.enter.endswith("fail"):
            self.log.append(("enter-fail", self.i))
            raise DispError(("enter", self.i))
        self.log.append(("entered", self.i))
        return {"none": None, "state": A(v=10 + self.i), "states": [A(v=20 + self.i), Bst(v=self.i)]}[self.enter.replace("slow-", "")]

    async def __aexit__(self, et, ev, tb):
        self.log.append(("exit-start", self.i, et, ev))
        if self.exit_.startswith("slow"):
            try:
                await asyncio.sleep(1.0)
            except asyncio.CancelledError:
                self.log.append(("exit-interrupted", self.i))
                raise
        if self.exit_.endswith("fail"):
            raise DispError(("exit", self.i))
        self.log.append(("exited", self.i))
        if self.exit_ == "swallow":             # a resource that reports "handled" (returns True from __aexit__)
            return True
        return None


def run_scenario(disps, body, spawned, cancel_at, outer_state=True):
    """disps: list[(enter, exit)], body: 'return'|'raise'|'base'|'sleep', spawned: list['done'|'fail'|'block'],
    cancel_at: None | virtual instant at which the task running the block is cancelled."""
    obs = dict(log=[], tasks=[], inner_seen=None)

    async def main(loop):
        log = obs["log"]
        body_exc = BodyError("body") if body == "raise" else BodyBase("body") if body == "base" else None
        obs["body_exc"] = body_exc

        async def child(kind):
            try:
                if kind == "done":
                    await asyncio.sleep(0.2)
                elif kind == "fail":
                    await asyncio.sleep(0.2)
                    raise RuntimeError("child failed")
                else:
                    try:
                        await asyncio.sleep(1000)
                    except asyncio.CancelledError:
                        if kind == "failcancel":
                            raise RuntimeError("cleanup of a spawned task failed") from None    # fails only when it is cancelled
                        raise
            finally:
                log.append(("child-end", kind))
                if kind == "respawn":
                    # cleanup that spawns a follow-up task while the scope is being torn down: the group either
                    # takes it (and cancels it) or refuses it - it must never become a task outside the scope
                    try:
                        obs["tasks"].append(ctx.spawn(child, "block"))
                    except RuntimeError:
                        log.append(("respawn-refused",))

        async def block():
            obs["before"] = context_now()
            try:
                made = [Disp(i, e, x, log, lambda: obs["tasks"].append(ctx.spawn(child, "block"))) for i, (e, x) in enumerate(disps)]
                # `disposables` is "Disposables | Iterable[Disposable] | None": every kind of iterable, in turn
                how = (len(disps) * 3 + len(spawned) + (0 if cancel_at is None else 1)) % 6
                given = (made, tuple(made), (d for d in made), iter(made), {k: d for k, d in enumerate(made)}.values(),
                         Disposables(*made))[how]
                async with ctx.scope("inner", A(v=1), disposables=given):
                    log.append(("body-start",))
                    obs["inner_seen"] = (ctx.state(A).v, [d for d in ()])
                    try:
                        obs["inner_states"] = (ctx.state(A), ctx.state(Bst, default=Bst(v=-1)))
                    except Exception as e:  # noqa
                        obs["inner_states"] = e
                    for kind in spawned:
                        obs["tasks"].append(ctx.spawn(child, kind))
                    try:
                        if body == "sleep":
                            await asyncio.sleep(5.0)
                        elif body_exc is not None:
                            await asyncio.sleep(0.5)
                            raise body_exc
                        elif body == "cancel-last":
                            await asyncio.sleep(0.5)
                            obs["self_cancelled"] = loop.time()
                            ctx.cancel()                       # the request is delivered at the exit's first suspension point
                        else:
                            await asyncio.sleep(0.5)
                    except BaseException as e:  # noqa
                        obs["body_raised"] = e
                        obs["body_end_time"] = loop.time()
                        raise
                    obs["body_end_time"] = loop.time()
                    log.append(("body-end",))
                obs["outcome"] = ("return", None)
            except BaseException as e:  # noqa
                obs["outcome"] = ("raise", e)
                obs["after"] = context_now()
                obs["tasks_done_at_exit"] = [t.done() for t in obs["tasks"]]
                if isinstance(e, asyncio.CancelledError):
                    raise
                return
            obs["after"] = context_now()
            obs["tasks_done_at_exit"] = [t.done() for t in obs["tasks"]]

        async def outer():
            if outer_state:
                async with ctx.scope("outer", A(v=99)):
                    await block()
            else:
                await block()

        t = asyncio.ensure_future(outer())
        if cancel_at is not None:
            await asyncio.sleep(cancel_at)
            if not t.done():
                obs["cancel_delivered"] = True
                t.cancel()
        try:
            await t
            obs["task_end"] = "finished"
            obs["end_time"] = loop.time()
        except asyncio.CancelledError:
            obs["end_time"] = loop.time()
            obs["task_end"] = "cancelled"
            obs["task_end_time"] = loop.time()
        except BaseException as e:  # noqa
            obs["task_end"] = ("error", e)
        for x in obs["tasks"]:
            if not x.done():
                obs.setdefault("leaked", []).append(x)
                x.cancel()
        await asyncio.sleep(2000)
        return obs

    try:
        return run(main)
    except Hang as h:
        obs["hang"] = str(h)
        return obs


def scenarios(level=1):
    enters = ["none", "state", "states", "fail", "slow-state", "slow-fail"]
    exits = ["ok", "fail", "slow-ok", "slow-fail"]
    dsets = [[]] + [[(e, x)] for e in enters for x in exits] + \
        [[("state", "ok"), ("fail", "ok")], [("slow-state", "ok"), ("fail", "ok")], [("state", "fail"), ("none", "fail")],
         [("state", "slow-ok"), ("none", "fail")], [("states", "ok"), ("state", "ok")], [("state", "ok"), ("slow-fail", "ok")],
         [("none", "fail"), ("state", "slow-fail")], [("none", "slow-fail"), ("none", "fail"), ("none", "slow-ok")],
         [("state", "swallow")], [("none", "ok"), ("none", "swallow")], [("leaky", "ok")], [("leaky", "ok"), ("state", "ok")], [("spawner", "ok"), ("slow-state", "ok")], [("spawner", "ok"), ("slow-fail", "ok")], [("spawner", "ok"), ("fail", "ok")]]
    cancels = (None, 0.5, 1.2, 1.7, 2.6, 5.5)
    spawn_sets = [[], ["done"], ["block"], ["fail", "block"], ["respawn"], ["fail", "respawn"]]
    if level >= 3:
        # thorough tier: every pair of disposables, three and four at once, denser cancellation instants (all the
        # suspension points of enter / body / exit fall between them), up to four spawned tasks
        import random as _r
        rng = _r.Random(int(os.environ.get("VERIF_SEED", "0") or 0))
        kinds = [(e, x) for e in enters for x in exits]
        dsets = dsets + [[a, b] for a in kinds for b in kinds if rng.random() < 0.25] + \
            [[rng.choice(kinds) for _ in range(n)] for n in (3, 3, 3, 4, 4, 4) for _ in range(12)]
        cancels = (None, 0.0, 0.25, 0.5, 0.75, 1.0, 1.2, 1.5, 1.7, 2.0, 2.25, 2.6, 3.0, 3.5, 5.5)
        spawn_sets = spawn_sets + [["done", "done", "block"], ["fail", "done", "block", "block"], ["block", "respawn", "fail"]]
    for ds in dsets:
        for body in ("return", "raise", "base", "sleep", "cancel-last"):
            for spawned in (spawn_sets +
                            ([["failcancel"]] if os.environ.get("C07_CHECK_FAILING_MEMBER") == "1" else [])):
                for cancel_at in cancels:
                    if body != "sleep" and cancel_at is not None and cancel_at > 3.0:
                        continue
                    if level < 2 and len(ds) > 1 and spawned and cancel_at not in (None, 1.2, 1.7):
                        continue
                    yield dict(disps=ds, body=body, spawned=spawned, cancel_at=cancel_at)


def search(check, level=1):
    n = 0
    for sc in scenarios(level):
        n += 1
        obs = run_scenario(**sc)
        p = check(sc, obs)
        if p:
            return n, dict(scenario=sc, problem=p)
    return n, None


def reuse_problems():
    """A scope object entered a second time (after it was left, after its first entering failed, or from inside its own
    block) is refused - and the refusal leaves the surrounding code exactly as it was: same state, metrics scope and task
    group, no disposable entered again, tasks spawned afterwards still belong to the enclosing scope."""
    out = []

    class Counting:
        def __init__(self, fail_first=False):
            self.entered, self.exited, self.fail_first = 0, 0, fail_first

        async def __aenter__(self):
            self.entered += 1
            if self.fail_first and self.entered == 1:
                raise DispError(("enter", 0))
            return A(v=5)

        async def __aexit__(self, *a):
            self.exited += 1

    async def attempt(kind, is_async, first):
        d = Counting(fail_first=(first == "enter-failed"))
        sc = ctx.scope("reused", A(v=2), disposables=[d]) if is_async and first not in ("plain", "left-other-protocol") \
            else ctx.scope("reused", A(v=2))
        refused = []

        async def enter_again():
            try:
                if is_async:
                    async with sc:
                        refused.append("accepted")
                else:
                    with sc:
                        refused.append("accepted")
            except (AssertionError, RuntimeError) as e:
                refused.append(type(e).__name__)
        if first == "active":
            if is_async:
                async with sc:
                    inside = context_now()
                    await enter_again()
                    if any(a is not b for a, b in zip(inside, context_now())):
                        out.append(f"{kind}: re-entering the active scope object from inside its block changed the context of the block")
            else:
                with sc:
                    inside = context_now()
                    await enter_again()
                    if any(a is not b for a, b in zip(inside, context_now())):
                        out.append(f"{kind}: re-entering the active scope object from inside its block changed the context of the block")
        else:
            first_async = is_async if first != "left-other-protocol" else not is_async
            try:
                if first_async:
                    async with sc:
                        pass
                else:
                    with sc:
                        pass
            except DispError:
                pass
            await enter_again()
        if refused != ["AssertionError"] and refused != ["RuntimeError"]:
            out.append(f"{kind}: entering the scope object again was {refused}")
        return d

    async def main():
        for is_async in (True, False):
            for first in ("plain", "left", "enter-failed", "active", "left-other-protocol"):
                if not is_async and first in ("left", "enter-failed"):
                    continue
                kind = f"{'async' if is_async else 'sync'} scope object, first use {first}"
                async with ctx.scope("enclosing", A(v=1)):
                    before = context_now()
                    d = await attempt(kind, is_async, first)
                    after = context_now()
                    names = ("state", "metrics scope", "task group")
                    for nme, a, b in zip(names, before, after):
                        if a is not b:
                            out.append(f"{kind}: after the refused second entering the surrounding code sees another {nme}")
                    if ctx.state(A).v != 1:
                        out.append(f"{kind}: after the refused second entering ctx.state(A).v is {ctx.state(A).v}, expected 1")
                    if is_async and first not in ("plain", "left-other-protocol") and (d.entered, d.exited) not in ((1, 1), (1, 0) if first == "enter-failed" else (1, 1)):
                        out.append(f"{kind}: the disposable was entered {d.entered}x and exited {d.exited}x")
                    released = asyncio.Event()

                    async def worker():
                        await released.wait()
                    t = ctx.spawn(worker)
                    asyncio.get_running_loop().call_soon(released.set)
                if not t.done():
                    out.append(f"{kind}: a task spawned from the enclosing scope after the refused entering outlived that scope")
                    t.cancel()
    asyncio.run(main())
    return out


def lookup_problems():
    """Blocks that supply nothing share the scope-state object of the code around them: what happens inside them (lookups
    with a caller default, lookups that default-construct) must not change what the surrounding code sees afterwards."""
    out = []

    class Probe(State):
        v: int = 0

    class Probe2(State):
        v: int = 0

    async def main():
        async with ctx.scope("outer", A(v=1)):
            seen = {}

            def view():
                return (ctx.state(A).v, ctx.state(Probe).v, ctx.state(Probe2).v, ctx.state(Probe, default=Probe(v=-1)).v)
            before = view()
            async with ctx.scope("stateless"):
                seen["async"] = ctx.state(Probe, default=Probe(v=123)).v
            with ctx.scope("stateless-sync"):
                ctx.state(Probe2, default=Probe2(v=7))
            with ctx.updated():
                ctx.state(Probe, default=Probe(v=5))

            async def child():
                ctx.state(Probe, default=Probe(v=9))
                ctx.state(Probe2)
            await ctx.spawn(child)
            try:
                with ctx.scope("stateless-failing"):
                    ctx.state(Probe, default=Probe(v=11))
                    raise BodyError("body")
            except BodyError:
                pass
            after = view()
            if seen["async"] != 123:
                out.append(f"ctx.state(Probe, default=Probe(v=123)) for a type nobody supplies returned v={seen['async']}")
            if before != after:
                out.append(f"lookups made inside blocks that supply no state changed what the surrounding code sees: "
                           f"(A, Probe, Probe2, Probe-with-default) was {before}, is {after} afterwards")
    asyncio.run(main())
    return out


def main(check):
    import json
    sys.stdin.read()
    rp = reuse_problems() or lookup_problems()
    if rp:
        print(json.dumps(dict(reproduced=True, detail=dict(scenario="scope object entered a second time", problem=rp[0]), cases_tried=1)))
        return
    n, fail = search(check, int(os.environ.get("SCOPE_LEVEL", "1")))
    if fail:
        print(json.dumps(dict(reproduced=True, detail=fail, cases_tried=n), default=str))
    else:
        print(json.dumps(dict(reproduced=False, cases_tried=n, detail="statement held on every enumerated scenario")))
