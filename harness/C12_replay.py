"""Native replay for C12: exhaustive short call/clock histories against an abstract LRU+expiry
model, for the sync, method and async variants of the real cache."""
import asyncio
import itertools
import json
import logging
import os
import sys
from collections import OrderedDict
sys.path.insert(0, os.path.dirname(os.path.abspath(__file__)))
logging.disable(logging.CRITICAL)

import haiway.helpers.caching as C
from haiway import cache

KEYS = [((1,), {}), ((1.0,), {}), ((True,), {}),
        # the same equal-but-differently-typed values passed by keyword, and mixed positional / keyword forms
        ((), {"x": 1}), ((), {"x": 1.0}), ((), {"x": True}), ((1,), {"x": 1.0}), ((1.0,), {"x": 1})]


class Recv:
    """value-equal, hashable receivers (identity must still separate their cache entries)"""
    def __init__(self, name):
        self.name = name

    def __eq__(self, other):
        return isinstance(other, Recv)

    def __hash__(self):
        return 7


def typed_key(recv, args, kwargs):
    return (id(recv) if recv is not None else None, tuple((type(a), a) for a in args),
            tuple((k, type(v), v) for k, v in kwargs.items()))


def run_history(variant, limit, expiration, ops):
    now = [0.0]
    C.monotonic = lambda: now[0]
    produced = []           # (typed key, value, time)
    counter = itertools.count()

    def body(recv, args, kwargs):
        v = ("v", next(counter))
        produced.append((typed_key(recv, args, kwargs), v, now[0]))
        return v

    recvs = [None]
    if variant == "sync":
        @cache(limit=limit, expiration=expiration)
        def fn(*a, **k):
            return body(None, a, k)
        call = lambda r, a, k: fn(*a, **k)
        wrapper = fn
    elif variant == "method":
        class Holder(Recv):
            @cache(limit=limit, expiration=expiration)
            def m(self, *a, **k):
                return body(self, a, k)
        recvs = [Holder("a"), Holder("b")]
        call = lambda r, a, k: r.m(*a, **k)
        wrapper = Holder.__dict__["m"]
    else:
        loop = asyncio.new_event_loop()

        @cache(limit=limit, expiration=expiration)
        async def afn(*a, **k):
            return body(None, a, k)
        call = lambda r, a, k: loop.run_until_complete(afn(*a, **k))
        wrapper = afn
    uses = OrderedDict()    # typed key -> None, in order of last use (the statement's "most recently used keys")
    last = {}               # typed key -> (value, time) of the latest invocation of the function for that key
    try:
        for op in ops:
            if op[0] == "tick":
                now[0] += op[1]
                continue
            _, ki, ri = op
            args, kwargs = KEYS[ki]
            recv = recvs[ri % len(recvs)]
            tk = typed_key(recv, args, kwargs)
            n_before = len(produced)
            got = call(recv, args, kwargs)
            called = len(produced) > n_before
            # (all clock steps and expirations are dyadic rationals: ages are exact floats, "older than its expiration" is decidable)
            if not called:
                src = [p for p in produced if p[1] == got]
                if not src or src[0][0] != tk:
                    return (f"answered {got} from the cache for key {tk}: that value was produced for "
                            f"{src[0][0] if src else 'no call at all'}")
                if expiration is not None and now[0] - src[0][2] > expiration:
                    return (f"answered {got} from the cache for key {tk}: produced at t={src[0][2]}, now={now[0]}, "
                            f"older than the expiration {expiration}")
            else:
                ent = last.get(tk)
                mru = list(uses)[-limit:]
                if ent is not None and tk in mru and (expiration is None or now[0] - ent[1] <= expiration):
                    return (f"key {tk} is among the {limit} most recently used keys and its entry (made at t={ent[1]}, now={now[0]}, "
                            f"expiration {expiration}) is not older than its expiration, but the function was called again")
                last[tk] = (got, now[0])
            uses[tk] = None
            uses.move_to_end(tk)
            if len(wrapper._cached) > limit:
                return f"{len(wrapper._cached)} entries alive with limit {limit}"
    finally:
        if variant == "async":
            loop.close()
    return None


def search(maxlen):
    n = 0
    calls = [("call", k, r) for k in range(3) for r in range(2)]
    for variant in ("sync", "method", "async"):
        alphabet = ([c for c in calls if c[2] == 0] if variant != "method" else calls) + [("tick", 0.5), ("tick", 1.0)]
        for limit in (1, 2):
            for expiration in (None, 1.0):
                ab = alphabet if expiration is not None else [a for a in alphabet if a[0] == "call"]
                for ln in range(1, maxlen + 2):
                    if variant == "async" and ln > maxlen - 1:
                        continue
                    if ln > maxlen and (variant != "sync" or expiration is not None or limit != 2):
                        continue
                    for ops in itertools.product(ab, repeat=ln):
                        n += 1
                        p = run_history(variant, limit, expiration, ops)
                        if p:
                            return n, dict(variant=variant, limit=limit, expiration=expiration, history=list(ops), problem=p)
    # the keyword forms: exhaustive up to length maxlen-1 over the three keyword keys, sync and async
    kw_calls = [("call", k, 0) for k in (3, 4, 5)]
    for variant in ("sync", "method", "async"):
        for limit in (1, 3):
            for ln in range(1, maxlen):
                for ops in itertools.product(kw_calls, repeat=ln):
                    n += 1
                    p = run_history(variant, limit, None, ops)
                    if p:
                        return n, dict(variant=variant, limit=limit, expiration=None, history=list(ops), problem=p)
    all_calls = [("call", k, r) for k in range(len(KEYS)) for r in range(2)]
    # longer random histories (the exhaustive part stops at length maxlen+1): clock steps of half the expiration, so that
    # lookups, insertions and evictions often happen at the very instant an entry reaches its expiration
    import random
    rng = random.Random(int(os.environ.get("VERIF_SEED", "0") or 0))
    for _ in range(int(os.environ.get("C12_RANDOM", "1500"))):
        variant = rng.choice(("sync", "method", "async"))
        limit = rng.choice((1, 2, 3))
        expiration = rng.choice((None, 1.0, 1.0, 2.0))
        pool = calls if rng.random() < 0.75 else all_calls      # mostly the three positional keys (dense re-use), sometimes all forms
        ab = ([c for c in pool if c[2] == 0] if variant != "method" else pool) + \
            ([] if expiration is None else [("tick", 0.5), ("tick", 1.0), ("tick", 0.5)])
        ops = tuple(rng.choice(ab) for _ in range(rng.randint(5, 12)))
        n += 1
        p = run_history(variant, limit, expiration, ops)
        if p:
            return n, dict(variant=variant, limit=limit, expiration=expiration, history=list(ops), problem=p)
    return n, None


def stacked_caches():
    """A cache applied to a callable that is itself a cached function is a cache of its own, with its own limit and
    expiration: `cache(limit=3)(cache(f))` answers three keys without calling anything, whatever the inner cache keeps."""
    now = [0.0]
    C.monotonic = lambda: now[0]
    calls = []

    def f(x):
        calls.append(x)
        return ("v", x, len(calls))
    outer = cache(limit=3)(cache(f))               # inner: default limit 1
    for k in (1, 2, 3, 1, 2, 3):
        outer(k)
    if calls != [1, 2, 3]:
        return f"cache(limit=3)(cache(f)) asked for keys 1, 2, 3, 1, 2, 3: f was called for {calls}; the outer cache holds three keys"
    del calls[:]
    keep = cache(limit=1)(cache(limit=1, expiration=5.0)(f))      # the outer one never expires
    keep(7)
    now[0] += 100.0
    keep(7)
    if calls != [7]:
        return f"a non-expiring cache around an expiring one, asked again after 100 s: f was called for {calls}, expected one call"

    class H:
        @cache(limit=2)
        @cache
        def m(self, x):
            calls.append(x)
            return x
    del calls[:]
    h = H()
    for k in (1, 2, 1, 2):
        h.m(k)
    if calls != [1, 2]:
        return f"@cache(limit=2) @cache on a method, keys 1, 2, 1, 2: the method body ran for {calls}"
    return None


def overlapping_async():
    """The limit also holds for calls that overlap: `limit`+1 calls with distinct keys are in flight at once (the first key is
    evicted while its invocation still runs), they finish in any order - afterwards the evicted key is recomputed, and never
    more than `limit` distinct keys are answered without an invocation."""
    import asyncio
    for method in (False, True):
        for limit in (1, 2):
            for finish_order in ("first-started-first", "first-started-last"):
                calls = []
                gates = {}

                async def body(x):
                    calls.append(x)
                    await gates[x].wait()
                    return ("v", x, len(calls))
                if method:
                    class H:
                        @cache(limit=limit)
                        async def m(self, x):
                            return await body(x)
                    fn = H().m
                else:
                    @cache(limit=limit)
                    async def fn(x):
                        return await body(x)

                async def main():
                    keys = list(range(1, limit + 2))
                    for k in keys:
                        gates[k] = asyncio.Event()
                    tasks = []
                    for k in keys:
                        tasks.append(asyncio.ensure_future(fn(k)))
                        await asyncio.sleep(0)
                    for k in (keys if finish_order == "first-started-first" else reversed(keys)):
                        gates[k].set()
                        await asyncio.sleep(0)
                        await asyncio.sleep(0)
                    await asyncio.gather(*tasks)
                    for _ in range(3):
                        await asyncio.sleep(0)
                    # every key asked again, most recently inserted first: at most `limit` of them may be answered from the cache
                    before = len(calls)
                    hits = 0
                    for k in reversed(keys):
                        n0 = len(calls)
                        await fn(k)
                        hits += len(calls) == n0
                    return hits, before
                hits, before = asyncio.run(main())
                if hits > limit:
                    return (f"async {'method ' if method else ''}cache with limit {limit}: {limit + 1} overlapping calls with distinct keys "
                            f"(finishing {finish_order}), then every key asked again: {hits} keys were answered without an invocation "
                            f"- more than `limit` entries were kept alive")
    return None


def main():
    sys.stdin.read()
    n, fail = search(int(os.environ.get("C12_MAXLEN", "4")))
    if not fail:
        n += 8
        p = overlapping_async() or stacked_caches()
        if p:
            fail = dict(problem=p)
    if not fail:
        from mimic_frame import own_state_problems
        from haiway import cache as _cache
        for is_async in (False, True):
            n += 1
            p = own_state_problems(lambda f: _cache(limit=2, expiration=5.0)(f), is_async, "async cache" if is_async else "cache")
            if p:
                fail = dict(problem=p)
                break
    if fail:
        print(json.dumps(dict(reproduced=True, detail=fail, cases_tried=n), default=str))
    else:
        print(json.dumps(dict(reproduced=False, cases_tried=n, detail="statement held on every enumerated history")))


if __name__ == "__main__":
    main()
