"""Native replay for C09: scope trees (children in the parent's task, in spawned tasks, or in plain
asyncio tasks that outlive the parent), every linearisation produced by random suspension points;
completion callbacks must fire exactly once, only after the scope and its whole subtree were left,
and leaving a scope must never fail because of completion bookkeeping."""
import asyncio
import json
import logging
import os
import random
import sys
sys.path.insert(0, os.path.dirname(os.path.abspath(__file__)))
logging.disable(logging.CRITICAL)

from haiway import ctx


def run_program(rng):
    problems = []
    events = []          # ("enter", id) ("exit", id) ("completed", id, metrics)
    parent_of = {}
    counter = [0]
    pending = []
    metrics_of = {}

    def make_completion(sid, is_async):
        if is_async:
            async def cb(metrics):
                events.append(("completed", sid, metrics))
        else:
            def cb(metrics):
                events.append(("completed", sid, metrics))
        return cb

    async def node(depth, parent, budget):
        sid = counter[0]
        counter[0] += 1
        # a scope created after its would-be parent already completed cannot delay that completion any more
        if parent is not None and parent in metrics_of and metrics_of[parent]._completed.done():
            parent = None
        parent_of[sid] = parent
        use_async = rng.random() < 0.5
        cm = ctx.scope(f"s{sid}", completion=make_completion(sid, rng.random() < 0.4))
        kids = []

        async def body():
            from haiway.context.metrics import MetricsContext
            metrics_of[sid] = MetricsContext._context.get()
            events.append(("enter", sid))
            for _ in range(rng.randint(0, 2)):
                if depth <= 0 or budget[0] <= 0:
                    break
                budget[0] -= 1
                how = rng.choice(["inline", "spawn", "task"]) if use_async else rng.choice(["inline", "task"])
                if how == "inline":
                    await node(depth - 1, sid, budget)
                elif how == "spawn":
                    kids.append(ctx.spawn(node, depth - 1, sid, budget))
                else:
                    async def late(d=depth - 1):
                        await asyncio.sleep(rng.choice([0, 0, 0.01, 0.02, 0.05]))
                        await node(d, sid, budget)
                    t = asyncio.ensure_future(late())
                    pending.append(t)
                await asyncio.sleep(0)
            await asyncio.sleep(rng.choice([0, 0, 0.01, 0.03]))
        try:
            if use_async:
                async with cm:
                    await body()
            else:
                with cm:
                    await body()
        except AssertionError as e:
            problems.append(f"leaving scope s{sid} raised AssertionError: {e}")
        except BaseException as e:  # noqa
            problems.append(f"scope s{sid} raised {e!r}")
        events.append(("exit", sid))

    async def main():
        await node(2, None, [4])
        for t in pending:
            try:
                await t
            except BaseException as e:  # noqa
                problems.append(f"task outliving its parent scope failed: {e!r}")
        for _ in range(5):
            await asyncio.sleep(0.01)

    loop = asyncio.new_event_loop()
    errors = []
    loop.set_exception_handler(lambda l, c: errors.append(c))
    try:
        loop.run_until_complete(main())
    finally:
        loop.close()
    if problems:
        return problems
    for c in errors:
        exc = c.get("exception")
        if isinstance(exc, AssertionError):
            return [f"bookkeeping assertion failed in the event loop: {exc}"]
    ids = list(parent_of)

    def descendants(s):
        out = [s]
        for c in ids:
            if parent_of[c] == s:
                out += descendants(c)
        return out
    for s in ids:
        comps = [i for i, e in enumerate(events) if e[0] == "completed" and e[1] == s]
        if len(comps) != 1:
            return [f"completion callback of s{s} ran {len(comps)} times (tree {parent_of})"]
        for d in descendants(s):
            ex = [i for i, e in enumerate(events) if e == ("exit", d)]
            en = [i for i, e in enumerate(events) if e == ("enter", d)]
            if en and not ex:
                return [f"scope s{d} never exited"]
            if en and ex and ex[0] > comps[0]:
                return [f"completion callback of s{s} fired before nested scope s{d} was left (tree {parent_of})"]
        m = [e for e in events if e[0] == "completed" and e[1] == s][0][2]
        if not m.is_completed:
            return [f"metrics of s{s} do not report completed after the callback"]
        t1 = m.time
        t2 = m.time
        if t1 != t2:
            return [f"measured time of completed scope s{s} still changes"]
    return []


def scripted():
    """Hand-picked linearisations from the property's quantifier (children in plain tasks outliving the parent)."""
    problems = []
    order = []

    def cb(tag):
        def done(metrics):
            order.append(tag)
        return done

    async def main():
        e_c1_in, e_p_out, e_c1_go, e_c2_go = (asyncio.Event() for _ in range(4))

        async def c1():
            with ctx.scope("C1", completion=cb("C1")):
                e_c1_in.set()
                await e_c1_go.wait()
            order.append("C1-left")

        async def c2():
            await e_p_out.wait()                      # enters only after the parent was left
            with ctx.scope("C2", completion=cb("C2")):
                order.append("C2-entered")
                await e_c2_go.wait()
            order.append("C2-left")

        with ctx.scope("P", completion=cb("P")):
            t1 = asyncio.ensure_future(c1())
            t2 = asyncio.ensure_future(c2())
            await e_c1_in.wait()
        order.append("P-left")
        e_p_out.set()
        for _ in range(3):
            await asyncio.sleep(0)
        e_c1_go.set()
        for _ in range(3):
            await asyncio.sleep(0)
        e_c2_go.set()
        try:
            await asyncio.gather(t1, t2)
        except BaseException as e:  # noqa
            problems.append(f"scripted scenario raised {e!r}")
        for _ in range(3):
            await asyncio.sleep(0)
        # a scope created after its parent fully completed must not break anything
        holder = {}

        async def late():
            await holder["go"].wait()
            try:
                with ctx.scope("late", completion=cb("late")):
                    pass
            except BaseException as e:  # noqa
                problems.append(f"scope created under an already completed scope raised {e!r}")
        holder["go"] = asyncio.Event()
        with ctx.scope("Q", completion=cb("Q")):
            t3 = asyncio.ensure_future(late())
        holder["go"].set()
        await t3
        for _ in range(3):
            await asyncio.sleep(0)
        # somebody waiting for a scope's metrics gives up (its task is cancelled): the scope is unaffected
        from haiway.context.metrics import MetricsContext
        hold = {}
        e_in, e_go = asyncio.Event(), asyncio.Event()

        async def waited_scope():
            try:
                async with ctx.scope("W", completion=cb("W")):
                    hold["m"] = MetricsContext._context.get()
                    e_in.set()
                    await e_go.wait()
                    order.append("W-body-end")
            except BaseException as e:  # noqa
                problems.append(f"leaving a scope somebody had stopped waiting for raised {e!r}")
        tw = asyncio.ensure_future(waited_scope())
        await e_in.wait()
        waiter = asyncio.ensure_future(hold["m"].wait())
        await asyncio.sleep(0)
        waiter.cancel()
        for _ in range(3):
            await asyncio.sleep(0)
        if "W" in order:
            problems.append("cancelling a task that awaited ScopeMetrics.wait() completed the scope while its body was running")
        e_go.set()
        await tw
        for _ in range(3):
            await asyncio.sleep(0)
        # a nested block that fails while being entered has been left for good: the enclosing scope still completes
        class Bad:
            async def __aenter__(self):
                raise RuntimeError("cannot enter")

            async def __aexit__(self, *a):
                return None
        async with ctx.scope("R", completion=cb("R")):
            try:
                async with ctx.scope("R-inner", disposables=[Bad()], completion=cb("R-inner")):
                    order.append("R-inner-body-ran")
            except RuntimeError:
                pass
        for _ in range(3):
            await asyncio.sleep(0)
    asyncio.run(main())
    if problems:
        return problems
    if "R-inner-body-ran" in order:
        return ["the body of a scope whose disposable failed to enter ran"]
    for tag in ("P", "C1", "C2", "Q", "late", "R", "W"):
        if order.count(tag) != 1:
            return [f"completion callback of {tag} ran {order.count(tag)} times (order {order})"]
    if not (order.index("C1-left") < order.index("P") and order.index("C2-left") < order.index("P")):
        return [f"completion of P fired before its nested scopes C1 and C2 were left (order {order})"]
    if order.index("P") < order.index("P-left"):
        return ["completion of P fired before P was left"]
    return []


def worker_thread_scope():
    """A scope whose creation fails (a worker thread - asyncio.to_thread / run_in_executor - inherits the caller's context,
    hence its current scope, but has no event loop) must leave the scope it was created under untouched: that scope still
    completes, exactly once, and leaving it does not fail."""
    fired = []
    state = {}

    async def main():
        def worker():
            try:
                with ctx.scope("worker"):
                    return "entered"
            except RuntimeError as exc:
                return f"refused: {exc}"
        try:
            async with ctx.scope("parent", completion=lambda m: fired.append(m.is_completed)):
                state["worker"] = await asyncio.to_thread(worker)
        except BaseException as exc:  # noqa
            state["leave"] = repr(exc)
        await asyncio.sleep(0)
        await asyncio.sleep(0)
    import warnings
    with warnings.catch_warnings():
        warnings.simplefilter("ignore")
        asyncio.run(main())
    if "leave" in state:
        return [f"leaving a scope under which a worker thread failed to create a scope ({state.get('worker')}) raised {state['leave']}"]
    if fired != [True]:
        return [f"a worker thread failed to create a scope under `parent` ({state.get('worker')}); parent's completion fired "
                f"{len(fired)} times with is_completed={fired}"]
    return []


def siblings_after_a_left_child():
    """P > A > G, with G in a plain task that outlives A (A is left, not completed); then a sibling B is created and left under
    P; P is left before G.  P and A complete only after G was left, once each, and leaving G raises nothing."""
    order, problems = [], []

    async def main():
        g_in, g_go = asyncio.Event(), asyncio.Event()

        async def g():
            try:
                with ctx.scope("G", completion=lambda m: order.append("G")):
                    g_in.set()
                    await g_go.wait()
                order.append("G-left")
            except BaseException as e:  # noqa
                problems.append(f"leaving the innermost scope G raised {e!r}")
        with ctx.scope("P", completion=lambda m: order.append("P")):
            with ctx.scope("A", completion=lambda m: order.append("A")):
                t = asyncio.ensure_future(g())
                await g_in.wait()
            order.append("A-left")
            for k in range(2):
                with ctx.scope(f"B{k}", completion=lambda m, k=k: order.append(f"B{k}")):
                    pass
                await asyncio.sleep(0)
        order.append("P-left")
        for _ in range(3):
            await asyncio.sleep(0)
        snapshot = list(order)
        g_go.set()
        await t
        for _ in range(3):
            await asyncio.sleep(0)
        if "P" in snapshot or "A" in snapshot:
            problems.append(f"P / A completed while the scope G nested under A was still running (events so far: {snapshot})")
    asyncio.run(main())
    for tag in ("P", "A", "G", "B0", "B1"):
        if order.count(tag) != 1:
            problems.append(f"completion of {tag} fired {order.count(tag)} times (events {order})")
    if not problems and not (order.index("G-left") < order.index("A") < order.index("P")):
        problems.append(f"completions out of order: {order}")
    return problems


def created_then_entered_later():
    """A scope object is nested under the scope it was *created* in.  Created inside P, handed to a plain task and entered
    only after P was left (sync and async protocol, sync and async completion callbacks): P completes after that scope
    was left, exactly once; a scope object that is created under P and entered while P is still running behaves the same."""
    problems = []
    for protocol in ("sync", "async"):
        for async_cb in (False, True):
            for enter_when in ("after P was left", "while P runs"):
                order = []

                def cb(tag, order=order):
                    if async_cb:
                        async def done(metrics):
                            order.append(tag)
                    else:
                        def done(metrics):
                            order.append(tag)
                    return done

                async def main(order=order):
                    go = asyncio.Event()

                    async def later(scope):
                        await go.wait()
                        if protocol == "sync":
                            with scope:
                                order.append("C-entered")
                        else:
                            async with scope:
                                order.append("C-entered")
                        order.append("C-left")
                    with ctx.scope("P", completion=cb("P")):
                        child = ctx.scope("C", completion=cb("C"))
                        t = asyncio.ensure_future(later(child))
                        await asyncio.sleep(0)
                        if enter_when == "while P runs":
                            go.set()
                            await asyncio.sleep(0)
                            await asyncio.sleep(0)
                    order.append("P-left")
                    for _ in range(3):
                        await asyncio.sleep(0)
                    go.set()
                    await t
                    for _ in range(4):
                        await asyncio.sleep(0)
                try:
                    asyncio.run(main())
                except BaseException as e:  # noqa
                    problems.append(f"scope created in P and entered {enter_when} ({protocol} protocol): the program ended with {e!r}")
                    continue
                what = f"scope C created inside P, entered {enter_when} by a plain task ({protocol} protocol, {'async' if async_cb else 'sync'} callbacks)"
                if order.count("P") != 1 or order.count("C") != 1:
                    problems.append(f"{what}: completions fired P x{order.count('P')}, C x{order.count('C')} (events {order})")
                elif order.index("P") < order.index("C-left"):
                    problems.append(f"{what}: P completed before the scope nested under it was left (events {order})")
    return problems


def spawn_while_the_scope_is_leaving():
    """root > parent (asynchronous).  parent's body spawns `worker` and ends; `worker` runs for the first time while parent is
    already waiting for its tasks and spawns `late`, which enters a scope `child` only later.  parent and root complete
    after `child` was left - whether that task still joins the group or is refused, never detached and forgotten."""
    order, problems = [], []

    async def main():
        gate = asyncio.Event()

        async def late():
            await gate.wait()
            with ctx.scope("child", completion=lambda m: order.append("child completed")):
                order.append("child entered")
            order.append("child left")

        async def worker():
            try:
                ctx.spawn(late)
            except RuntimeError:
                order.append("late spawn refused")      # a group that shuts down may refuse new members

        async def controller():
            for _ in range(40):
                await asyncio.sleep(0)
            gate.set()
        c = asyncio.ensure_future(controller())
        with ctx.scope("root", completion=lambda m: order.append("root completed")):
            async with ctx.scope("parent", completion=lambda m: order.append("parent completed")):
                ctx.spawn(worker)
            order.append("parent left")
        order.append("root left")
        await c
        for _ in range(10):
            await asyncio.sleep(0)
    try:
        asyncio.run(asyncio.wait_for(main(), 10))
    except BaseException as e:  # noqa
        return [f"spawn while the scope is leaving: the program ended with {e!r} (events {order})"]
    for tag in ("root completed", "parent completed"):
        if order.count(tag) != 1:
            problems.append(f"spawn while the scope is leaving: {tag!r} fired {order.count(tag)} times (events {order})")
    if not problems and "child left" in order and not (order.index("child left") < order.index("parent completed") < order.index("root completed")):
        problems.append(f"a task spawned (from a spawned task) while its scope was leaving entered a nested scope, but the scope "
                        f"completed before that nested scope was left: {order}")
    return problems


def main():
    sys.stdin.read()
    sp = scripted() or worker_thread_scope() or siblings_after_a_left_child() or created_then_entered_later() \
        or spawn_while_the_scope_is_leaving()
    if sp:
        print(json.dumps(dict(reproduced=True, detail=dict(problem=sp[0], scenario="scripted"), cases_tried=1), default=str))
        return
    seed = int(os.environ.get("VERIF_SEED", "0") or 0)
    n, p = 0, None
    for k in range(int(os.environ.get("C09_PROGRAMS", "70"))):
        n += 1
        pr = run_program(random.Random(seed * 104729 + k))
        if pr:
            p = pr[0]
            break
    if p:
        print(json.dumps(dict(reproduced=True, detail=dict(problem=p, seed=seed, program=n), cases_tried=n), default=str))
    else:
        print(json.dumps(dict(reproduced=False, cases_tried=n, detail="statement held on every generated program")))


if __name__ == "__main__":
    main()
