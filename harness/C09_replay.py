"""Native replay for C09: scope trees (children in the parent's task, in spawned tasks, or in plain
asyncio tasks that outlive the parent), every linearisation produced by random suspension points;
completion callbacks must fire exactly once, only after the scope and its whole subtree were left,
and leaving a scope must never fail because of completion bookkeeping."""
import asyncio
import json
import logging
import os
import random
import sys
sys.path.insert(0, os.path.dirname(os.path.abspath(__file__)))
logging.disable(logging.CRITICAL)

from haiway import ctx


def run_program(rng):
    problems = []
    events = []          # ("enter", id) ("exit", id) ("completed", id, metrics)
    parent_of = {}
    counter = [0]
    pending = []
    metrics_of = {}

    def make_completion(sid, is_async):
        if is_async:
            async def cb(metrics):
                events.append(("completed", sid, metrics))
        else:
            def cb(metrics):
                events.append(("completed", sid, metrics))
        return cb

    async def node(depth, parent, budget):
        sid = counter[0]
        counter[0] += 1
        # a scope created after its would-be parent already completed cannot delay that completion any more
        if parent is not None and parent in metrics_of and metrics_of[parent]._completed.done():
            parent = None
        parent_of[sid] = parent
        use_async = rng.random() < 0.5
        cm = ctx.scope(f"s{sid}", completion=make_completion(sid, rng.random() < 0.4))
        kids = []

        async def body():
            from haiway.context.metrics import MetricsContext
            metrics_of[sid] = MetricsContext._context.get()
            events.append(("enter", sid))
            for _ in range(rng.randint(0, 2)):
                if depth <= 0 or budget[0] <= 0:
                    break
                budget[0] -= 1
                how = rng.choice(["inline", "spawn", "task"]) if use_async else rng.choice(["inline", "task"])
                if how == "inline":
                    await node(depth - 1, sid, budget)
                elif how == "spawn":
                    kids.append(ctx.spawn(node, depth - 1, sid, budget))
                else:
                    async def late(d=depth - 1):
                        await asyncio.sleep(rng.choice([0, 0, 0.01, 0.02, 0.05]))
                        await node(d, sid, budget)
                    t = asyncio.ensure_future(late())
                    pending.append(t)
                await asyncio.sleep(0)
            await asyncio.sleep(rng.choice([0, 0, 0.01, 0.03]))
        try:
            if use_async:
                async with cm:
                    await body()
            else:
                with cm:
                    await body()
        except AssertionError as e:
            problems.append(f"leaving scope s{sid} raised AssertionError: {e}")
        except BaseException as e:  # noqa
            problems.append(f"scope s{sid} raised {e!r}")
        events.append(("exit", sid))

    async def main():
        await node(2, None, [4])
        for t in pending:
            try:
                await t
            except BaseException as e:  # noqa
                problems.append(f"task outliving its parent scope failed: {e!r}")
        for _ in range(5):
            await asyncio.sleep(0.01)

    loop = asyncio.new_event_loop()
    errors = []
    loop.set_exception_handler(lambda l, c: errors.append(c))
    try:
        loop.run_until_complete(main())
    finally:
        loop.close()
    if problems:
        return problems
    for c in errors:
        exc = c.get("exception")
        if isinstance(exc, AssertionError):
            return [f"bookkeeping assertion failed in the event loop: {exc}"]
    ids = list(parent_of)

    def descendants(s):
        out = [s]
        for c in ids:
            if parent_of[c] == s:
                out += descendants(c)
        return out
    for s in ids:
        comps = [i for i, e in enumerate(events) if e[0] == "completed" and e[1] == s]
        if len(comps) != 1:
            return [f"completion callback of s{s} ran {len(comps)} times (tree {parent_of})"]
        for d in descendants(s):
            ex = [i for i, e in enumerate(events) if e == ("exit", d)]
            en = [i for i, e in enumerate(events) if e == ("enter", d)]
            if en and not ex:
                return [f"scope s{d} never exited"]
            if en and ex and ex[0] > comps[0]:
                return [f"completion callback of s{s} fired before nested scope s{d} was left (tree {parent_of})"]
        m = [e for e in events if e[0] == "completed" and e[1] == s][0][2]
        if not m.is_completed:
            return [f"metrics of s{s} do not report completed after the callback"]
        t1 = m.time
        t2 = m.time
        if t1 != t2:
            return [f"measured time of completed scope s{s} still changes"]
    return []


def main():
    sys.stdin.read()
    seed = int(os.environ.get("VERIF_SEED", "0") or 0)
    n, p = 0, None
    for k in range(int(os.environ.get("C09_PROGRAMS", "150"))):
        n += 1
        pr = run_program(random.Random(seed * 104729 + k))
        if pr:
            p = pr[0]
            break
    if p:
        print(json.dumps(dict(reproduced=True, detail=dict(problem=p, seed=seed, program=n), cases_tried=n), default=str))
    else:
        print(json.dumps(dict(reproduced=False, cases_tried=n, detail="statement held on every generated program")))


if __name__ == "__main__":
    main()
