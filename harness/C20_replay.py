"""Native replay for C20: every way of obtaining a missing value, alone and nested, plus the
predicates on look-alikes.  Also validates the T-COPY walk used by the contract."""
import copy
import json
import pickle
import sys
import logging
logging.disable(logging.CRITICAL)

from haiway import MISSING, State, is_missing, not_missing, when_missing
from haiway.types.missing import Missing
from typing import Any
from collections.abc import Sequence


class AlwaysEq:
    def __eq__(self, other):
        return True

    def __hash__(self):
        return 1


class Wrap(State):
    inner: Any = None


class Holder(State):
    a: int | Missing = MISSING
    b: Missing = MISSING


class Retry(State):            # an attribute that may be missing but has an ordinary default
    attempts: int | Missing = 3
    note: str | Missing = MISSING


def problems():
    out = []

    def same(label, v):
        if v is not MISSING:
            out.append(f"{label} yields {v!r} (id {id(v)}), not the MISSING object")
    try:
        same("Missing()", Missing())
        same("copy.copy", copy.copy(MISSING))
        same("copy.deepcopy", copy.deepcopy(MISSING))
        for p in range(pickle.HIGHEST_PROTOCOL + 1):
            same(f"pickle protocol {p}", pickle.loads(pickle.dumps(MISSING, p)))
        for name, box, get in (("list", [MISSING], lambda b: b[0]), ("dict", {"k": (MISSING,)}, lambda b: b["k"][0]),
                               ("nested", [{"x": [MISSING]}], lambda b: b[0]["x"][0])):
            same(f"deepcopy inside {name}", get(copy.deepcopy(box)))
            same(f"copy inside {name}", get(copy.copy(box)))
            for p in (0, 2, 5):
                same(f"pickle {p} inside {name}", get(pickle.loads(pickle.dumps(box, p))))
        class Bare(State):             # MISSING held by attributes that have no class-level default to fall back on
            value: int | Missing
            inner: Holder | Missing
            items: Sequence[int | Missing] = ()
        bare = Bare(value=MISSING, inner=MISSING, items=[1, MISSING])
        for label, make in (("copy", lambda: copy.copy(bare)), ("deepcopy", lambda: copy.deepcopy(bare)),
                            ("deepcopy inside a list", lambda: copy.deepcopy([bare])[0]),
                            ("deepcopy inside a state", lambda: copy.deepcopy(Wrap(inner=bare)).inner),
                            ("updated()", lambda: bare.updated()), ("copy of a deepcopy", lambda: copy.copy(copy.deepcopy(bare)))):
            try:
                x = make()
                same(f"{label} of a state holding MISSING without a default: .value", x.value)
                same(f"{label} of a state holding MISSING without a default: .inner", x.inner)
                same(f"{label} of a state holding MISSING without a default: .items[1]", x.items[1])
                if x != bare or str(x) != str(bare) or vars(x).keys() != vars(bare).keys():
                    out.append(f"{label} of a state holding MISSING differs from the original: {x} vs {bare}")
            except Exception as e:  # noqa
                out.append(f"{label} of a state holding MISSING (attribute without a default): {e!r}"[:220])
        h = Holder()
        for label, hh in (("copy of state", lambda: copy.copy(h)), ("deepcopy of state", lambda: copy.deepcopy(h)),
                          ("updated state", lambda: h.updated())):
            try:
                x = hh()
                same(label + ".a", x.a)
                same(label + ".b", x.b)
            except Exception as e:  # noqa
                out.append(f"{label} raised {e!r}"[:200])
    except Exception as e:  # noqa
        out.append(f"obtaining a missing value raised {e!r}"[:200])
    for r in (Retry(), Retry(attempts=MISSING), Retry(attempts=5, note="x"), Retry(attempts=MISSING, note=MISSING)):
        for label, f in (("copy", copy.copy), ("deepcopy", copy.deepcopy), ("copy inside a list", lambda x: copy.copy([x])[0]),
                         ("deepcopy inside a dict", lambda x: copy.deepcopy({"k": (x,)})["k"][0])):
            try:
                c = f(r)
            except Exception as e:  # noqa
                out.append(f"{label} of {r} raised {e!r}"[:200])
                continue
            for name in ("attempts", "note"):
                if (getattr(c, name) is MISSING) != (getattr(r, name) is MISSING) or (getattr(c, name) is not MISSING and getattr(c, name) != getattr(r, name)):
                    out.append(f"{label} of {r}: attribute {name} is {getattr(c, name)!r}, the original holds {getattr(r, name)!r}")
    if bool(MISSING):
        out.append("MISSING is truthy")
    for other in (None, False, 0, "", (), [], {}, AlwaysEq(), object()):
        if MISSING.__eq__(other) is not False or is_missing(other) or not not_missing(other) \
                or when_missing(other, "dflt") is not other:
            out.append(f"look-alike {other!r} is treated as missing")
    # state instances holding MISSING: an attribute declared Missing holds the one MISSING object or nothing else
    from unittest import mock
    for other in (None, False, 0, "", (), AlwaysEq(), mock.ANY, object()):
        for kw in ("b", "a"):
            if kw == "a" and isinstance(other, int):
                continue                               # a: int | Missing accepts ints (and bools)
            try:
                inst = Holder(**{kw: other})
            except Exception:  # noqa
                continue
            if True:
                out.append(f"Holder({kw}={other!r}) was accepted: the attribute now holds {getattr(inst, kw)!r}, "
                           f"is_missing says {is_missing(getattr(inst, kw))}")
    if not (MISSING == MISSING and is_missing(MISSING) and not not_missing(MISSING) and when_missing(MISSING, 5) == 5):
        out.append("predicates disagree on MISSING itself")
    for act in (lambda: MISSING.x, lambda: setattr(MISSING, "x", 1), lambda: delattr(MISSING, "x")):
        try:
            act()
            out.append("attribute access / modification was accepted")
        except AttributeError:
            pass
    # ... also by the routes that bypass the class's own __setattr__ (State.__init__ itself stores through object.__setattr__)
    for label, act in (("object.__setattr__(MISSING, 'marker', 1)", lambda: object.__setattr__(MISSING, "marker", 1)),
                       ("vars(MISSING)", lambda: vars(MISSING)),
                       ("MISSING.__dict__", lambda: MISSING.__dict__),
                       ("weakref.ref(MISSING)", lambda: __import__("weakref").ref(MISSING))):
        try:
            act()
            out.append(f"{label} succeeded: MISSING has storage of its own, an attribute can be attached to the singleton")
        except (AttributeError, TypeError):
            pass
    # the one attribute every object has without storage of its own: its class (assignable between layout-compatible classes)

    class Present:
        __slots__ = ()

        def __bool__(self):
            return True
    original = type(MISSING)
    try:
        try:
            MISSING.__class__ = Present
            out.append("MISSING.__class__ = <another class with empty __slots__> was accepted: the singleton is now truthy and no "
                       "longer a Missing")
        except (AttributeError, TypeError):
            pass
    finally:
        if type(MISSING) is not original:
            object.__setattr__(MISSING, "__class__", original)
    return out


def main():
    sys.stdin.read()
    p = problems()
    if p:
        print(json.dumps(dict(reproduced=True, detail=dict(problems=p[:6]), cases_tried=1)))
    else:
        print(json.dumps(dict(reproduced=False, cases_tried=1, detail="statement held natively")))


if __name__ == "__main__":
    main()
