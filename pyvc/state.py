"""Symbolic state of one explored path: path condition, heap, obligations, forking."""
from __future__ import annotations

import time
from dataclasses import dataclass, field

import z3

from . import vals as V
from .vals import Val, I, B, R


class Unsupported(Exception):
    """Construct outside the modelled subset => the function is *undecided*, never a violation."""


class PathEnd(Exception):
    """The current path stops here (infeasible, or end of a loop body)."""


class PyRaise(Exception):
    def __init__(self, val: z3.ExprRef, origin: str = "") -> None:
        super().__init__(origin)
        self.val = val
        self.origin = origin


class PyReturn(Exception):
    def __init__(self, val: z3.ExprRef) -> None:
        self.val = val


class PyBreak(Exception):
    pass


class PyContinue(Exception):
    pass


@dataclass
class Obl:
    name: str
    pc: list
    goal: z3.ExprRef
    labels: list[str]
    kind: str = "property"          # property | aux | assert | frame | canary | cover | lemma
    note: str = ""
    meta: dict = field(default_factory=dict)   # values of interest for replay (name -> term)
    hints: list = field(default_factory=list)  # extra constraints to look for small counter-models


# ghost / container fields with non-default sorts.  Default field sort: Int(address) -> Val
FIELD_SORTS: dict[str, z3.SortRef] = {
    "$arr": z3.ArraySort(I, V.ArrIV),   # sequence contents
    "$lo": V.ArrII,
    "$hi": V.ArrII,
    "$dhas": z3.ArraySort(I, V.ArrVB),  # dict: membership
    "$dval": z3.ArraySort(I, V.ArrVV),  # dict: value of key
    "$dpos": z3.ArraySort(I, V.ArrVI),  # dict: position of key in insertion order window
}

def has_quantifier(f) -> bool:
    seen = set()
    todo = [f]
    while todo:
        t = todo.pop()
        if z3.is_quantifier(t):
            return True
        i = t.get_id()
        if i in seen:
            continue
        seen.add(i)
        todo.extend(t.children())
    return False


class QFact:
    """A universally quantified fact  forall x. fn(x)  that the engine can also instantiate by
    hand at the index / key terms the executed code actually reads (the path solver is ground)."""

    def __init__(self, fn, sort=None, pattern=None, name: str = "q") -> None:
        self.fn = fn
        self.sort = sort if sort is not None else I
        self.pattern = pattern          # optional callable(x) -> pattern term
        self.name = name

    def forall(self):
        x = z3.Const(f"{self.name}!x", self.sort)
        body = self.fn(x)
        if self.pattern is not None:
            try:
                p = self.pattern(x)
                if _pattern_ok(p):
                    return z3.ForAll([x], body, patterns=[p])
            except z3.Z3Exception:
                pass
        return z3.ForAll([x], body)

    def at(self, t):
        return self.fn(t)


def _pattern_ok(t) -> bool:
    todo = [t]
    while todo:
        x = todo.pop()
        if z3.is_quantifier(x):
            return False
        if z3.is_app(x) and x.decl().kind() in (z3.Z3_OP_ITE, z3.Z3_OP_AND, z3.Z3_OP_OR, z3.Z3_OP_NOT,
                                                z3.Z3_OP_EQ, z3.Z3_OP_IMPLIES):
            return False
        todo.extend(x.children())
    return True


ALLOC_BASE = 1_000_000      # addresses >= ALLOC_BASE are allocated during the path (numerals)


class State:
    def __init__(self, engine, decisions: list[int]) -> None:
        self.engine = engine
        self.ct: V.ClassTable = engine.ct
        self.decisions = list(decisions)
        self.taken: list[int] = []
        self.labels: list[str] = []
        self.new_branches: list[list[int]] = []
        self.pc: list[z3.ExprRef] = []
        self.heap: dict[str, z3.ExprRef] = {}
        self.heap0: dict[str, z3.ExprRef] = {}
        self.obligations: list[Obl] = []
        self.ghost: dict = {}
        self.events: list = []
        self.funs: list = []                 # python-side callables, index = fid
        self.strs: dict[str, int] = engine.strs
        self.counters: dict[str, int] = {}
        self.alloc_n = 0
        self.alloc_class: dict[int, int] = {}    # numeral address -> class id
        self.class_hints: dict[str, int] = {}    # str(addr term) -> class id (symbolic inputs)
        # the path solver is ground (quantified facts are dropped): feasibility is over-approximated,
        # entailment under-approximated - both are the safe direction
        self.solver = engine.path_solver()
        self.solver.push()
        self.clock: z3.ExprRef | None = None     # last reading of the monotonic clock (Real)
        self.depth = 0
        self.meta: dict[str, z3.ExprRef] = {}
        self.contract = None
        self.cover_hits: set[str] = set()
        self.no_fork = 0
        self.hints: list = []
        self.qfacts: list[QFact] = []
        self._inst_done: set = set()

    # ------------------------------------------------------------------ symbols
    def fresh(self, name: str, sort: z3.SortRef = None) -> z3.ExprRef:
        n = self.counters.get(name, 0)
        self.counters[name] = n + 1
        return z3.Const(f"{name}!{n}", sort if sort is not None else Val)

    def fresh_val(self, name: str = "v") -> z3.ExprRef:
        return self.fresh(name, Val)

    def intern_str(self, s: str) -> z3.ExprRef:
        if s not in self.strs:
            self.strs[s] = len(self.strs)
        return V.VStr(z3.IntVal(self.strs[s]))

    def reg_fun(self, obj) -> z3.ExprRef:
        self.funs.append(obj)
        return V.VFun(z3.IntVal(len(self.funs) - 1))

    def fun_of(self, term: z3.ExprRef):
        """Python-side callable behind a VFun(<numeral>) term, else None."""
        t = self.simp(term)
        if V.app_name(t) == "VFun" and z3.is_int_value(t.arg(0)):
            k = t.arg(0).as_long()
            if 0 <= k < len(self.funs):
                return self.funs[k]
        return None

    def simp(self, term: z3.ExprRef) -> z3.ExprRef:
        return z3.simplify(term)

    # ------------------------------------------------------------------ path condition
    def assume(self, f) -> None:
        if isinstance(f, QFact):
            self.qfacts.append(f)
            f = f.forall()
        if isinstance(f, bool):
            if not f:
                raise PathEnd("assume False")
            return
        f = z3.simplify(f)
        if z3.is_true(f):
            return
        if z3.is_false(f):
            raise PathEnd("assume false")
        self.pc.append(f)
        if not has_quantifier(f):
            self.solver.add(f)

    def feasible(self, f=None) -> bool:
        self.solver.push()
        try:
            if f is not None:
                self.solver.add(f)
            r = self.solver.check()
        finally:
            self.solver.pop()
        return r != z3.unsat

    def entails(self, f) -> bool:
        """pc => f, decided quickly (unknown counts as 'no')."""
        f = z3.simplify(f)
        if z3.is_true(f):
            return True
        self.solver.push()
        try:
            self.solver.add(z3.Not(f))
            r = self.solver.check()
        finally:
            self.solver.pop()
        return r == z3.unsat

    def fork(self, tag: str, alts: list[tuple[str, object]]) -> int:
        """Choose one of mutually exhaustive alternatives; register the others for later."""
        k = len(self.taken)
        if k < len(self.decisions):
            j = self.decisions[k]
        else:
            feas = []
            for j2, (_, c) in enumerate(alts):
                c2 = z3.simplify(c) if not isinstance(c, bool) else z3.BoolVal(c)
                if z3.is_false(c2):
                    continue
                if z3.is_true(c2) or self.feasible(c2):
                    feas.append(j2)
            if not feas:
                raise PathEnd(f"no feasible alternative at {tag}")
            if self.no_fork and len(feas) > 1:
                raise Unsupported(f"branching inside a summarised expression ({tag})")
            j = feas[0]
            for j2 in feas[1:]:
                self.new_branches.append(self.taken + [j2])
        self.taken.append(j)
        label, cond = alts[j]
        self.labels.append(f"{tag}:{label}")
        self.assume(cond)
        return j

    def decide(self, cond: z3.ExprRef, tag: str) -> bool:
        """Fork on a Bool term; returns the Python truth value taken on this path."""
        c = z3.simplify(cond)
        if z3.is_true(c):
            return True
        if z3.is_false(c):
            return False
        return self.fork(tag, [("T", c), ("F", z3.Not(c))]) == 0

    # ------------------------------------------------------------------ heap
    def field_array(self, fld: str) -> z3.ExprRef:
        if fld not in self.heap:
            sort = FIELD_SORTS.get(fld, V.ArrIV)
            arr = z3.Const(f"H0.{fld}", sort)
            self.heap[fld] = arr
            self.heap0[fld] = arr
        return self.heap[fld]

    def get(self, ref: z3.ExprRef, fld: str) -> z3.ExprRef:
        a = ref if ref.sort() == I else V.addr(ref)
        return z3.simplify(z3.Select(self.field_array(fld), a))

    def put(self, ref: z3.ExprRef, fld: str, val: z3.ExprRef) -> None:
        a = ref if ref.sort() == I else V.addr(ref)
        self.heap[fld] = z3.Store(self.field_array(fld), z3.simplify(a), val)

    def havoc_field(self, fld: str) -> None:
        self.field_array(fld)
        sort = FIELD_SORTS.get(fld, V.ArrIV)
        self.heap[fld] = self.fresh(f"H.{fld}", sort)

    def snapshot_heap(self) -> dict[str, z3.ExprRef]:
        return dict(self.heap)

    def old(self, snap: dict, ref: z3.ExprRef, fld: str) -> z3.ExprRef:
        a = ref if ref.sort() == I else V.addr(ref)
        if fld not in snap:
            self.field_array(fld)
            arr = self.heap0[fld]
        else:
            arr = snap[fld]
        return z3.simplify(z3.Select(arr, a))

    def alloc(self, cls: str | int) -> z3.ExprRef:
        c = cls if isinstance(cls, int) else self.ct.id(cls)
        a = ALLOC_BASE + self.alloc_n
        self.alloc_n += 1
        self.alloc_class[a] = c
        self.assume(V.class_of(z3.IntVal(a)) == c)
        return V.VRef(z3.IntVal(a))

    def sym_ref(self, name: str, cls: str | int | None = None) -> z3.ExprRef:
        """A symbolic pre-existing object (address below ALLOC_BASE)."""
        a = self.fresh(name, I)
        self.assume(z3.And(a >= 0, a < ALLOC_BASE))
        if cls is not None:
            self.declare_class(V.VRef(a), cls)
        return V.VRef(a)

    def declare_class(self, ref: z3.ExprRef, cls: str | int) -> None:
        c = cls if isinstance(cls, int) else self.ct.id(cls)
        a = self.simp(V.addr(ref))
        self.assume(V.class_of(a) == c)
        self.class_hints[str(a)] = c

    def class_id_of(self, val: z3.ExprRef) -> int | None:
        """Concrete class id of a value when it can be determined."""
        t = self.simp(val)
        n = V.app_name(t)
        ct = self.ct
        if n == "VNone":
            return ct.id("NoneType")
        if n == "VBool":
            return ct.id("bool")
        if n == "VInt":
            return ct.id("int")
        if n == "VFloat":
            return ct.id("float")
        if n == "VStr":
            return ct.id("str")
        if n == "VTup":
            return ct.id("tuple")
        if n == "VFun":
            return ct.id("function")
        if n == "VCls":
            return ct.id("type")
        if n == "VRef":
            a = t.arg(0)
            if z3.is_int_value(a):
                return self.alloc_class.get(a.as_long())
            h = self.class_hints.get(str(a))
            if h is not None:
                return h
        # solver assisted: is the class determined by the path condition?
        if self.entails(V.is_ref(t)):
            a = self.simp(V.addr(t))
            h = self.class_hints.get(str(a))
            if h is not None:
                return h
            self.solver.push()
            try:
                if self.solver.check() == z3.sat:
                    m = self.solver.model()
                    cand = m.eval(V.class_of(a), model_completion=True)
                else:
                    cand = None
            finally:
                self.solver.pop()
            if cand is not None and z3.is_int_value(cand) and self.entails(V.class_of(a) == cand):
                return cand.as_long()
            return None
        for name, tester in (("NoneType", V.is_none), ("bool", V.is_bool), ("int", V.is_int),
                             ("float", V.is_float), ("str", V.is_str), ("tuple", V.is_tup),
                             ("function", V.is_fun), ("type", V.is_cls)):
            if self.entails(tester(t)):
                return ct.id(name)
        return None

    # ------------------------------------------------------------------ obligations
    def instantiate_at(self, t: z3.ExprRef) -> None:
        """Hand-instantiate the registered quantified facts at a term the code reads."""
        key = (t.get_id(), len(self.qfacts))
        for q in self.qfacts:
            if q.sort == t.sort():
                k = (id(q), t.get_id())
                if k in self._inst_done:
                    continue
                self._inst_done.add(k)
                self.assume(q.at(t))

    def check(self, name: str, goal, kind: str = "property", note: str = "", meta: dict | None = None) -> None:
        if isinstance(goal, QFact):
            goal = goal.forall()
        if isinstance(goal, bool):
            goal = z3.BoolVal(goal)
        m = dict(self.meta)
        if meta:
            m.update(meta)
        self.obligations.append(Obl(name, list(self.pc), goal, list(self.labels), kind, note, m, list(self.hints)))

    def cover(self, name: str) -> None:
        self.cover_hits.add(name)

    # ------------------------------------------------------------------ clock (S1, S7)
    def read_clock(self) -> z3.ExprRef:
        t = self.fresh("now", R)
        if self.clock is None:
            self.assume(t >= 0)
        else:
            self.assume(t >= self.clock)
        self.clock = t
        return t
