"""Debug runner: explore + discharge the contracts of one property, print a table."""
import sys, time, importlib
from pyvc.engine import Engine, explore
from pyvc.solve import discharge

def main(prop, only=None):
    mod = importlib.import_module(f"contracts.{prop}")
    for c in (list(mod.CONTRACTS) + (list(mod.extra_contracts()) if hasattr(mod, 'extra_contracts') else [])):
        if only and only not in c.name:
            continue
        eng = Engine()
        t0 = time.time()
        res = explore(eng, c)
        print(f"== {c.name}: paths={res['paths']} obligations={len(res['obligations'])} explore={res['explore_s']:.1f}s")
        for u in res["undecided"]:
            print("   UNDECIDED:", u)
        agg = {}
        for o in res["obligations"]:
            r = discharge(eng, o, 8000, fallback=False)
            a = agg.setdefault((o.name, o.kind), {"unsat": 0, "sat": 0, "unknown": 0, "t": 0.0, "ex": None})
            a[r["status"]] += 1
            a["t"] += r["time"]
            if r["status"] != "unsat" and a["ex"] is None and o.kind != "canary":
                a["ex"] = (o.labels, r.get("model", r.get("reason")))
        for (n, k), a in sorted(agg.items()):
            print(f"   {n:55s} {k:9s} unsat={a['unsat']:3d} sat={a['sat']:3d} unk={a['unknown']:3d} {a['t']:.2f}s")
            if a["ex"] is not None:
                print("       path:", " / ".join(a["ex"][0]))
                m = a["ex"][1]
                if isinstance(m, dict):
                    print("       model:", {k: v for k, v in m.items() if k != "$consts"})
                else:
                    print("       reason:", m)
        print(f"   total {time.time()-t0:.1f}s")

if __name__ == "__main__":
    main(sys.argv[1], sys.argv[2] if len(sys.argv) > 2 else None)
