"""./check <ID> quick|thorough   - decide one property on /repo's current working tree.
   ./check replay <file>        - re-run a recorded counterexample natively.
   ./check baseline             - (maintenance) rewrite obligations.baseline.json from the current tree.

Exit codes: 0 held (every obligation discharged, or only listed known findings refuted),
            1 violation (some obligation refuted; VIOLATION line printed),
            2 undecided (unknown / timeout / construct outside the subset / function missing),
            3 the checker itself is broken (crash, vacuous contract, solver disagreement).
"""
from __future__ import annotations

import hashlib
import importlib
import json
import multiprocessing as mp
import os
import re
import subprocess
import sys
import time
import traceback

ROOT = os.path.dirname(os.path.dirname(os.path.abspath(__file__)))
sys.path.insert(0, ROOT)

QUICK_TIMEOUT_MS = 10000
THOROUGH_TIMEOUT_MS = 120000


# ------------------------------------------------------------------------------------------------
def contracts_of(mod):
    """CONTRACTS of a property module plus its late-bound ones (`extra_contracts()`: contracts borrowed from modules that
    themselves import this one)."""
    return list(mod.CONTRACTS) + (list(mod.extra_contracts()) if hasattr(mod, "extra_contracts") else [])


def _job(args):
    prop, idx, tier = args
    import z3
    from pyvc.engine import Engine, explore
    from pyvc.solve import discharge, smt2_of
    from pyvc.repo import source_hash, FunctionNotFound
    mod = importlib.import_module(f"contracts.{prop}")
    c = contracts_of(mod)[idx]
    eng = Engine()
    out = dict(contract=c.name, file=c.file, func=c.func, lemma=c.is_lemma, obligations=[], undecided=[],
               error=None, paths=0, used=[], assumptions=list(c.assumptions), trusted=list(c.trusted),
               source_hash=None, explore_s=0.0)
    try:
        if not c.is_lemma:
            try:
                node, info, _ = eng.repo.find(c.file, c.func)
                out["source_hash"] = source_hash(info, node)
            except FunctionNotFound as e:
                out["undecided"].append(f"{c.name}: function not found ({e})")
                return out
        res = explore(eng, c, budget_s=300 if tier == "quick" else 1500)
        out["paths"] = res["paths"]
        out["undecided"] = res["undecided"]
        out["used"] = sorted(res["used"])
        out["explore_s"] = res["explore_s"]
        tmo = QUICK_TIMEOUT_MS if tier == "quick" else THOROUGH_TIMEOUT_MS
        global _CTX
        obls = res["obligations"]
        real_idx = [i for i, o in enumerate(obls) if o.kind != "canary"]
        canary_idx = [i for i, o in enumerate(obls) if o.kind == "canary"]
        _CTX = (eng, obls, tmo, tier)
        nproc = max(1, min(INNER_PROCS, len(real_idx) // 12))
        if nproc > 1:
            with mp.get_context("fork").Pool(nproc) as pool:
                recs = pool.map(_discharge_idx, real_idx, chunksize=4)
        else:
            recs = [_discharge_idx(i) for i in real_idx]
        samples = 0
        for rec in recs:
            if rec.get("smt2_sample") and samples >= 1:
                rec.pop("smt2_sample")
            elif rec.get("smt2_sample"):
                samples += 1
            out["obligations"].append(rec)
        for i in canary_idx:
            o = obls[i]
            r = discharge(eng, o, 4000, fallback=False)
            if r["status"] == "unknown":
                # heavily quantified contracts: fall back to the ground part of the path condition
                import z3 as _z3
                from pyvc.state import has_quantifier as _hq
                from pyvc.solve import background_for as _bg
                s2 = _z3.Solver()
                s2.set("timeout", 4000)
                for ax in _bg(eng, list(o.pc)):
                    if not _hq(ax):
                        s2.add(ax)
                for f in o.pc:
                    if not _hq(f):
                        s2.add(f)
                if s2.check() == _z3.sat:
                    r = dict(status="sat", time=r["time"], backend="z3-5.1(api, ground part only)")
            out["obligations"].append(dict(name=o.name, kind=o.kind, status=r["status"], time=r["time"],
                                           backend=r["backend"], labels=o.labels))
            if r["status"] == "sat":
                break
    except Exception:
        out["error"] = traceback.format_exc()
    return out


_CTX = None
INNER_PROCS = 8


def _discharge_idx(i):
    from pyvc.solve import discharge, smt2_of
    eng, obls, tmo, tier = _CTX
    o = obls[i]
    r = discharge(eng, o, tmo, fallback=(tier == "thorough"))
    if r["status"] == "unknown":
        # solver budgets are wall-clock: with every core busy (several checks side by side) an answer that takes a second alone
        # may not arrive in time.  An undecided obligation is rare and gets one more attempt with three times the budget.
        r2 = discharge(eng, o, tmo * 3, fallback=(tier == "thorough"))
        if r2["status"] != "unknown":
            r2["backend"] += " (second attempt, 3x budget)"
            r2["time"] += r["time"]
            r = r2
    rec = dict(name=o.name, kind=o.kind, status=r["status"], time=r["time"], backend=r["backend"],
               labels=o.labels, note=o.note)
    if r["status"] == "sat":
        rec["model"] = r.get("model")
        rec["smt2"] = smt2_of(eng, o)[-6000:]
    elif r["status"] == "unknown":
        rec["reason"] = r.get("reason")
    elif o.kind == "property" and i % 7 == 0:
        rec["smt2_sample"] = smt2_of(eng, o)[-2500:]
    if tier == "thorough" and r["status"] == "unsat" and r["backend"].startswith("z3-5.1"):
        rec["second"] = _second_opinion(eng, o)
    return rec


def _second_opinion(eng, o):
    """Thorough tier: re-check an unsat with the distribution z3 4.8.12 on the SMT-LIB dump."""
    from pyvc.solve import smt2_of
    if not os.path.exists("/usr/bin/z3"):
        return "unavailable"
    try:
        p = subprocess.run(["/usr/bin/z3", "-T:30", "-in"], input="(set-logic ALL)\n" + smt2_of(eng, o),
                           capture_output=True, text=True, timeout=40)
        ans = (p.stdout.strip().splitlines() or ["?"])[0]
        return ans if ans in ("unsat", "sat", "unknown", "timeout") else "error"
    except Exception:
        return "error"


# ------------------------------------------------------------------------------------------------
def load_known():
    p = os.path.join(ROOT, "known_findings.json")
    if not os.path.exists(p):
        return []
    with open(p) as fh:
        return json.load(fh).get("findings", [])


def match_known(known, prop, full_name, labels):
    for k in known:
        if k.get("status") != "known" or k.get("property") != prop:
            continue
        if not re.fullmatch(k["obligation"], full_name):
            continue
        lab = "/".join(labels)
        if all(re.search(p, lab) for p in k.get("path_patterns", [])):
            return k
    return None


THOROUGH_ENV = {
    "C01": {"C01_TREES": "20000"}, "C03": {"C03_PROGRAMS": "30000"}, "C05": {"C05_DEPTH": "5", "C05_BUDGET": "40000"},
    "C09": {"C09_PROGRAMS": "1500"}, "C10": {"C10_PROGRAMS": "100000"}, "C12": {"C12_MAXLEN": "6", "C12_RANDOM": "200000"}, "C17": {"C17_MAXLEN": "7"},
    "C19": {"C19_TREES": "100000"}, "C02": {"SCOPE_LEVEL": "3"}, "C06": {"SCOPE_LEVEL": "3"}, "C07": {"SCOPE_LEVEL": "3"},
    "C08": {"SCOPE_LEVEL": "3"},
}


def run_replay(prop, record, tier="quick"):
    """Native replay of a refuted obligation.  Returns dict(reproduced, detail)."""
    script = os.path.join(ROOT, "harness", f"{prop}_replay.py")
    if not os.path.exists(script):
        return dict(reproduced=False, detail="no native replay builder for this property")
    extra = THOROUGH_ENV.get(prop, {}) if tier == "thorough" else {}
    try:
        p = subprocess.run(["/venv/bin/python", script], input=json.dumps(record), capture_output=True,
                           text=True, timeout=2400 if tier == "thorough" else 240, cwd=ROOT,
                           env={**os.environ, **extra, "PYTHONPATH": os.environ.get("VERIF_REPO", "/repo") + "/src"})
        line = (p.stdout.strip().splitlines() or [""])[-1]
        try:
            return json.loads(line)
        except json.JSONDecodeError:
            # the scenario program itself died.  When the innermost frame of the traceback is library code (not the harness),
            # the library raised where the unchanged tree does not: that is a native failure, with the exception as witness.
            # A crash inside the harness (e.g. it reaches for a private name a refactoring renamed) stays "not understood".
            # (exception groups print their members behind a "  | " gutter and end with a "+----" rule: normalised away)
            err = [re.sub(r"^[\s|+]*(-+\s*\d*\s*-+)?", "", ln) for ln in p.stderr.splitlines()]
            err = [ln for ln in err if ln.strip()]
            frames = [ln for ln in err if ln.startswith('File "')]
            last = (err or [""])[-1]
            repo_src = os.environ.get("VERIF_REPO", "/repo") + "/src/haiway/"
            if p.returncode != 0 and frames and repo_src in frames[-1]:
                where = frames[-1].strip()
                return dict(reproduced=True, cases_tried=1,
                            detail=dict(problem=f"the native scenario program was aborted by an exception raised inside the library: "
                                                f"{last[:300]} ({where[:200]})"))
            if p.returncode != 0 and frames:
                # ... and when it died in the harness's own frames: on the unchanged tree the same program runs to its end, so the
                # library handed the harness something it cannot use (a decorator that returns None, a class that cannot be
                # declared, a call that needs other arguments).  The one exception: the harness reaching for a *private* name
                # of the library that is no longer there (a renaming refactor) - that is the harness's problem, not a verdict.
                # (the *missing* name decides, not the class named in the message: "'_AsyncCache' object has no attribute
                # '__name__'" is a lost dunder attribute of a wrapper - a verdict -, not a renamed private member)
                m_name = re.search(r"has no attribute '(\w+)'|cannot import name '(\w+)'|name '(\w+)' is not defined|^KeyError: '(\w+)'", last)
                missing_name = next((g for g in (m_name.groups() if m_name else ()) if g), "")
                private = (last.startswith(("AttributeError", "ImportError", "NameError", "KeyError")) and "NoneType" not in last
                           and missing_name.startswith("_") and not (missing_name.startswith("__") and missing_name.endswith("__")))
                if not private:
                    return dict(reproduced=True, cases_tried=1,
                                detail=dict(problem=f"the native scenario program, which runs to its end on the unchanged tree, was "
                                                    f"aborted: {last[:300]} ({frames[-1].strip()[:160]})"))
            return dict(reproduced=False, detail=f"replay builder output not understood: {p.stdout[-500:]} {p.stderr[-500:]}")
    except subprocess.TimeoutExpired:
        # the scenario programs run in virtual time and finish within seconds on the unchanged tree: one that does not come back
        # is spinning inside the library (a loop that no longer makes progress)
        return dict(reproduced=True, cases_tried=1,
                    detail=dict(problem="the native scenario program did not finish within its time limit (it takes seconds on the "
                                        "unchanged tree): the library spins or blocks where it used to make progress"))


def open_obls_pre(undecided):
    """True when undecided obligations exist (then the native failure is attributed to them below)."""
    return bool(undecided)


def check(prop: str, tier: str) -> int:
    t0 = time.time()
    seed = int(os.environ.get("VERIF_SEED", "0") or 0)
    try:
        mod = importlib.import_module(f"contracts.{prop}")
    except ModuleNotFoundError:
        print(f"no contracts for {prop}")
        return 3
    n = len(contracts_of(mod))
    jobs = [(prop, i, tier) for i in range(n)]
    from concurrent.futures import ProcessPoolExecutor
    with ProcessPoolExecutor(max_workers=min(16, max(1, n)), mp_context=mp.get_context("fork")) as ex:
        results = list(ex.map(_job, jobs))

    known = load_known()
    violations, known_hits, undecided, broken = [], [], [], []
    n_obl = n_dis = 0
    solver_s = 0.0
    backends: dict[str, int] = {}
    fn_records = []
    samples = []
    trusted, assumptions, used = set(), [], set()
    obl_names = set()
    for r in results:
        if r["error"]:
            broken.append(f"{r['contract']}: {r['error'].strip().splitlines()[-1]}")
            sys.stderr.write(r["error"])
        undecided.extend(r["undecided"])
        trusted.update(r["trusted"])
        used.update(r["used"])
        for a in r["assumptions"]:
            if a not in assumptions:
                assumptions.append(a)
        real = [o for o in r["obligations"] if o["kind"] != "canary"]
        canaries = [o for o in r["obligations"] if o["kind"] == "canary"]
        if not r["error"] and not r["undecided"]:
            if not real:
                broken.append(f"{r['contract']}: zero obligations generated (vacuous)")
            refuted_here = any(o["status"] == "sat" and o["kind"] not in ("canary", "frame") for o in r["obligations"])
            if not r["lemma"] and not refuted_here and not any(c["status"] == "sat" for c in canaries):
                broken.append(f"{r['contract']}: no satisfiable canary - requires/invariants may be contradictory")
        fn_records.append(dict(contract=r["contract"], file=r["file"], function=r["func"], source_sha256_16=r["source_hash"],
                               paths=r["paths"], obligations=len(real),
                               discharged=sum(1 for o in real if o["status"] == "unsat"),
                               explore_s=round(r["explore_s"], 2)))
        for o in real:
            full = f"{r['contract']}/{o['name']}"
            obl_names.add(full)
            n_obl += 1
            solver_s += o["time"]
            backends[o["backend"]] = backends.get(o["backend"], 0) + 1
            if "smt2_sample" in o and len(samples) < 3:
                samples.append(dict(obligation=full, path="/".join(o["labels"]), smt2_tail=o["smt2_sample"]))
            if o.get("second") == "sat":
                broken.append(f"{full}: solver disagreement (z3 5.1 unsat, z3 4.8.12 sat)")
            if o["status"] == "unsat":
                n_dis += 1
            elif o["status"] == "sat" and o["kind"] == "frame":
                # a syntactic frame audit no longer recognises the code shape: the rely it establishes is
                # open, which is "undecided", not a refutation (the native stand-in is consulted below)
                undecided.append(f"{full}: frame audit not established for the current source ({o.get('note', '')})")
            elif o["status"] == "sat":
                k = match_known(known, prop, full, o["labels"])
                if k is not None:
                    known_hits.append((k, full, o))
                    n_obl -= 1          # reported separately: a listed known finding is neither proved nor counted
                else:
                    violations.append((full, o))
            else:
                undecided.append(f"{full}: solver answered unknown ({o.get('reason')}) on path {'/'.join(o['labels'][-6:])}")

    # vanished obligations (baseline of names committed with the framework): informational, unless a whole
    # contract lost every obligation it used to generate (then its verdict would be vacuous)
    vanished = []
    bl_path = os.path.join(ROOT, "obligations.baseline.json")
    if os.path.exists(bl_path):
        with open(bl_path) as fh:
            bl = json.load(fh).get(prop, [])
        vanished = [b for b in bl if b not in obl_names]
        by_contract = {}
        for b in bl:
            by_contract.setdefault(b.rsplit("/", 1)[0], []).append(b)
        for cname, names in by_contract.items():
            if all(n in vanished for n in names) and not broken and not any(cname in u for u in undecided):
                undecided.append(f"{cname}: none of its {len(names)} baseline obligations was generated")

    # the trusted library specifications (T-*) are exercised against the CPython that runs the repository's tests: a
    # disagreement means the checker's own trusted base is wrong here (exit 3), never a property violation
    conf = dict(ok=None, checked=0, failed=["not run"])
    try:
        cp = subprocess.run(["/venv/bin/python", os.path.join(ROOT, "harness", "trusted_conformance.py")], capture_output=True,
                            text=True, timeout=120, cwd=ROOT)
        conf = json.loads((cp.stdout.strip().splitlines() or ["{}"])[-1])
    except Exception as e:  # noqa
        conf = dict(ok=False, checked=0, failed=[f"conformance run failed: {e!r}"])
    if not conf.get("ok"):
        broken.append("trusted specification(s) disagree with this CPython: " + "; ".join(map(str, conf.get("failed", [])))[:400])

    # bounded stand-ins (never counted as proved): the property's native harness evaluates the statement
    # literally on the real code over an enumerated / sampled scenario space
    bounded = []
    t_b = time.time()
    rep0 = run_replay(prop, dict(property=prop, obligation=None, path_labels=[], model=None), tier)
    native_part = dict(name="native-harness", kind="bounded",
                       bound=rep0.get("bound", "scenario space enumerated by harness/%s_replay.py (%s tier)" % (prop, tier)),
                       cases=rep0.get("cases_tried"), seconds=round(time.time() - t_b, 2),
                       held=not rep0.get("reproduced", False))
    if rep0.get("reproduced"):
        native_part["failure"] = rep0.get("detail")
    bounded.append(native_part)
    if hasattr(mod, "bounded"):
        try:
            bounded = mod.bounded(tier, seed)
        except Exception:
            broken.append("bounded stand-in crashed: " + traceback.format_exc().strip().splitlines()[-1])
    for b in bounded:
        if b.get("failure") and not open_obls_pre(undecided):
            violations.append((f"{prop}/bounded:{b['name']}", dict(labels=["bounded"], model=b["failure"], smt2="",
                                                                   native=b["failure"])))

    # an obligation the solver left open (typically a counter-model it cannot construct): run the
    # property's native harness as the bounded stand-in; a concrete native failure is a violation
    open_obls = list(undecided)
    if open_obls and not violations and not broken:
        first = open_obls[0].split(": solver answered")[0].split(": ")[0]
        rep = rep0
        if rep.get("reproduced"):
            violations.append((first, dict(labels=["undecided-by-solver", "bounded-native-stand-in"], model=None,
                                           smt2=open_obls[0], native=rep.get("detail"))))
            undecided = [u for u in undecided if u not in open_obls] + \
                [f"(solver left {len(open_obls)} obligation(s) open; the native stand-in reproduced a failure)"]

    # known findings that only the native harness can exhibit (no obligation reaches them): replayed with their switch on;
    # while they reproduce they are printed as KNOWN-FINDING (and suppress nothing else)
    native_known = []
    for k in known:
        if k.get("status") == "known" and k.get("property") == prop and k.get("native_only"):
            script = os.path.join(ROOT, "harness", f"{prop}_replay.py")
            try:
                cp = subprocess.run(["/venv/bin/python", script], input="{}", capture_output=True, text=True, timeout=300, cwd=ROOT,
                                    env={**os.environ, **k.get("native_replay_env", {}),
                                         "PYTHONPATH": os.environ.get("VERIF_REPO", "/repo") + "/src"})
                rk = json.loads((cp.stdout.strip().splitlines() or ["{}"])[-1])
            except Exception:  # noqa
                rk = {}
            if rk.get("reproduced"):
                native_known.append(k)

    # ---- report
    os.makedirs(os.path.join(ROOT, "replays", prop), exist_ok=True)
    printed = set()
    for k in native_known:
        printed.add(k["what"])
        print(f"KNOWN-FINDING: property={prop} {k['what']}")
    for k, full, o in known_hits:
        key = k["what"]
        if key not in printed:
            printed.add(key)
            print(f"KNOWN-FINDING: property={prop} {k['what']}")
    exit_code = 0
    vio_lines = []
    seen_v = set()
    for full, o in violations:
        digest = hashlib.sha256(("/".join(o["labels"]) + full).encode()).hexdigest()[:10]
        short = re.sub(r"[^A-Za-z0-9_.:-]+", "_", full)[-80:]
        path = os.path.join("replays", prop, f"{short}-{digest}.json")
        record = dict(property=prop, obligation=full, path_labels=o["labels"], model=o.get("model"),
                      solver_output=o.get("smt2", "")[-4000:], tier=tier)
        if "native" in o:
            rep = dict(reproduced=True, detail=o["native"])
        else:
            rep = rep0 if not rep0.get("reproduced") else rep0
        record["native_replay"] = rep
        with open(os.path.join(ROOT, path), "w") as fh:
            json.dump(record, fh, indent=1, default=str)
        if full in seen_v:
            continue
        seen_v.add(full)
        suffix = "" if rep.get("reproduced") else " no-failing-input-found"
        vio_lines.append(f"VIOLATION property={prop} replay={path} obligation={full}{suffix}")
    for l in vio_lines:
        print(l)
    if broken:
        for b in broken:
            print(f"CHECKER-BROKEN: {b}")
        exit_code = 3
    elif vio_lines:
        exit_code = 1
    elif undecided:
        exit_code = 2
    for u in undecided[:20]:
        print(f"UNDECIDED: {u}")

    wall = time.time() - t0
    unrepaired = sorted({k["what"] for k, _, _ in known_hits} | {k["what"] for k in native_known})
    ev = dict(
        property_id=prop, tier=tier, seed=seed, level="proof",
        coverage=dict(
            obligations=n_obl, discharged=n_dis,
            checker_cmd=f"./check {prop} {tier}",
            trusted_base=sorted(trusted | {f"lib:{u}" for u in used}),
            samples=samples or [dict(note="no property obligation rendered")],
            functions_under_contract=fn_records,
            backends=backends, solver_s=round(solver_s, 2),
            undecided=undecided, refuted=[f for f, _ in violations],
            vanished_baseline_obligations=vanished[:20], known_findings_hit=unrepaired, known_finding_obligations_refuted=len(known_hits),
            bounded_parts=[{k: v for k, v in b.items() if k != "failure"} for b in bounded],
            trusted_spec_conformance=dict(facts_checked_natively=conf.get("checked"), failed=conf.get("failed"),
                                          script="harness/trusted_conformance.py"),
            exit_code=exit_code,
            explanation="obligations = verification conditions generated by pyvc from the current /repo source "
                        "(one per path and contract clause); discharged = answered unsat by an SMT solver",
        ),
        assumptions=assumptions + ["python semantics assumed by the encoding: DESIGN.md 3.2 (S1-S8)"],
        wall_s=round(wall, 2),
        violations=len(vio_lines),
    )
    # experiments against a scratch copy (VERIF_REPO=<dir>) must not overwrite the evidence of /repo
    ev_dir = os.path.join(ROOT, "evidence") if os.environ.get("VERIF_REPO", "/repo") == "/repo" else \
        os.path.join(os.environ.get("VERIF_REPO"), ".verif-evidence")
    os.makedirs(ev_dir, exist_ok=True)
    with open(os.path.join(ev_dir, f"{prop}.json"), "w") as fh:
        json.dump(ev, fh, indent=1, default=str)
    print(f"{prop} {tier}: contracts={n} obligations={n_obl} discharged={n_dis} refuted={len(violations)} "
          f"known={len(known_hits)} undecided={len(undecided)} wall={wall:.1f}s exit={exit_code}")
    return exit_code


def baseline():
    props = sorted(f[:-3] for f in os.listdir(os.path.join(ROOT, "contracts")) if re.fullmatch(r"C\d+\.py", f))
    out = {}
    for p in props:
        mod = importlib.import_module(f"contracts.{p}")
        from concurrent.futures import ProcessPoolExecutor
        with ProcessPoolExecutor(max_workers=16, mp_context=mp.get_context("fork")) as ex:
            results = list(ex.map(_job, [(p, i, "quick") for i in range(len(contracts_of(mod)))]))
        names = sorted({f"{r['contract']}/{o['name']}" for r in results for o in r["obligations"]
                        if o["kind"] != "canary"})
        out[p] = names
        print(p, len(names))
    with open(os.path.join(ROOT, "obligations.baseline.json"), "w") as fh:
        json.dump(out, fh, indent=1)


def replay(path: str) -> int:
    with open(path) as fh:
        record = json.load(fh)
    rep = run_replay(record["property"], record)
    print(json.dumps(rep, indent=1))
    return 1 if rep.get("reproduced") else 0


def known() -> int:
    """Replay every known (unrepaired) finding natively with its switch on: each must still reproduce on this tree."""
    rc = 0
    for k in load_known():
        if k.get("status") != "known":
            continue
        script = os.path.join(ROOT, "harness", f"{k['property']}_replay.py")
        p = subprocess.run(["/venv/bin/python", script], input="{}", capture_output=True, text=True, timeout=600, cwd=ROOT,
                           env={**os.environ, **k.get("native_replay_env", {}),
                                "PYTHONPATH": os.environ.get("VERIF_REPO", "/repo") + "/src"})
        try:
            rep = json.loads((p.stdout.strip().splitlines() or ["{}"])[-1])
        except json.JSONDecodeError:
            rep = {}
        ok = bool(rep.get("reproduced"))
        print(f"KNOWN-FINDING: property={k['property']} {'reproduced' if ok else 'NOT reproduced (repaired? then record it as fixed)'}: "
              f"{json.dumps(rep.get('detail'), default=str)[:300]}")
        rc = rc or (0 if ok else 2)
    return rc


def main(argv):
    if len(argv) >= 2 and argv[0] == "replay":
        return replay(argv[1])
    if argv and argv[0] == "baseline":
        baseline()
        return 0
    if argv and argv[0] == "known":
        return known()
    if argv and argv[0] == "selfcheck":
        from pyvc import selfcheck
        return selfcheck.main()
    if len(argv) < 1:
        print(__doc__)
        return 3
    prop = argv[0]
    tier = argv[1] if len(argv) > 1 else os.environ.get("VERIF_TIER", "quick")
    try:
        return check(prop, tier)
    except Exception:
        traceback.print_exc()
        print(f"CHECKER-BROKEN: {prop}: driver crashed")
        return 3


if __name__ == "__main__":
    sys.exit(main(sys.argv[1:]))
