"""Engine: class registry, loops, awaits, exploration of all paths of a function under contract."""
from __future__ import annotations

import ast
import os
import time
import traceback

import z3

from . import vals as V
from . import lib
from .vals import Val, I, B, R
from .repo import Repo, ModuleInfo, FunctionNotFound, source_hash
from .state import (State, Obl, Unsupported, PathEnd, PyRaise, PyReturn, PyBreak, PyContinue)
from .interp import (Interp, Env, FuncV, LibV, OracleV, AwaitableV, PartialV, CallArgs)

MUTATORS = {"append", "appendleft", "popleft", "pop", "extend", "clear", "move_to_end", "popitem",
            "update", "add", "remove", "discard", "setdefault", "insert"}


class RepoClass:
    def __init__(self, engine, node: ast.ClassDef, module: ModuleInfo, cid: int, bases: list) -> None:
        self.engine = engine
        self.node = node
        self.module = module
        self.name = node.name
        self.cid = cid
        self.bases = bases            # list[RepoClass]
        self._fields: set[str] | None = None

    def _body(self):
        out = []

        def visit(stmts):
            for s in stmts:
                if isinstance(s, ast.If) and isinstance(s.test, ast.Name) and s.test.id == "__debug__":
                    visit(s.body)
                else:
                    out.append(s)
        visit(self.node.body)
        return out

    def find_method(self, name: str):
        hit = None
        for s in self._body():
            if isinstance(s, (ast.FunctionDef, ast.AsyncFunctionDef)) and s.name == name:
                if not any(isinstance(d, ast.Name) and d.id == "overload" for d in s.decorator_list):
                    hit = s
        if hit is not None:
            return hit
        for b in self.bases:
            m = b.find_method(name)
            if m is not None:
                return m
        return None

    def owner_of(self, name: str):
        for s in self._body():
            if isinstance(s, (ast.FunctionDef, ast.AsyncFunctionDef)) and s.name == name:
                return self
        for b in self.bases:
            o = b.owner_of(name)
            if o is not None:
                return o
        return None

    def method_kind(self, m) -> str:
        for d in m.decorator_list:
            if isinstance(d, ast.Name):
                if d.id == "staticmethod":
                    return "static"
                if d.id == "classmethod":
                    return "class"
                if d.id == "property":
                    return "property"
        return "method"

    def fields(self) -> set[str]:
        if self._fields is None:
            f: set[str] = set()
            for s in self._body():
                if isinstance(s, (ast.FunctionDef, ast.AsyncFunctionDef)) and (s.args.posonlyargs or s.args.args):
                    selfname = (s.args.posonlyargs + s.args.args)[0].arg
                    for n in ast.walk(s):
                        if isinstance(n, ast.Attribute) and isinstance(n.ctx, ast.Store) \
                                and isinstance(n.value, ast.Name) and n.value.id == selfname:
                            f.add(n.attr)
                        if isinstance(n, ast.AnnAssign) and isinstance(n.target, ast.Attribute) \
                                and isinstance(n.target.value, ast.Name) and n.target.value.id == selfname:
                            f.add(n.target.attr)
                elif isinstance(s, ast.AnnAssign) and isinstance(s.target, ast.Name) and s.value is None:
                    if "ClassVar" not in ast.unparse(s.annotation):
                        f.add(s.target.id)       # annotated instance attribute (State / NamedTuple)
            for b in self.bases:
                f |= b.fields()
            self._fields = f
        return self._fields

    def annotated_fields(self) -> list[str]:
        return [s.target.id for s in self._body()
                if isinstance(s, ast.AnnAssign) and isinstance(s.target, ast.Name)]

    def is_namedtuple(self) -> bool:
        return any(isinstance(b, ast.Name) and b.id == "NamedTuple" for b in self.node.bases)

    def find_class_assign(self, name: str):
        for s in self._body():
            if isinstance(s, ast.Assign) and any(isinstance(t, ast.Name) and t.id == name for t in s.targets):
                return s.value
            if isinstance(s, ast.AnnAssign) and isinstance(s.target, ast.Name) and s.target.id == name \
                    and s.value is not None:
                return s.value
        for b in self.bases:
            v = b.find_class_assign(name)
            if v is not None:
                return v
        return None


class Engine:
    def __init__(self, repo: Repo | None = None, feas_timeout_ms: int = 3000) -> None:
        self.repo = repo or Repo()
        self.ct = V.ClassTable()
        self.strs: dict[str, int] = {}
        self.feas_timeout_ms = feas_timeout_ms
        self.class_infos: dict[tuple[str, str], RepoClass] = {}
        self._bg_cache = None
        self.state: State | None = None

    # ------------------------------------------------------------------ background axioms
    def background(self) -> list:
        key = len(self.ct.names)
        if self._bg_cache is None or self._bg_cache[0] != key:
            self._bg_cache = (key, V.subclass_axioms(self.ct) + lib.background_axioms(self.ct))
        return self._bg_cache[1]

    def path_solver(self) -> z3.Solver:
        from .state import has_quantifier
        key = len(self.ct.names)
        ps = getattr(self, "_path_solver", None)
        if ps is None or ps[0] != key:
            s = z3.Solver()
            s.set("timeout", self.feas_timeout_ms)
            for ax in self.background():
                if not has_quantifier(ax):
                    s.add(ax)
            self._path_solver = ps = (key, s)
        return ps[1]

    # ------------------------------------------------------------------ classes
    def class_info(self, node: ast.ClassDef, mod: ModuleInfo, it: Interp) -> RepoClass:
        key = (mod.name, node.name)
        if key in self.class_infos:
            return self.class_infos[key]
        bases: list[RepoClass] = []
        base_names: list[str] = []
        for b in node.bases:
            bn = b
            while isinstance(bn, ast.Subscript):
                bn = bn.value
            if isinstance(bn, ast.Name):
                name = bn.id
                if name in mod.symbols:
                    try:
                        bv = it.module_symbol(mod, name)
                    except Unsupported:
                        bv = None
                    if bv is not None and it.kind(bv) == "type":
                        c = it.st.simp(V.cid(bv))
                        if z3.is_int_value(c):
                            base_names.append(self.ct.name(c.as_long()))
                            info = self.ct.info.get(c.as_long())
                            if info is not None:
                                bases.append(info)
                            continue
                if name in self.ct.ids:
                    base_names.append(name)
        if not base_names:
            base_names = ["object"]
        uniq = f"{mod.name.split('.', 1)[-1]}.{node.name}" if node.name in self.ct.ids else node.name
        cid = self.ct.add(uniq, tuple(base_names))
        info = RepoClass(self, node, mod, cid, bases)
        self.ct.info[cid] = info
        self.class_infos[key] = info
        # new facts about the subclass relation for live solvers
        self._bg_cache = None
        if it is not None:
            n = len(self.ct.names)
            anc = self.ct.ancestors(cid)
            for b in range(n):
                it.st.solver.add(V.subclass(cid, b) if b in anc else z3.Not(V.subclass(cid, b)))
                if b != cid:
                    it.st.solver.add(z3.Not(V.subclass(b, cid)))
        return info

    def class_var(self, it: Interp, info: RepoClass, name: str, valnode) -> z3.ExprRef:
        """Class-level attribute.  ContextVars declared at class level become global objects."""
        key = f"$clsvar:{info.name}.{name}"
        g = it.st.ghost
        if key not in g:
            ov = it.st.contract.class_var(it, info, name) if it.st.contract is not None else None
            if ov is not None:
                g[key] = ov
            else:
                g[key] = it.eval(valnode, Env(info.module))
        return g[key]

    def set_class_var(self, it: Interp, c: int, name: str, val) -> None:
        info = self.ct.info.get(c)
        if info is None:
            raise Unsupported("store to library class attribute")
        it.st.ghost[f"$clsvar:{info.name}.{name}"] = val

    def global_override(self, it: Interp, mod: ModuleInfo, name: str):
        c = it.st.contract
        return c.global_value(it, mod, name) if c is not None else None

    def instantiate_override(self, it: Interp, info: RepoClass, cargs, node):
        c = it.st.contract
        return c.instantiate(it, info, cargs, node) if c is not None else None

    def callee_spec(self, it: Interp, fv: FuncV):
        c = it.st.contract
        if c is None:
            return None
        return c.callee(it, fv)

    def assert_mode(self, it: Interp, node) -> str:
        c = it.st.contract
        return c.assert_mode(it, node) if c is not None else "fork"

    # ------------------------------------------------------------------ hooks with defaults
    def opaque_binop(self, it, op, a, b, node):
        raise Unsupported(f"binary operator {type(op).__name__} on non-numeric values at line {getattr(node, 'lineno', '?')}")

    def opaque_getitem(self, it, obj, idx, node):
        c = it.st.contract
        if c is not None:
            r = c.getitem(it, obj, idx, node)
            if r is not None:
                return r
        raise Unsupported(f"subscript of unknown value at line {getattr(node, 'lineno', '?')}")

    def unknown_attr(self, it, obj, name, node):
        c = it.st.contract
        if c is not None:
            r = c.attr(it, obj, name, node)
            if r is not None:
                return r
        raise Unsupported(f"attribute .{name} of unmodelled value at line {getattr(node, 'lineno', '?')}")

    def getattr_default(self, it, obj, name, default, node):
        c = it.st.contract
        if c is not None:
            r = c.getattr_default(it, obj, name, default, node)
            if r is not None:
                return r
        if isinstance(name, str):
            # getattr(o, "name", d) is `o.name` with AttributeError (only) answered by d
            try:
                return it.get_attr(obj, name, node)
            except PyRaise as pr:
                cid = it.st.class_id_of(pr.val)
                if cid is not None and it.ct.name(cid) == "AttributeError":
                    return default
                raise
            except Unsupported:
                pass
        raise Unsupported(f"getattr(..., {name!r}, default)")

    def setattr_(self, it, obj, name, val, node):
        c = it.st.contract
        if c is not None and c.setattr(it, obj, name, val, node):
            return
        it.set_attr(obj, name, val, node)

    def call_unknown_function(self, it, f, cargs, node):
        c = it.st.contract
        if c is not None:
            r = c.call_unknown(it, f, cargs, node)
            if r is not None:
                return r
        st = it.st
        k = it.kind(f)
        if k is None:
            # unknown value: callable or not callable (TypeError)
            if not st.decide(lib.callable_(f), f"callable@{it.pos(node)}"):
                raise PyRaise(it.new_exc("TypeError"), "object is not callable")
            st.assume(z3.Not(z3.Or(V.is_none(f), V.is_int(f), V.is_float(f), V.is_bool(f), V.is_str(f),
                                   V.is_tup(f))))
        return it.default_oracle(f"dyn{it.pos(node)}", cargs)

    def dict_display(self, it, segs):
        c = it.st.contract
        if c is not None:
            r = c.dict_display(it, segs)
            if r is not None:
                return r
        raise Unsupported("dict display with ** of symbolic mappings")

    def summarise_comprehension(self, it, consumer, node, env, src):
        from . import comp
        return comp.summarise(it, consumer, node, env, src)

    def summarise_dict_comprehension(self, it, node, env):
        from . import comp
        return comp.summarise_dict(it, node, env)

    # ------------------------------------------------------------------ sleeping (T-SLEEP)
    def sleep(self, it: Interp, d, is_async: bool, node):
        st = it.st
        n = it.as_num(d)
        if n is None:
            isnum = z3.Or(V.is_int(d), V.is_float(d), V.is_bool(d))
            if not st.decide(isnum, f"sleep-arg@{it.pos(node)}:number"):
                raise PyRaise(it.new_exc("TypeError"), "sleep() argument must be a number")
            n = it.as_num(d)
            if n is None:
                dr = z3.If(V.is_float(d), V.rval(d), z3.ToReal(z3.If(V.is_int(d), V.ival(d), z3.If(V.bval(d), 1, 0))))
                n = (dr, "float")
        dr = z3.ToReal(n[0]) if n[1] == "int" else n[0]
        lib.used("T-SLEEP")
        if not is_async:
            # time.sleep raises ValueError for negative values
            if not st.decide(dr >= 0, f"sleep@{it.pos(node)}:nonneg"):
                raise PyRaise(it.new_exc("ValueError"), "sleep length must be non-negative")
        st.events.append(("sleep", d, dr))
        sl = st.ghost.setdefault("$sleeps", [])
        sl.append(d)
        if st.clock is not None:
            t = st.fresh("woke", R)
            st.assume(t >= st.clock + z3.If(dr > 0, dr, 0))
            st.clock = t
        return V.VNone

    # ------------------------------------------------------------------ await
    def await_(self, it: Interp, aw: AwaitableV, idx: int, node):
        c = it.st.contract
        if c is not None:
            r = c.on_await(it, aw, idx, node)
            if r is not NotImplemented:
                return r
        return self.default_await(it, aw, idx, node)

    def default_await(self, it: Interp, aw: AwaitableV, idx: int, node):
        st = it.st
        c = st.contract
        if c is not None:
            c.segment_end(it, aw, idx)
            c.interfere(it, aw, idx)
        if c is not None and c.inject_cancel(it, aw, idx):
            if st.fork(f"await#{idx}", [("resume", True), ("cancelled", True)]) == 1:
                raise PyRaise(it.new_exc("CancelledError"), f"cancellation injected at await#{idx}")
        if aw.kind == "sleep":
            return self.sleep(it, aw.data["delay"], True, node)
        if aw.kind == "oracle":
            return it.oracle_outcome(aw.data["ov"], aw.data["fterm"], aw.data["cargs"], node)
        if aw.kind == "coro":
            return it.run_function(aw.data["fv"], aw.data["cargs"], node)
        h = lib.LIB.get(f"await:{aw.kind}")
        if h is not None:
            lib.used(f"await:{aw.kind}")
            return h(it, aw, idx, node)
        raise Unsupported(f"await of {aw.kind}")

    # ------------------------------------------------------------------ loops
    def _accumulation_loop(self, it: Interp, node: ast.For, env: Env) -> bool:
        """`for x in S: [if c:] L.append(e)`  and  `for x in S: D[k] = v` (D an empty dict) are the
        explicit forms of a list / dict comprehension (T-COLL): summarised the same way, no invariant needed."""
        st = it.st
        if node.orelse or len(node.body) != 1:
            return False
        if self._merge_loop(it, node, env):
            return True
        if self._search_loop(it, node, env):
            return True
        if self._flatten_loop(it, node, env):
            return True
        stmt, tests = node.body[0], []
        if isinstance(stmt, ast.If) and not stmt.orelse and len(stmt.body) == 1:
            tests, stmt = [stmt.test], stmt.body[0]
        gen = ast.comprehension(target=node.target, iter=node.iter, ifs=tests, is_async=0)
        if isinstance(stmt, ast.Expr) and isinstance(stmt.value, ast.Call) and isinstance(stmt.value.func, ast.Attribute) \
                and stmt.value.func.attr == "append" and isinstance(stmt.value.func.value, ast.Name) \
                and len(stmt.value.args) == 1 and not stmt.value.keywords:
            target = env.lookup(stmt.value.func.value.id)
            if target is None or lib._cname(it, target) != "list":
                return False
            comp_node = ast.copy_location(ast.ListComp(elt=stmt.value.args[0], generators=[gen]), node)
            ast.fix_missing_locations(comp_node)
            items = it.eval(comp_node, env)
            lib.LIB["list.extend"](it, LibV("list.extend", target), CallArgs([items]), node)
            return True
        if isinstance(stmt, ast.Assign) and len(stmt.targets) == 1 and isinstance(stmt.targets[0], ast.Subscript) \
                and isinstance(stmt.targets[0].value, ast.Name) and not tests:
            target = env.lookup(stmt.targets[0].value.id)
            if target is None or lib._cname(it, target) != "dict":
                return False
            p = lib.dict_parts(it, target)
            if not st.entails(p["hi"] == p["lo"]):
                return False              # only an (initially) empty accumulator is a plain dict comprehension
            comp_node = ast.copy_location(ast.DictComp(key=stmt.targets[0].slice, value=stmt.value, generators=[gen]), node)
            ast.fix_missing_locations(comp_node)
            d = it.eval(comp_node, env)
            q = lib.dict_parts(it, d)
            for f, k in (("$dhas", "has"), ("$dval", "val"), ("$dpos", "pos"), ("$arr", "keys"), ("$lo", "lo"), ("$hi", "hi")):
                st.put(target, f, q[k])
            for dc in st.ghost.get("$dictcomps", []):
                if dc["result"].eq(d):
                    dc["result"] = target
            return True
        return False

    @staticmethod
    def _flatten_shape(node: ast.For) -> bool:
        inner = node.body[0] if len(node.body) == 1 else None
        return isinstance(inner, ast.For) and isinstance(inner.iter, ast.Name) and isinstance(node.target, ast.Name) \
            and inner.iter.id == node.target.id

    def _nested_for_as_chain(self, it: Interp, node: ast.For, env: Env):
        """`for a in S: for b in f(a): BODY` (BODY not mentioning `a`, no break / else) runs BODY for the same values in the
        same order as `for b in chain.from_iterable(f(a) for a in S): BODY` - the generator is consumed lazily, so `f(a)` is
        evaluated at the same points.  Returns the single-loop form (its iterable pre-evaluated), or None."""
        if node.orelse or len(node.body) != 1 or not isinstance(node.body[0], ast.For) or not isinstance(node.target, ast.Name):
            return None
        inner = node.body[0]
        if inner.orelse or getattr(inner, "is_async", False):
            return None
        outer_var = node.target.id
        for stmt in inner.body:
            for sub in ast.walk(stmt):
                if isinstance(sub, ast.Break) or (isinstance(sub, ast.Name) and sub.id == outer_var):
                    return None
        for sub in ast.walk(inner.target):
            if isinstance(sub, ast.Name) and sub.id == outer_var:
                return None
        if any(isinstance(n, (ast.Await, ast.Yield, ast.YieldFrom)) for n in ast.walk(inner.iter)):
            return None
        gen = ast.GeneratorExp(elt=inner.iter, generators=[ast.comprehension(target=node.target, iter=node.iter, ifs=[], is_async=0)])
        ast.copy_location(gen, node)
        ast.fix_missing_locations(gen)
        try:
            src = it.eval(gen, env)
            flat = lib.LIB["itertools.chain.from_iterable"](it, LibV("itertools.chain.from_iterable"), CallArgs([src]), node)
        except Unsupported:
            return None
        name = f"$flat@{node.lineno}"
        env.vars[name] = flat
        new = ast.For(target=inner.target, iter=ast.Name(id=name, ctx=ast.Load()), body=inner.body, orelse=[], type_comment=None)
        ast.copy_location(new, node)
        ast.fix_missing_locations(new)
        return new

    def _flatten_loop(self, it: Interp, node: ast.For, env: Env) -> bool:
        """`for a in S: for b in a: L.append(b)` is `L.extend(chain.from_iterable(S))` (T-COLL: concatenation in order)."""
        inner = node.body[0]
        if not (isinstance(node.target, ast.Name) and isinstance(inner, ast.For) and not inner.orelse and len(inner.body) == 1
                and isinstance(inner.target, ast.Name) and isinstance(inner.iter, ast.Name) and inner.iter.id == node.target.id):
            return False
        stmt = inner.body[0]
        if not (isinstance(stmt, ast.Expr) and isinstance(stmt.value, ast.Call) and isinstance(stmt.value.func, ast.Attribute)
                and stmt.value.func.attr == "append" and isinstance(stmt.value.func.value, ast.Name)
                and len(stmt.value.args) == 1 and not stmt.value.keywords
                and isinstance(stmt.value.args[0], ast.Name) and stmt.value.args[0].id == inner.target.id):
            return False
        target = env.lookup(stmt.value.func.value.id)
        if target is None or lib._cname(it, target) != "list":
            return False
        src = it.eval(node.iter, env)
        if lib.seq_view(it, src) is None:
            return False
        flat = lib.LIB["itertools.chain.from_iterable"](it, LibV("itertools.chain.from_iterable"), CallArgs([src]), node)
        lib.LIB["list.extend"](it, LibV("list.extend", target), CallArgs([flat]), node)
        return True

    def _search_loop(self, it: Interp, node: ast.For, env: Env) -> bool:
        """`for x in S: if c(x): return [v]` (nothing else in the loop, v not depending on x) is `if any(c(x) for x in S):
        return [v]` - the explicit form of the `any(...)` test, summarised the same way."""
        stmt = node.body[0]
        if not (isinstance(stmt, ast.If) and not stmt.orelse and len(stmt.body) == 1 and isinstance(stmt.body[0], ast.Return)):
            return False
        targets = {n.id for n in ast.walk(node.target) if isinstance(n, ast.Name)}
        ret = stmt.body[0]
        if ret.value is not None and any(isinstance(n, ast.Name) and n.id in targets for n in ast.walk(ret.value)):
            return False
        if any(isinstance(n, (ast.Await, ast.Yield, ast.YieldFrom, ast.NamedExpr)) for n in ast.walk(stmt.test)):
            return False
        gen = ast.comprehension(target=node.target, iter=node.iter, ifs=[], is_async=0)
        test = ast.Call(func=ast.Name(id="any", ctx=ast.Load()), args=[ast.GeneratorExp(elt=stmt.test, generators=[gen])], keywords=[])
        new = ast.copy_location(ast.If(test=test, body=[ret], orelse=[]), node)
        ast.fix_missing_locations(new)
        it.exec_block([new], env)           # raises PyReturn on the found path, falls through otherwise
        return True

    def _merge_loop(self, it: Interp, node: ast.For, env: Env) -> bool:
        """`for k, v in S.items(): D.setdefault(k, v)` and `for k, v in S.items(): D[k] = v` with D, S dicts:
        the element-wise forms of a dict merge (keep / override), summarised exactly (T-COLL)."""
        t, itr, stmt = node.target, node.iter, node.body[0]
        if not (isinstance(t, ast.Tuple) and len(t.elts) == 2 and all(isinstance(e, ast.Name) for e in t.elts)):
            return False
        if not (isinstance(itr, ast.Call) and isinstance(itr.func, ast.Attribute) and itr.func.attr == "items"
                and not itr.args and not itr.keywords):
            return False
        kn, vn = t.elts[0].id, t.elts[1].id
        is_name = lambda e, n: isinstance(e, ast.Name) and e.id == n
        if isinstance(stmt, ast.Expr) and isinstance(stmt.value, ast.Call) and isinstance(stmt.value.func, ast.Attribute) \
                and stmt.value.func.attr == "setdefault" and len(stmt.value.args) == 2 and not stmt.value.keywords \
                and is_name(stmt.value.args[0], kn) and is_name(stmt.value.args[1], vn):
            dexpr, override = stmt.value.func.value, False
        elif isinstance(stmt, ast.Assign) and len(stmt.targets) == 1 and isinstance(stmt.targets[0], ast.Subscript) \
                and is_name(stmt.targets[0].slice, kn) and is_name(stmt.value, vn):
            dexpr, override = stmt.targets[0].value, True
        else:
            return False
        src = it.eval(itr.func.value, env)
        dst = it.eval(dexpr, env)
        if lib._cname(it, src) not in ("dict", "OrderedDict", "mappingproxy") or lib._cname(it, dst) not in ("dict", "OrderedDict"):
            return False
        if override and it.st.entails(lib.dict_parts(it, dst)["hi"] == lib.dict_parts(it, dst)["lo"]):
            return False                 # empty accumulator: the dict-comprehension summary (with its witnesses) is used
        lib.dict_merge(it, dst, src, override)
        return True

    def loop(self, it: Interp, node, env: Env) -> None:
        st = it.st
        is_for = isinstance(node, ast.For)
        if is_for:
            if getattr(node, "is_async", False):
                raise Unsupported("async for")
            src = it.eval(node.iter, env)
            conc = lib.concrete_items(it, src)
            c0 = st.contract
            forced = c0.loop_spec(it, node, env) if (c0 is not None and conc is not None) else None
            if forced is not None and not forced.get("force"):
                forced = None
            if conc is not None and forced is None:            # literal / known length: unrolled, complete
                broke = False
                for x in conc:
                    it.assign(node.target, x, env)
                    try:
                        it.exec_block(node.body, env)
                    except PyBreak:
                        broke = True
                        break
                    except PyContinue:
                        continue
                if not broke and node.orelse:
                    it.exec_block(node.orelse, env)
                return
        if is_for and conc is None and not self._flatten_shape(node):
            flat = self._nested_for_as_chain(it, node, env)
            if flat is not None:
                return self.loop(it, flat, env)
        c = st.contract
        spec = c.loop_spec(it, node, env) if c is not None else None
        if spec is None and is_for and self._accumulation_loop(it, node, env):
            return
        if spec is None:
            raise Unsupported(f"loop without invariant at line {node.lineno}")
        tag = spec.get("name", f"loop{it.pos(node)}")
        inv = spec["inv"]                     # callable(it, env, k) -> list[(name, formula)]
        # --- entry
        k = None
        if is_for:
            sv = lib.seq_view(it, src)
            if sv is None:
                raise Unsupported("for over a non-sequence value")
            arr, lo, hi = sv
            k = lo
        for nm, f in inv(it, env, k):
            st.check(f"{tag}:entry:{nm}", f, kind="aux")
        # --- havoc
        assigned = set()
        fields = set()
        mutates_containers = False
        for sub in [x for b in node.body for x in ast.walk(b)]:
            if isinstance(sub, ast.Name) and isinstance(sub.ctx, ast.Store):
                assigned.add(sub.id)
            elif isinstance(sub, ast.Attribute) and isinstance(sub.ctx, ast.Store):
                fields.add(sub.attr)
            elif isinstance(sub, ast.Call) and isinstance(sub.func, ast.Attribute) and sub.func.attr in MUTATORS:
                mutates_containers = True
            elif isinstance(sub, ast.Subscript) and isinstance(sub.ctx, (ast.Store, ast.Del)):
                mutates_containers = True
        if is_for:
            for sub in ast.walk(node.target):
                if isinstance(sub, ast.Name):
                    assigned.add(sub.id)
        for name in sorted(assigned):
            owner = env.owner(name)
            if owner is not None:
                owner.vars[name] = st.fresh_val(f"{name}.loop")
        for f in sorted(fields | set(spec.get("havoc_fields", ()))):
            st.havoc_field(f)
        if mutates_containers or spec.get("havoc_containers"):
            for f in ("$arr", "$lo", "$hi", "$dhas", "$dval", "$dpos"):
                if f in st.heap:
                    st.havoc_field(f)
        for g in spec.get("havoc_ghost", ()):
            g(it)
        if st.clock is not None and spec.get("havoc_clock", True):
            t = st.fresh("now.loop", R)
            st.assume(t >= st.clock)
            st.clock = t
        if is_for:
            k = st.fresh("k.loop", I)
            itr = node.iter
            if isinstance(itr, ast.Call) and not itr.keywords and (
                    (isinstance(itr.func, ast.Name) and itr.func.id == "enumerate" and len(itr.args) == 1
                     and isinstance(itr.args[0], (ast.Name, ast.Attribute)))
                    or (isinstance(itr.func, ast.Attribute) and itr.func.attr in ("items", "values", "keys") and not itr.args
                        and isinstance(itr.func.value, (ast.Name, ast.Attribute)))):
                # a view (enumerate / dict view) of a container: it follows the container as the havocked state describes it
                src = it.eval(itr, env)
            sv = lib.seq_view(it, src)
            arr, lo, hi = sv
            st.assume(z3.And(lo <= k, k <= hi))
        for nm, f in inv(it, env, k):
            st.assume(f)
        # --- one arbitrary iteration
        if is_for:
            go = st.decide(k < hi, f"{tag}:next")
            if go:
                st.instantiate_at(k)          # quantified facts about the elements, at the element of this iteration
                it.assign(node.target, st.simp(z3.Select(arr, k)), env)
        else:
            go = it.test(it.eval(node.test, env), f"{tag}:guard")
        if go:
            try:
                it.exec_block(node.body, env)
            except PyBreak:
                return
            except PyContinue:
                pass
            k2 = st.simp(k + 1) if is_for else None
            for nm, f in inv(it, env, k2):
                st.check(f"{tag}:preserved:{nm}", f, kind="aux")
            raise PathEnd("end of loop body")
        if node.orelse:
            it.exec_block(node.orelse, env)
        if "exit" in spec:
            spec["exit"](it, env, k)


# ------------------------------------------------------------------------------------------------
# Contracts
# ------------------------------------------------------------------------------------------------
class Contract:
    """Base class of sidecar contracts.  Subclasses set `file`, `func`, `props` and override
    `setup`, `on_return`, `on_raise`, and the hooks below as needed."""
    file: str = ""
    func: str = ""
    props: tuple[str, ...] = ()
    name: str = ""
    is_lemma = False
    max_paths = 4000
    trusted: tuple[str, ...] = ()           # T-/S- items this contract relies on (for the evidence)
    assumptions: tuple[str, ...] = ()       # explicit `requires` / assumed clauses, in words

    @staticmethod
    def keep(obligation_name: str) -> bool:
        """Filter of obligation names reported by this contract (one scenario can serve two properties)."""
        return True

    # -- the scenario ----------------------------------------------------------------------------
    def setup(self, it: Interp, env: Env) -> tuple[FuncV | None, CallArgs]:
        raise NotImplementedError

    def on_return(self, it: Interp, ret) -> None:
        pass

    def on_raise(self, it: Interp, exc) -> None:
        pass

    # -- hooks -------------------------------------------------------------------------------------
    def loop_spec(self, it, node, env):
        return None

    def callee(self, it, fv):
        return None

    def class_var(self, it, info, name):
        return None

    def global_value(self, it, mod, name):
        return None

    def instantiate(self, it, info, cargs, node):
        return None

    def assert_mode(self, it, node) -> str:
        return "fork"

    def getitem(self, it, obj, idx, node):
        return None

    def attr(self, it, obj, name, node):
        return None

    def getattr_default(self, it, obj, name, default, node):
        return None

    def setattr(self, it, obj, name, val, node) -> bool:
        return False

    def call_unknown(self, it, f, cargs, node):
        return None

    def dict_display(self, it, segs):
        return None

    def on_await(self, it, aw, idx, node):
        return NotImplemented

    def segment_end(self, it, aw, idx) -> None:
        pass

    def interfere(self, it, aw, idx) -> None:
        pass

    def inject_cancel(self, it, aw, idx) -> bool:
        return False

    def cancel_awaiting_task(self, it, aw, idx) -> bool:
        """May the task running the function be cancelled while it awaits this future?"""
        return False

    # -- driver ------------------------------------------------------------------------------------
    def run(self, it: Interp) -> None:
        st = it.st
        st.contract = self
        node, mod, chain = it.engine.repo.find(self.file, self.func)
        self.node, self.module, self.chain = node, mod, chain
        env = Env(mod)
        fv, cargs = self.setup(it, env)
        if fv is None:
            bound = None
            in_class = -1 if any(isinstance(c, ast.ClassDef) for c in chain) else None      # private names are mangled
            fv = FuncV(node, env, mod, self.func, bound, in_class)
        try:
            ret = it.run_function(fv, cargs)
        except PyRaise as pr:
            st.labels.append("exit:raise")
            self.on_raise(it, pr.val)
            st.check("canary", z3.BoolVal(False), kind="canary")
            return
        st.labels.append("exit:return")
        self.on_return(it, ret)
        st.check("canary", z3.BoolVal(False), kind="canary")

    def factory_asserts(self, it: Interp, env: Env) -> None:
        """Assume the leading `assert`s of the enclosing factory function (they are the checked
        preconditions of the closure: had they failed, the factory would have raised)."""
        for outer in self.chain:
            if isinstance(outer, (ast.FunctionDef, ast.AsyncFunctionDef)):
                for s in outer.body:
                    if isinstance(s, ast.Expr) and isinstance(s.value, ast.Constant):
                        continue
                    if isinstance(s, ast.Assert):
                        it.st.assume(it.truthy(it.eval(s.test, env)))
                    else:
                        break


class Lemma(Contract):
    is_lemma = True

    def run(self, it: Interp) -> None:
        it.st.contract = self
        self.prove(it)

    def prove(self, it: Interp) -> None:
        raise NotImplementedError


# ------------------------------------------------------------------------------------------------
def explore(engine: Engine, contract: Contract, budget_s: float = 600.0):
    """All paths of one contract.  Returns dict(obligations, paths, undecided, errors)."""
    import copy
    proto = contract
    work: list[list[int]] = [[]]
    obligations: list[Obl] = []
    undecided: list[str] = []
    paths = 0
    covers: set[str] = set()
    t0 = time.time()
    lib.USED.clear()
    while work:
        dec = work.pop()
        st = State(engine, dec)
        engine.state = st
        it = Interp(st)
        paths += 1
        per_path = copy.copy(proto)          # attributes set while running a path never leak into the next
        try:
            per_path.run(it)
        except PathEnd:
            pass
        except Unsupported as u:
            undecided.append(f"{contract.name}: {u} [path {'/'.join(st.labels[-6:])}]")
        except FunctionNotFound as e:
            undecided.append(f"{contract.name}: function not found: {e}")
            break
        except (PyRaise, PyReturn, PyBreak, PyContinue) as e:
            undecided.append(f"{contract.name}: control flow escaped the contract driver: {type(e).__name__}")
        except (TypeError, AttributeError, KeyError, IndexError, ValueError, z3.Z3Exception) as e:
            # the code under contract took a shape the contract's own bookkeeping does not understand (its hooks crashed):
            # that path is open, not a verdict - the native stand-in is consulted
            tb = traceback.extract_tb(e.__traceback__)[-1]
            undecided.append(f"{contract.name}: the contract could not interpret this path ({type(e).__name__}: {e} at "
                             f"{os.path.basename(tb.filename)}:{tb.lineno}) [path {'/'.join(st.labels[-6:])}]")
        try:
            st.solver.pop()
        except z3.Z3Exception:
            pass
        work.extend(st.new_branches)
        obligations.extend(o for o in st.obligations if contract.keep(o.name))
        covers |= st.cover_hits
        if paths >= contract.max_paths:
            undecided.append(f"{contract.name}: path limit {contract.max_paths} reached")
            break
        if time.time() - t0 > budget_s:
            undecided.append(f"{contract.name}: exploration budget {budget_s}s exhausted")
            break
    return dict(obligations=obligations, paths=paths, undecided=undecided, covers=covers,
                used=set(lib.USED), explore_s=time.time() - t0)
