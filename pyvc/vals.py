"""Value model of the pyvc symbolic executor.

Every Python value is a term of the z3 datatype ``Val``.  Heap objects are ``VRef(addr)``; their
fields live in per-field z3 arrays owned by the interpreter state (Boogie/Dafny style heap).
Functions, classes and strings are interned on the Python side and referenced by integer ids.
"""
from __future__ import annotations

import z3

# --------------------------------------------------------------------------------------------
# sorts
# --------------------------------------------------------------------------------------------
_Val = z3.Datatype("Val")
_Lst = z3.Datatype("Lst")
_Val.declare("VNone")
_Val.declare("VBool", ("bval", z3.BoolSort()))
_Val.declare("VInt", ("ival", z3.IntSort()))
_Val.declare("VFloat", ("rval", z3.RealSort()))
_Val.declare("VStr", ("sid", z3.IntSort()))
_Val.declare("VRef", ("addr", z3.IntSort()))
_Val.declare("VCls", ("cid", z3.IntSort()))
_Val.declare("VFun", ("fid", z3.IntSort()))
_Val.declare("VTup", ("items", _Lst))
_Val.declare("VKey", ("khead", _Val), ("ktail", _Val))    # functools._make_key of (head, *rest): injective
_Lst.declare("nil")
_Lst.declare("cons", ("hd", _Val), ("tl", _Lst))
Val, Lst = z3.CreateDatatypes(_Val, _Lst)

VNone = Val.VNone
VBool, VInt, VFloat, VStr, VRef, VCls, VFun, VTup = (
    Val.VBool, Val.VInt, Val.VFloat, Val.VStr, Val.VRef, Val.VCls, Val.VFun, Val.VTup)
is_none, is_bool, is_int, is_float, is_str, is_ref, is_cls, is_fun, is_tup = (
    Val.is_VNone, Val.is_VBool, Val.is_VInt, Val.is_VFloat, Val.is_VStr, Val.is_VRef,
    Val.is_VCls, Val.is_VFun, Val.is_VTup)
bval, ival, rval, sid, addr, cid, fid, items = (
    Val.bval, Val.ival, Val.rval, Val.sid, Val.addr, Val.cid, Val.fid, Val.items)
nil, cons, hd, tl = Lst.nil, Lst.cons, Lst.hd, Lst.tl
is_nil, is_cons = Lst.is_nil, Lst.is_cons

I = z3.IntSort()
B = z3.BoolSort()
R = z3.RealSort()
ArrIV = z3.ArraySort(I, Val)          # Int -> Val (fields by address, sequence contents)
ArrII = z3.ArraySort(I, I)
ArrIB = z3.ArraySort(I, B)
ArrVV = z3.ArraySort(Val, Val)
ArrVB = z3.ArraySort(Val, B)
ArrVI = z3.ArraySort(Val, I)

# --------------------------------------------------------------------------------------------
# interned classes (ids are stable across runs: fixed table first, then by first use in a run)
# --------------------------------------------------------------------------------------------
_BUILTIN_CLASSES = [
    # name, bases  (abstract collection classes first: virtual subclassing is made nominal)
    ("object", ()),
    ("type", ("object",)),
    ("Sequence", ("object",)),
    ("Mapping", ("object",)),
    ("Set", ("object",)),
    ("NoneType", ("object",)),
    ("int", ("object",)),
    ("bool", ("int",)),
    ("float", ("object",)),
    ("str", ("Sequence",)),
    ("bytes", ("Sequence",)),
    ("bytearray", ("Sequence",)),
    ("tuple", ("Sequence",)),
    ("list", ("Sequence",)),
    ("range", ("Sequence",)),
    ("dict", ("Mapping",)),
    ("set", ("Set",)),
    ("frozenset", ("Set",)),
    ("function", ("object",)),
    ("BaseException", ("object",)),
    ("Exception", ("BaseException",)),
    ("CancelledError", ("BaseException",)),
    ("KeyboardInterrupt", ("BaseException",)),
    ("SystemExit", ("BaseException",)),
    ("GeneratorExit", ("BaseException",)),
    ("BaseExceptionGroup", ("BaseException",)),
    ("ExceptionGroup", ("BaseExceptionGroup", "Exception")),
    ("LookupError", ("Exception",)),
    ("KeyError", ("LookupError",)),
    ("IndexError", ("LookupError",)),
    ("TypeError", ("Exception",)),
    ("ValueError", ("Exception",)),
    ("AttributeError", ("Exception",)),
    ("RuntimeError", ("Exception",)),
    ("AssertionError", ("Exception",)),
    ("StopAsyncIteration", ("Exception",)),
    ("StopIteration", ("Exception",)),
    ("OSError", ("Exception",)),
    ("TimeoutError", ("OSError",)),
    ("InvalidStateError", ("Exception",)),
    ("deque", ("Sequence",)),
    ("OrderedDict", ("dict",)),
    ("mappingproxy", ("Mapping",)),
    ("timedelta", ("object",)),
    ("Future", ("object",)),
    ("Task", ("Future",)),
    ("TaskGroup", ("object",)),
    ("Lock", ("object",)),
    ("TimerHandle", ("object",)),
    ("ContextVar", ("object",)),
    ("Token", ("object",)),
    ("Context", ("object",)),
    ("Logger", ("object",)),
    ("EventLoop", ("object",)),
    ("partial", ("object",)),
    ("weakref", ("object",)),
    ("coroutine", ("object",)),
    ("Protocol", ("object",)),
    ("Enum", ("object",)),
]


class ClassTable:
    """Interned class names -> ids with a concrete, finite subclass relation."""

    def __init__(self) -> None:
        self.ids: dict[str, int] = {}
        self.names: list[str] = []
        self.bases: dict[int, tuple[int, ...]] = {}
        self.info: dict[int, object] = {}      # repo class info (interp.RepoClass)
        for name, bases in _BUILTIN_CLASSES:
            self.add(name, bases)

    def add(self, name: str, bases: tuple[str, ...] = ("object",), info: object = None) -> int:
        if name in self.ids:
            return self.ids[name]
        i = len(self.names)
        self.ids[name] = i
        self.names.append(name)
        self.bases[i] = tuple(self.ids[b] for b in bases if b in self.ids)
        if info is not None:
            self.info[i] = info
        return i

    def id(self, name: str) -> int:
        return self.ids[name]

    def name(self, i: int) -> str:
        return self.names[i] if 0 <= i < len(self.names) else f"<class#{i}>"

    def ancestors(self, i: int) -> set[int]:
        seen: set[int] = set()
        todo = [i]
        while todo:
            c = todo.pop()
            if c in seen:
                continue
            seen.add(c)
            todo.extend(self.bases.get(c, ()))
        return seen

    def is_sub(self, a: int, b: int) -> bool:
        return b in self.ancestors(a)


# subclass relation over class ids: concrete pairs are axiomatised on demand, symbolic class ids
# (the class of an exception raised by user code) are only known through reflexivity,
# transitivity and the facts the contracts assume.
subclass = z3.Function("subclass", I, I, B)
class_of = z3.Function("class_of", I, I)        # address -> class id (fixed at allocation)


def type_of(v: z3.ExprRef, ct: ClassTable) -> z3.ExprRef:
    """Class id of a Val term (``type(v)``)."""
    return z3.If(is_none(v), ct.id("NoneType"),
           z3.If(is_bool(v), ct.id("bool"),
           z3.If(is_int(v), ct.id("int"),
           z3.If(is_float(v), ct.id("float"),
           z3.If(is_str(v), ct.id("str"),
           z3.If(is_tup(v), ct.id("tuple"),
           z3.If(is_fun(v), ct.id("function"),
           z3.If(is_cls(v), ct.id("type"),
           z3.If(is_ref(v), class_of(addr(v)), ct.id("object"))))))))))


def subclass_axioms(ct: ClassTable) -> list[z3.ExprRef]:
    """Finite, complete description of ``subclass`` on the interned ids + closure axioms for
    symbolic ids (ids outside the table are unknown user classes)."""
    n = len(ct.names)
    ax: list[z3.ExprRef] = []
    for a in range(n):
        anc = ct.ancestors(a)
        for b in range(n):
            ax.append(subclass(a, b) if b in anc else z3.Not(subclass(a, b)))
    c, d, e = z3.Ints("c! d! e!")
    ax.append(z3.ForAll([c], subclass(c, c), patterns=[subclass(c, c)]))
    ax.append(z3.ForAll([c], subclass(c, ct.id("object")), patterns=[subclass(c, ct.id("object"))]))
    ax.append(z3.ForAll([c, d, e], z3.Implies(z3.And(subclass(c, d), subclass(d, e)), subclass(c, e)),
                        patterns=[z3.MultiPattern(subclass(c, d), subclass(d, e))]))
    # an unknown class that is not one of the interned ones can only be *below* interned
    # classes, never above them (user classes do not become bases of library classes)
    ax.append(z3.ForAll([c, d], z3.Implies(z3.And(d >= 0, d < n, z3.Or(c < 0, c >= n)),
                                           z3.Not(subclass(d, c))),
                        patterns=[subclass(d, c)]))
    return ax


def lst(*vals: z3.ExprRef) -> z3.ExprRef:
    out = nil
    for v in reversed(vals):
        out = cons(v, out)
    return out


def tup(*vals: z3.ExprRef) -> z3.ExprRef:
    return VTup(lst(*vals))


def concrete_list(term: z3.ExprRef) -> list[z3.ExprRef] | None:
    """Items of a Lst term if its spine is syntactically concrete, else None."""
    term = z3.simplify(term)
    out: list[z3.ExprRef] = []
    while True:
        if z3.is_app(term) and term.decl().eq(nil.decl()) if hasattr(nil, "decl") else False:
            return out
        if z3.is_app(term) and term.decl().name() == "nil":
            return out
        if z3.is_app(term) and term.decl().name() == "cons":
            out.append(term.arg(0))
            term = term.arg(1)
            continue
        return None


def app_name(term: z3.ExprRef) -> str | None:
    return term.decl().name() if z3.is_app(term) else None
