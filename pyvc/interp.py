"""Symbolic interpreter over the Python AST of the real repository source."""
from __future__ import annotations

import ast
from dataclasses import dataclass, field

import z3

from . import vals as V
from .vals import Val, I, B, R
from .state import (State, Unsupported, PathEnd, PyRaise, PyReturn, PyBreak, PyContinue)
from .repo import ModuleInfo

MAX_INLINE_DEPTH = 8


# ------------------------------------------------------------------------------------------------
# python-side callables (referenced from Val terms as VFun(<index>))
# ------------------------------------------------------------------------------------------------
class Env:
    def __init__(self, module: ModuleInfo | None, parent: "Env | None" = None) -> None:
        self.vars: dict[str, z3.ExprRef] = {}
        self.parent = parent
        self.module = module if module is not None else (parent.module if parent else None)

    def lookup(self, name: str):
        e = self
        while e is not None:
            if name in e.vars:
                return e.vars[name]
            e = e.parent
        return None

    def owner(self, name: str) -> "Env | None":
        e = self
        while e is not None:
            if name in e.vars:
                return e
            e = e.parent
        return None


@dataclass
class FuncV:
    node: ast.AST                   # FunctionDef | AsyncFunctionDef | Lambda
    env: Env
    module: ModuleInfo
    qualname: str
    bound: z3.ExprRef | None = None     # bound self / cls
    cls: int | None = None              # defining class id

    @property
    def is_async(self) -> bool:
        return isinstance(self.node, ast.AsyncFunctionDef)


@dataclass
class ModuleV:
    info: "ModuleInfo"              # a repository module used as a value (only attribute access is meaningful)


@dataclass
class LibV:
    name: str                       # dotted name of the library function / "Type.method"
    bound: z3.ExprRef | None = None


@dataclass
class OracleV:
    name: str
    spec: object = None             # callable(interp, cargs) -> Val, may raise PyRaise; None = default
    is_async: bool = False
    attrs: dict = field(default_factory=dict)


@dataclass
class AwaitableV:
    kind: str                       # 'oracle' | 'coro' | 'lib:<name>' | ...
    data: dict = field(default_factory=dict)


@dataclass
class PartialV:
    func: z3.ExprRef
    args: list
    kw: dict


@dataclass
class CallArgs:
    pos: list = field(default_factory=list)
    kw: dict = field(default_factory=dict)
    star: z3.ExprRef | None = None      # one un-expandable *args value (after pos)
    starstar: z3.ExprRef | None = None  # one un-expandable **kwargs value

    def arg(self, i: int, name: str | None = None, default=None):
        if i is not None and i < len(self.pos):
            return self.pos[i]
        if name is not None and name in self.kw:
            return self.kw[name]
        return default


# ------------------------------------------------------------------------------------------------
class Interp:
    def __init__(self, st: State) -> None:
        self.st = st
        self.engine = st.engine
        self.ct = st.ct
        from . import lib
        self.lib = lib
        self.loop_ordinal: dict[int, int] = {}
        self.await_ordinal = 0

    # ============================================================== values
    def none(self):
        return V.VNone

    def mk_bool(self, b) -> z3.ExprRef:
        if isinstance(b, bool):
            b = z3.BoolVal(b)
        return V.VBool(b)

    def mk_int(self, i) -> z3.ExprRef:
        if isinstance(i, int):
            i = z3.IntVal(i)
        return V.VInt(i)

    def mk_float(self, r) -> z3.ExprRef:
        if isinstance(r, (int, float)):
            r = z3.RealVal(r)
        return V.VFloat(r)

    def mk_str(self, s: str) -> z3.ExprRef:
        v = self.st.intern_str(s)
        done = self.st.ghost.setdefault("$strlen_done", set())
        if s not in done:                      # the length of a literal is known
            done.add(s)
            self.st.assume(self.lib.str_len(V.sid(v)) == len(s))
        return v

    def mk_cls(self, name: str) -> z3.ExprRef:
        return V.VCls(z3.IntVal(self.ct.id(name)))

    def new_exc(self, cls: str, *args: z3.ExprRef) -> z3.ExprRef:
        e = self.st.alloc(cls)
        if args:
            self.st.put(e, "args", V.tup(*args))
        return e

    def raise_new(self, cls: str, origin: str = "") -> None:
        raise PyRaise(self.new_exc(cls), origin or cls)

    # ---- kinds -------------------------------------------------------------------------------
    def kind(self, v: z3.ExprRef) -> str | None:
        t = self.st.simp(v)
        n = V.app_name(t)
        m = {"VNone": "none", "VBool": "bool", "VInt": "int", "VFloat": "float", "VStr": "str",
             "VTup": "tuple", "VFun": "function", "VCls": "type", "VRef": "ref"}
        if n in m:
            return m[n]
        for k, tester in (("int", V.is_int), ("float", V.is_float), ("bool", V.is_bool),
                          ("none", V.is_none), ("ref", V.is_ref), ("str", V.is_str),
                          ("tuple", V.is_tup), ("function", V.is_fun), ("type", V.is_cls)):
            if self.st.entails(tester(t)):
                return k
        return None

    def as_num(self, v: z3.ExprRef):
        """(term, 'int'|'float') for numeric values, else None."""
        k = self.kind(v)
        if k == "int":
            return self.st.simp(V.ival(v)), "int"
        if k == "bool":
            return z3.If(V.bval(v), z3.IntVal(1), z3.IntVal(0)), "int"
        if k == "float":
            return self.st.simp(V.rval(v)), "float"
        if k is None and self.st.entails(z3.Or(V.is_int(v), V.is_float(v))):
            # a number of unknown kind: usable as a real wherever the result kind does not depend on it
            return z3.If(V.is_float(v), V.rval(v), z3.ToReal(V.ival(v))), "num"
        return None

    # ---- truthiness --------------------------------------------------------------------------
    def truthy(self, v: z3.ExprRef) -> z3.ExprRef:
        k = self.kind(v)
        if k == "none":
            return z3.BoolVal(False)
        if k == "bool":
            return self.st.simp(V.bval(v))
        if k == "int":
            return V.ival(v) != 0
        if k == "float":
            return V.rval(v) != 0
        if k in ("function", "type"):
            return z3.BoolVal(True)
        if k == "str":
            return self.lib.str_len(V.sid(v)) > 0
        if k == "tuple":
            return z3.Not(V.is_nil(V.items(v)))
        if k == "ref":
            c = self.st.class_id_of(v)
            if c is not None:
                cname = self.ct.name(c)
                if cname in ("deque", "list", "tuple"):
                    lo, hi = self.st.get(v, "$lo"), self.st.get(v, "$hi")
                    return hi > lo
                if cname in ("dict", "OrderedDict", "mappingproxy", "set", "frozenset"):
                    return self.st.get(v, "$hi") > self.st.get(v, "$lo")
                info = self.ct.info.get(c)
                if info is not None:
                    m = info.find_method("__bool__")
                    if m is not None:
                        r = self.call_function(self.bind_method(info, m, v), CallArgs())
                        return self.truthy(r)
                    m = info.find_method("__len__")
                    if m is not None:
                        r = self.call_function(self.bind_method(info, m, v), CallArgs())
                        return V.ival(r) != 0
                    return z3.BoolVal(True)
                if self.ct.is_sub(c, self.ct.id("BaseException")) or cname in (
                        "Future", "Task", "Lock", "Logger", "TaskGroup", "Token", "ContextVar",
                        "Context", "EventLoop", "TimerHandle", "partial", "weakref", "timedelta0"):
                    return z3.BoolVal(True)
            if self.st.entails(V.subclass(V.class_of(V.addr(v)), self.ct.id("BaseException"))):
                return z3.BoolVal(True)      # exception objects define neither __bool__ nor __len__
            return self.lib.truthy_ref(V.addr(v))
        # unknown kind: full case split as a term
        return z3.If(V.is_none(v), False,
               z3.If(V.is_bool(v), V.bval(v),
               z3.If(V.is_int(v), V.ival(v) != 0,
               z3.If(V.is_float(v), V.rval(v) != 0,
               z3.If(V.is_str(v), self.lib.str_len(V.sid(v)) > 0,
               z3.If(V.is_tup(v), z3.Not(V.is_nil(V.items(v))),
               z3.If(V.is_ref(v), z3.Or(V.subclass(V.class_of(V.addr(v)), self.ct.id("BaseException")),
                                        self.lib.truthy_ref(V.addr(v))), True)))))))

    def test(self, v: z3.ExprRef, tag: str) -> bool:
        return self.st.decide(self.truthy(v), tag)

    # ---- isinstance --------------------------------------------------------------------------
    def isinstance_term(self, v: z3.ExprRef, c: z3.ExprRef) -> z3.ExprRef:
        """Bool term for isinstance(v, c); c is a class value, or a tuple / union of classes."""
        ct = self.st.simp(c)
        if V.app_name(ct) == "VTup":
            elems = V.concrete_list(ct.arg(0))
            if elems is None:
                raise Unsupported("isinstance with symbolic tuple of classes")
            return z3.Or([self.isinstance_term(v, e) for e in elems]) if elems else z3.BoolVal(False)
        cid_term = self.st.simp(V.cid(ct))
        tv = V.type_of(v, self.ct)
        return V.subclass(tv, cid_term)

    # ============================================================== names
    def lookup(self, name: str, env: Env, node: ast.AST | None = None) -> z3.ExprRef:
        v = env.lookup(name)
        if v is not None:
            return v
        mod = env.module
        if mod is not None and name in mod.symbols:
            return self.module_symbol(mod, name)
        return self.builtin(name)

    def module_symbol(self, mod: ModuleInfo, name: str, seen: frozenset = frozenset()) -> z3.ExprRef:
        key = (mod.name, name)
        cache = self.st.ghost.setdefault("$modsyms", {})
        if key in cache:
            return cache[key]
        sym = mod.symbols[name]
        kind = sym[0]
        if kind == "def":
            val = self.make_function(sym[1], Env(mod), mod, name)
        elif kind == "class":
            val = self.make_class(sym[1], mod)
        elif kind == "import":
            _, modname, orig = sym
            target = self.engine.repo.module(modname) if modname.startswith("haiway") else None
            if target is not None and orig in target.symbols and (modname, orig) not in seen:
                val = self.module_symbol(target, orig, seen | {key})
            elif target is not None:
                sub = self.engine.repo.module(modname + "." + orig)
                if sub is None:
                    raise Unsupported(f"cannot resolve {modname}.{orig}")
                val = self.st.reg_fun(ModuleV(sub))          # `from package import module`: a module object
            else:
                val = self.lib.resolve(self, f"{modname}.{orig}")
        elif kind == "module":
            raise Unsupported(f"module object {sym[1]}")
        elif kind == "assign":
            override = self.engine.global_override(self, mod, name)
            val = override if override is not None else self.eval(sym[1], Env(mod))
        else:
            raise Unsupported(f"symbol kind {kind}")
        cache[key] = val
        return val

    def builtin(self, name: str) -> z3.ExprRef:
        if name in ("True", "False"):
            return self.mk_bool(name == "True")
        if name == "None":
            return V.VNone
        if name == "__debug__":
            return self.mk_bool(True)
        if name in self.ct.ids and name not in ("function",):
            return self.mk_cls(name)
        return self.lib.resolve(self, f"builtins.{name}")

    # ============================================================== functions / classes
    def make_function(self, node, env: Env, mod: ModuleInfo, qualname: str, cls: int | None = None) -> z3.ExprRef:
        fv = FuncV(node, env, mod, qualname, None, cls)
        val = self.st.reg_fun(fv)
        decos = getattr(node, "decorator_list", [])
        for d in reversed(decos):
            if isinstance(d, ast.Name) and d.id in ("overload", "final", "staticmethod", "classmethod",
                                                     "property", "abstractmethod"):
                continue
            dv = self.eval(d, env)
            val = self.call(dv, CallArgs([val]), d)
        return val

    def make_class(self, node: ast.ClassDef, mod: ModuleInfo) -> z3.ExprRef:
        info = self.engine.class_info(node, mod, self)
        return V.VCls(z3.IntVal(info.cid))

    def bind_method(self, info, fnode, selfval: z3.ExprRef) -> FuncV:
        return FuncV(fnode, Env(info.module), info.module, f"{info.name}.{fnode.name}", selfval, info.cid)

    # ============================================================== expressions
    def eval(self, node: ast.AST, env: Env) -> z3.ExprRef:
        m = getattr(self, "e_" + type(node).__name__, None)
        if m is None:
            raise Unsupported(f"expression {type(node).__name__} at line {getattr(node, 'lineno', '?')}")
        return m(node, env)

    def e_Constant(self, node: ast.Constant, env: Env):
        c = node.value
        if c is None:
            return V.VNone
        if isinstance(c, bool):
            return self.mk_bool(c)
        if isinstance(c, int):
            return self.mk_int(c)
        if isinstance(c, float):
            return self.mk_float(z3.RealVal(repr(c)))
        if isinstance(c, str):
            return self.mk_str(c)
        if c is Ellipsis:
            return self.lib.resolve(self, "builtins.Ellipsis")
        raise Unsupported(f"constant {c!r}")

    def e_Name(self, node: ast.Name, env: Env):
        return self.lookup(node.id, env, node)

    def e_NamedExpr(self, node: ast.NamedExpr, env: Env):
        v = self.eval(node.value, env)
        self.assign_name(node.target.id, v, env)
        return v

    def assign_name(self, name: str, v: z3.ExprRef, env: Env) -> None:
        if name in getattr(env, "nonlocals", ()):
            owner = env.parent.owner(name) if env.parent is not None else None
            (owner or env).vars[name] = v
            return
        env.vars[name] = v

    def e_IfExp(self, node: ast.IfExp, env: Env):
        c = self.eval(node.test, env)
        if self.test(c, f"ifexp@{self.pos(node)}"):
            return self.eval(node.body, env)
        return self.eval(node.orelse, env)

    def e_BoolOp(self, node: ast.BoolOp, env: Env):
        is_and = isinstance(node.op, ast.And)
        if self.st.no_fork:
            # inside a summarised (side-effect free) expression: the value as a conditional term
            vals = [self.eval(sub, env) for sub in node.values]
            out = vals[-1]
            for v in reversed(vals[:-1]):
                t = self.truthy(v)
                out = z3.If(t, out, v) if is_and else z3.If(t, v, out)
            return out
        v = None
        for i, sub in enumerate(node.values):
            v = self.eval(sub, env)
            if i == len(node.values) - 1:
                return v
            t = self.test(v, f"{'and' if is_and else 'or'}@{self.pos(node)}.{i}")
            if is_and and not t:
                return v
            if not is_and and t:
                return v
        return v

    def e_UnaryOp(self, node: ast.UnaryOp, env: Env):
        v = self.eval(node.operand, env)
        if isinstance(node.op, ast.Not):
            return V.VBool(z3.Not(self.truthy(v)))
        if isinstance(node.op, ast.USub):
            n = self.as_num(v)
            if n is None:
                raise Unsupported("unary minus on non-number")
            return V.VInt(-n[0]) if n[1] == "int" else V.VFloat(-n[0])
        raise Unsupported("unary op")

    def e_BinOp(self, node: ast.BinOp, env: Env):
        a = self.eval(node.left, env)
        b = self.eval(node.right, env)
        return self.binop(node.op, a, b, node)

    def binop(self, op: ast.operator, a, b, node=None):
        if isinstance(op, ast.BitOr):
            ka, kb = self.kind(a), self.kind(b)
            if ka in ("type", "tuple") and kb in ("type", "tuple"):   # X | Y in isinstance(...)
                la = [a] if ka == "type" else V.concrete_list(self.st.simp(a).arg(0))
                lb = [b] if kb == "type" else V.concrete_list(self.st.simp(b).arg(0))
                return V.tup(*(la + lb))
            raise Unsupported("| on non-classes")
        na, nb = self.as_num(a), self.as_num(b)
        if na is None or nb is None:
            if isinstance(op, ast.Mod) and self.kind(a) == "str":
                return V.VStr(self.st.fresh("fmt", I))
            if isinstance(op, ast.Add) and self.kind(a) == "str" and self.kind(b) == "str":
                return V.VStr(self.lib.str_concat(V.sid(a), V.sid(b)))
            return self.engine.opaque_binop(self, op, a, b, node)
        (x, kx), (y, ky) = na, nb
        isf = kx == "float" or ky == "float"
        if not isf and "num" in (kx, ky):
            raise Unsupported("arithmetic on numbers of unknown kind (int or float)")
        if isf:
            x = z3.ToReal(x) if kx == "int" else x
            y = z3.ToReal(y) if ky == "int" else y
        if isinstance(op, ast.Add):
            r = x + y
        elif isinstance(op, ast.Sub):
            r = x - y
        elif isinstance(op, ast.Mult):
            r = x * y
        else:
            raise Unsupported(f"arithmetic operator {type(op).__name__}")
        return V.VFloat(r) if isf else V.VInt(r)

    def e_Compare(self, node: ast.Compare, env: Env):
        left = self.eval(node.left, env)
        result = None
        for op, rnode in zip(node.ops, node.comparators):
            right = self.eval(rnode, env)
            r = self.compare(op, left, right, node)
            result = r if result is None else z3.And(result, r)
            left = right
        return V.VBool(self.st.simp(result))

    def compare(self, op, a, b, node=None) -> z3.ExprRef:
        if isinstance(op, ast.Is):
            return a == b
        if isinstance(op, ast.IsNot):
            return a != b
        if isinstance(op, (ast.Eq, ast.NotEq)):
            e = self.py_eq(a, b)
            return e if isinstance(op, ast.Eq) else z3.Not(e)
        if isinstance(op, (ast.In, ast.NotIn)):
            r = self.lib.contains(self, b, a)
            return r if isinstance(op, ast.In) else z3.Not(r)
        na, nb = self.as_num(a), self.as_num(b)
        if na is None or nb is None:
            raise Unsupported(f"ordering comparison on non-numbers at {self.pos(node)}")
        (x, kx), (y, ky) = na, nb
        if kx != ky:
            x = z3.ToReal(x) if kx == "int" else x
            y = z3.ToReal(y) if ky == "int" else y
        if isinstance(op, ast.Lt):
            return x < y
        if isinstance(op, ast.LtE):
            return x <= y
        if isinstance(op, ast.Gt):
            return x > y
        if isinstance(op, ast.GtE):
            return x >= y
        raise Unsupported("comparison")

    def py_eq(self, a, b) -> z3.ExprRef:
        ka, kb = self.kind(a), self.kind(b)
        prim = ("none", "str", "type", "function")
        if ka in prim or kb in prim:
            if (ka in prim and kb == "ref") or (kb in prim and ka == "ref") or ka is None or kb is None:
                # a user object may define __eq__; only identity implies equality for sure
                return self.lib.eq_fn(self, a, b)
            return a == b
        na, nb = (self.as_num(a) if ka in ("int", "float", "bool") else None,
                  self.as_num(b) if kb in ("int", "float", "bool") else None)
        if na is not None and nb is not None:
            (x, kx), (y, ky) = na, nb
            if kx != ky:
                x = z3.ToReal(x) if kx == "int" else x
                y = z3.ToReal(y) if ky == "int" else y
            return x == y
        if (na is not None and kb in ("tuple",)) or (nb is not None and ka in ("tuple",)):
            return z3.BoolVal(False)
        return self.lib.eq_fn(self, a, b)

    def e_JoinedStr(self, node: ast.JoinedStr, env: Env):
        parts = []
        for p in node.values:
            if isinstance(p, ast.Constant):
                parts.append(V.sid(self.mk_str(p.value)))
            else:
                v = self.eval(p.value, env)
                parts.append(self.lib.str_of(V.sid(v)) if self.kind(v) == "str" and p.format_spec is None
                             else self.lib.render(v))
        if not parts:
            return self.mk_str("")
        acc = parts[0]
        for p in parts[1:]:
            acc = self.lib.str_concat(acc, p)
        return V.VStr(acc)

    def e_Tuple(self, node: ast.Tuple, env: Env):
        return self.seq_literal(node.elts, env, "tuple")

    def e_List(self, node: ast.List, env: Env):
        return self.seq_literal(node.elts, env, "list")

    def seq_literal(self, elts, env, kind: str):
        items = []
        segs = []       # list of ('item', v) | ('star', v)
        for e in elts:
            if isinstance(e, ast.Starred):
                v = self.eval(e.value, env)
                conc = self.lib.concrete_items(self, v)
                if conc is not None:
                    segs.extend(("item", x) for x in conc)
                else:
                    segs.append(("star", v))
            else:
                segs.append(("item", self.eval(e, env)))
        if all(k == "item" for k, _ in segs):
            items = [v for _, v in segs]
            if kind == "tuple":
                return V.tup(*items)
            return self.lib.new_list(self, items)
        return self.lib.concat_literal(self, segs, kind)

    def e_Set(self, node: ast.Set, env: Env):
        items = [self.eval(e, env) for e in node.elts]
        return self.lib.new_set(self, items)

    def e_Dict(self, node: ast.Dict, env: Env):
        segs = []
        for k, v in zip(node.keys, node.values):
            if k is None:
                segs.append(("star", self.eval(v, env)))
            else:
                segs.append(("item", (self.eval(k, env), self.eval(v, env))))
        return self.lib.dict_literal(self, segs)

    def e_Lambda(self, node: ast.Lambda, env: Env):
        return self.st.reg_fun(FuncV(node, env, env.module, "<lambda>"))

    def e_Attribute(self, node: ast.Attribute, env: Env):
        obj = self.eval(node.value, env)
        return self.get_attr(obj, node.attr, node)

    def e_Subscript(self, node: ast.Subscript, env: Env):
        obj = self.eval(node.value, env)
        # generic alias subscripts on classes (ContextVar[ScopeState]) are identity
        if self.kind(obj) == "type" or isinstance(self.st.fun_of(obj), LibV):
            return obj
        if isinstance(node.slice, ast.Slice):
            return self.slice_of(obj, node.slice, env, node)
        idx = self.eval(node.slice, env)
        return self.lib.getitem(self, obj, idx, node)

    def slice_of(self, obj, sl: ast.Slice, env: Env, node):
        """seq[a:b] (no step) of a tuple / list: a new sequence of the same kind holding the clamped window
        (negative bounds count from the end, out-of-range bounds are clamped - never an error)."""
        if sl.step is not None:
            raise Unsupported("slice with a step")
        sv = self.lib.seq_view(self, obj)
        k = self.kind(obj)
        cname = "tuple" if k == "tuple" else (self.ct.name(self.st.class_id_of(obj)) if k == "ref" and self.st.class_id_of(obj) is not None else None)
        if sv is None or cname not in ("tuple", "list"):
            raise Unsupported("slice of a value that is not a tuple or list")
        arr, lo, hi = sv
        n = hi - lo

        def bound(e, default):
            if e is None:
                return default
            v = self.eval(e, env)
            if self.kind(v) == "none":
                return default
            if self.kind(v) != "int":
                raise Unsupported("slice bound that is not an int")
            b = V.ival(v)
            return z3.If(b < 0, z3.If(n + b < 0, 0, n + b), z3.If(b > n, n, b))
        a, b = bound(sl.lower, z3.IntVal(0)), bound(sl.upper, n)
        a, b = self.st.simp(a), self.st.simp(b)
        length = self.st.simp(z3.If(b > a, b - a, 0))
        conc = self.lib.concrete_items(self, obj)
        if conc is not None and z3.is_int_value(a) and z3.is_int_value(b):
            items = conc[a.as_long():b.as_long()]
            return V.tup(*items) if cname == "tuple" else self.lib.new_seq(self, "list", items)
        i = z3.Int("i!sl")
        out = z3.Lambda([i], z3.Select(arr, lo + a + i))
        return self.lib.new_seq_from(self, cname, out, z3.IntVal(0), length)

    def e_Yield(self, node: ast.Yield, env: Env):
        """`yield v` inside an (async) generator body: the contract decides how the consumer resumes it."""
        v = self.eval(node.value, env) if node.value is not None else V.VNone
        self.st.events.append(("yield", v))
        c = self.st.contract
        if c is not None and hasattr(c, "on_yield"):
            r = c.on_yield(self, v, node)
            return r if r is not None else V.VNone
        raise Unsupported("yield outside a contract that defines the consumer")

    def e_Await(self, node: ast.Await, env: Env):
        v = self.eval(node.value, env)
        return self.do_await(v, node)

    def e_Call(self, node: ast.Call, env: Env):
        # consumer(<generator expression>) shapes are summarised as quantified facts
        if (len(node.args) == 1 and not node.keywords
                and isinstance(node.args[0], (ast.GeneratorExp, ast.ListComp))
                and isinstance(node.func, ast.Name)
                and node.func.id in ("any", "all", "tuple", "list", "frozenset", "set")):
            fv = self.lookup(node.func.id, env)
            lv = self.st.fun_of(fv) if self.kind(fv) == "function" else None
            is_builtin_cls = self.kind(fv) == "type" and z3.is_int_value(self.st.simp(V.cid(fv))) and \
                self.ct.name(self.st.simp(V.cid(fv)).as_long()) == node.func.id
            if (isinstance(lv, LibV) and lv.name == f"builtins.{node.func.id}") or is_builtin_cls:
                return self.lib.comprehension(self, node.func.id, node.args[0], env)
        f = self.eval(node.func, env)
        fobj = self.st.fun_of(f) if self.kind(f) == "function" else None
        if isinstance(fobj, LibV) and fobj.name == "typing.cast" and len(node.args) == 2:
            return self.eval(node.args[1], env)          # cast(T, x) is x; T is a type expression (dropped)
        cargs = self.eval_args(node, env)
        return self.call(f, cargs, node)

    def e_ListComp(self, node, env):
        return self.lib.comprehension(self, "list", node, env)

    def e_DictComp(self, node, env):
        return self.lib.dict_comprehension(self, node, env)

    def e_GeneratorExp(self, node, env):
        g = node.generators
        if len(g) == 1 and not g[0].ifs and not g[0].is_async and isinstance(node.elt, ast.Name) \
                and isinstance(g[0].target, ast.Name) and node.elt.id == g[0].target.id:
            return self.eval(g[0].iter, env)          # (x for x in xs): the same items in the same order
        # a generator consumed later by library code: its items in order (element expressions that
        # fork or raise are rejected by the summariser, so laziness is unobservable)
        return self.lib.comprehension(self, "list", node, env)

    def eval_args(self, node: ast.Call, env: Env) -> CallArgs:
        ca = CallArgs()
        for a in node.args:
            if isinstance(a, ast.Starred):
                v = self.eval(a.value, env)
                conc = self.lib.concrete_items(self, v)
                if conc is not None and ca.star is None:
                    ca.pos.extend(conc)
                elif ca.star is None:
                    ca.star = v
                else:
                    raise Unsupported("two symbolic *args in one call")
            else:
                if ca.star is not None:
                    raise Unsupported("positional after symbolic *args")
                ca.pos.append(self.eval(a, env))
        for k in node.keywords:
            if k.arg is None:
                v = self.eval(k.value, env)
                conc = self.lib.concrete_kwargs(self, v)
                if conc is not None:
                    ca.kw.update(conc)
                elif ca.starstar is None:
                    ca.starstar = v
                else:
                    raise Unsupported("two symbolic **kwargs in one call")
            else:
                ca.kw[k.arg] = self.eval(k.value, env)
        return ca

    # ============================================================== attributes
    def get_attr(self, obj: z3.ExprRef, name: str, node=None) -> z3.ExprRef:
        k = self.kind(obj)
        st = self.st
        if k == "type":
            c = st.simp(V.cid(obj))
            if z3.is_int_value(c):
                info = self.ct.info.get(c.as_long())
                if info is not None:
                    return self.class_attr(info, name, obj)
                if name in ("__name__", "__qualname__"):
                    return self.mk_str(self.ct.name(c.as_long()))
            if name in ("__name__", "__qualname__"):
                return V.VStr(self.lib.cls_name(V.cid(obj)))
            return self.lib.lib_attr(self, obj, name, node)
        if k == "ref":
            c = st.class_id_of(obj)
            if c is not None:
                info = self.ct.info.get(c)
                if info is not None:
                    return self.instance_attr(info, obj, name, node)
            return self.lib.lib_attr(self, obj, name, node)
        if k == "function":
            fv = st.fun_of(obj)
            if isinstance(fv, ModuleV):          # attribute of a repository module object: the module-level symbol
                if name in fv.info.symbols:
                    return self.module_symbol(fv.info, name)
                raise Unsupported(f"module {fv.info.name} has no symbol {name}")
            if isinstance(fv, OracleV):
                if name in fv.attrs:
                    return fv.attrs[name]
                c = st.contract
                if c is not None and getattr(c, "oracle_metadata_may_be_absent", False):
                    r = c.attr(self, obj, name, node)       # an arbitrary callable: partial objects, callable instances
                    if r is not None:
                        return r
                if name in ("__name__", "__qualname__", "__doc__", "__module__"):
                    return V.VStr(self.lib.fun_attr(V.fid(obj), st.strs.setdefault(name, len(st.strs))))
            if isinstance(fv, FuncV):
                if name in ("__name__",):
                    return self.mk_str(getattr(fv.node, "name", "<lambda>"))
                if name == "__qualname__":
                    return self.mk_str(fv.qualname)
            return self.lib.lib_attr(self, obj, name, node)
        if k in ("tuple", "str", "int", "float", "bool", "none"):
            return self.lib.lib_attr(self, obj, name, node)
        return self.engine.unknown_attr(self, obj, name, node)

    def class_attr(self, info, name: str, clsval: z3.ExprRef) -> z3.ExprRef:
        m = info.find_method(name)
        if m is not None:
            kind = info.method_kind(m)
            if kind == "static":
                return self.st.reg_fun(FuncV(m, Env(info.module), info.module, f"{info.name}.{name}", None, info.cid))
            if kind == "class":
                return self.st.reg_fun(FuncV(m, Env(info.module), info.module, f"{info.name}.{name}", clsval, info.cid))
            return self.st.reg_fun(FuncV(m, Env(info.module), info.module, f"{info.name}.{name}", None, info.cid))
        if name in ("__name__", "__qualname__"):
            return self.mk_str(info.name)
        ca = info.find_class_assign(name)
        if ca is not None:
            return self.engine.class_var(self, info, name, ca)
        key = f"$clsvar:{info.name}.{name}"
        if key in self.st.ghost:
            return self.st.ghost[key]
        if self.st.contract is not None:
            ov = self.st.contract.class_var(self, info, name)
            if ov is not None:
                self.st.ghost[key] = ov
                return ov
        raise Unsupported(f"class attribute {info.name}.{name}")

    def instance_attr(self, info, obj: z3.ExprRef, name: str, node=None) -> z3.ExprRef:
        if name in info.fields():
            return self.st.get(obj, name)
        m = info.find_method(name)
        if m is not None:
            kind = info.method_kind(m)
            if kind == "property":
                return self.call_function(self.bind_method(info, m, obj), CallArgs(), node)
            if kind == "static":
                return self.st.reg_fun(FuncV(m, Env(info.module), info.module, f"{info.name}.{name}", None, info.cid))
            if kind == "class":
                return self.st.reg_fun(FuncV(m, Env(info.module), info.module, f"{info.name}.{name}",
                                             V.VCls(z3.IntVal(info.cid)), info.cid))
            return self.st.reg_fun(self.bind_method(info, m, obj))
        if name == "__class__":
            return V.VCls(z3.IntVal(info.cid))
        ca = info.find_class_assign(name)
        if ca is not None:
            return self.engine.class_var(self, info, name, ca)
        return self.engine.unknown_attr(self, obj, name, node)

    def set_attr(self, obj: z3.ExprRef, name: str, val: z3.ExprRef, node=None) -> None:
        k = self.kind(obj)
        if k == "ref":
            c = self.st.class_id_of(obj)
            info = self.ct.info.get(c) if c is not None else None
            if info is not None:
                m = info.find_method("__setattr__")
                if m is not None and not self.st.ghost.get("$in_init"):
                    self.call_function(self.bind_method(info, m, obj), CallArgs([self.mk_str(name), val]), node)
                    return
            self.st.ghost.setdefault("$attr_writes", []).append((obj, name))      # for frame clauses of contracts
            self.st.put(obj, name, val)
            return
        if k == "type":
            c = self.st.simp(V.cid(obj))
            if z3.is_int_value(c):
                self.engine.set_class_var(self, c.as_long(), name, val)
                return
        if k == "function":
            fv = self.st.fun_of(obj)
            self.st.ghost.setdefault("$fattrs", {})[(str(self.st.simp(obj)), name)] = val
            return
        raise Unsupported(f"attribute store on {k}")

    # ============================================================== calls
    def call(self, f: z3.ExprRef, cargs: CallArgs, node=None) -> z3.ExprRef:
        st = self.st
        k = self.kind(f)
        if k == "function":
            fv = st.fun_of(f)
            if fv is None:
                return self.engine.call_unknown_function(self, f, cargs, node)
            if isinstance(fv, FuncV):
                return self.call_function(fv, cargs, node)
            if isinstance(fv, LibV):
                return self.lib.call(self, fv, cargs, node)
            if isinstance(fv, OracleV):
                return self.call_oracle(fv, f, cargs, node)
            if isinstance(fv, PartialV):
                merged = CallArgs(list(fv.args) + list(cargs.pos), {**fv.kw, **cargs.kw}, cargs.star, cargs.starstar)
                return self.call(fv.func, merged, node)
            if callable(fv):
                return fv(self, cargs, node)
            raise Unsupported(f"call of {type(fv).__name__}")
        if k == "type":
            c = st.simp(V.cid(f))
            if z3.is_int_value(c):
                return self.instantiate(c.as_long(), cargs, node)
            return self.engine.call_unknown_function(self, f, cargs, node)
        if k == "ref":
            c = st.class_id_of(f)
            info = self.ct.info.get(c) if c is not None else None
            if info is not None:
                m = info.find_method("__call__")
                if m is not None:
                    return self.call_function(self.bind_method(info, m, f), cargs, node)
            if c is not None and self.ct.name(c) == "partial":
                pv = st.ghost["$partials"][str(st.simp(V.addr(f)))]
                merged = CallArgs(list(pv.args) + list(cargs.pos), {**pv.kw, **cargs.kw}, cargs.star, cargs.starstar)
                return self.call(pv.func, merged, node)
            return self.engine.call_unknown_function(self, f, cargs, node)
        if k in ("none", "int", "float", "bool", "str", "tuple"):
            raise PyRaise(self.new_exc("TypeError"), f"'{k}' object is not callable")
        # completely unknown value: callable or not
        return self.engine.call_unknown_function(self, f, cargs, node)

    def instantiate(self, c: int, cargs: CallArgs, node=None) -> z3.ExprRef:
        if self.ct.name(c) == "type" and len(cargs.pos) == 1 and not cargs.kw:
            return V.VCls(V.type_of(cargs.pos[0], self.ct))        # type(x)
        info = self.ct.info.get(c)
        if info is None:
            return self.lib.construct(self, self.ct.name(c), cargs, node)
        override = self.engine.instantiate_override(self, info, cargs, node)
        if override is not None:
            return override
        if info.is_namedtuple():
            names = info.annotated_fields()
            vals = []
            for i, n in enumerate(names):
                v = cargs.arg(i, n)
                if v is None:
                    raise Unsupported("namedtuple default")
                vals.append(v)
            return V.tup(*vals)
        obj = self.st.alloc(c)
        init = info.find_method("__init__")
        if init is not None:
            prev = self.st.ghost.get("$in_init")
            self.st.ghost["$in_init"] = True
            try:
                self.call_function(self.bind_method(info, init, obj), cargs, node)
            finally:
                self.st.ghost["$in_init"] = prev
        elif self.ct.is_sub(c, self.ct.id("BaseException")):
            self.st.put(obj, "args", V.tup(*cargs.pos))
        return obj

    def call_function(self, fv: FuncV, cargs: CallArgs, node=None) -> z3.ExprRef:
        # contracted callee?
        spec = self.engine.callee_spec(self, fv)
        if spec is not None:
            return spec(self, fv, cargs, node)
        if fv.is_async:
            if self.st.no_fork:
                # inside a summarised comprehension: the coroutine object as a term of its argument
                if len(cargs.pos) == 1 and not cargs.kw and cargs.star is None and cargs.starstar is None:
                    key = ("coro_fn", fv.qualname)
                    cache = self.st.ghost.setdefault("$coro_fns", {})
                    if key not in cache:
                        cache[key] = self.st.reg_fun(FuncV(fv.node, fv.env, fv.module, fv.qualname, fv.bound, fv.cls))
                    return self.lib.coro_app(cache[key], cargs.pos[0])
                raise Unsupported("async call shape inside a summarised comprehension")
            return self.st.reg_fun(AwaitableV("coro", {"fv": fv, "cargs": cargs}))
        return self.run_function(fv, cargs, node)

    def run_function(self, fv: FuncV, cargs: CallArgs, node=None) -> z3.ExprRef:
        if self.st.depth > MAX_INLINE_DEPTH:
            raise Unsupported(f"inlining depth exceeded at {fv.qualname}")
        env = Env(fv.module, fv.env)
        self.bind_params(fv, cargs, env)
        self.st.depth += 1
        try:
            if isinstance(fv.node, ast.Lambda):
                return self.eval(fv.node.body, env)
            try:
                self.exec_block(fv.node.body, env)
            except PyReturn as r:
                return r.val
            return V.VNone
        finally:
            self.st.depth -= 1

    @staticmethod
    def _reserved_param(fv: FuncV, name: str, index: int) -> bool:
        """Parameter names that caller keywords are assumed never to use (stated precondition of every contract
        with symbolic **kwargs): the receiver `self` in first position and class-private names, which the
        compiler mangles to `_Class__name`.  (`cls` is not exempt: a classmethod that forwards caller keywords must take
        its class positional-only.)"""
        if index == 0 and name == "self":
            return True
        return name.startswith("__") and not name.endswith("__") and fv.cls is not None

    def _default_value(self, fv: FuncV, node: ast.expr) -> z3.ExprRef:
        """A default is evaluated once, when the `def` runs; re-evaluating it at every call gives the same value only
        for expressions without allocation or side effect (selfcheck `default_twice`: a list display was re-created)."""
        ok = (ast.Constant, ast.Name, ast.Attribute, ast.Lambda, ast.UnaryOp, ast.Tuple, ast.Load, ast.USub, ast.Not,
              ast.arguments, ast.arg, ast.BinOp, ast.Add, ast.Sub, ast.Mult, ast.Compare, ast.Is, ast.IsNot, ast.Eq, ast.NotEq)
        # (a lambda default is a function object: created once in CPython, per call here; its identity is never used)
        for sub in ([] if isinstance(node, ast.Lambda) else ast.walk(node)):
            if not isinstance(sub, ok):
                raise Unsupported(f"default `{ast.unparse(node)}` of {fv.qualname} is evaluated once at definition "
                                  "(mutable or effectful default)")
        return self.eval(node, fv.env)

    def bind_params(self, fv: FuncV, cargs: CallArgs, env: Env) -> None:
        a: ast.arguments = fv.node.args
        pos = list(cargs.pos)
        kw = dict(cargs.kw)
        if fv.bound is not None:
            pos = [fv.bound] + pos
        params = list(a.posonlyargs) + list(a.args)
        n_pos = len(params)
        defaults = [None] * (n_pos - len(a.defaults)) + list(a.defaults)
        star, starstar = cargs.star, cargs.starstar
        taken: list = []

        def from_starstar(name: str) -> z3.ExprRef | None:
            """A named parameter that the call does not bind explicitly is bound from **mapping when the mapping
            has that key (selfcheck `call_forms`: it used to fall through to the default)."""
            if starstar is None:
                return None
            key = self.mk_str(name)
            parts = self.lib.dict_parts(self, starstar)
            if self.st.decide(z3.Select(parts["has"], key), f"kwargs-supply:{name}"):
                taken.append(key)
                return z3.Select(parts["val"], key)
            return None

        for i, p in enumerate(params):
            if i < len(pos):
                env.vars[p.arg] = pos[i]
                if p.arg in kw and p not in a.posonlyargs:
                    raise PyRaise(self.new_exc("TypeError"), f"{fv.qualname}() got multiple values for argument {p.arg}")
                if starstar is not None and p not in a.posonlyargs and not self._reserved_param(fv, p.arg, i):
                    # a caller-chosen keyword may collide with a named parameter that is already bound
                    # positionally: Python raises TypeError before the body runs
                    has = z3.Select(self.lib.dict_parts(self, starstar)["has"], self.mk_str(p.arg))
                    if self.st.decide(has, f"kwargs-collide-with:{p.arg}"):
                        raise PyRaise(self.new_exc("TypeError"), f"{fv.qualname}() got multiple values for argument {p.arg}")
            elif p.arg in kw and p not in a.posonlyargs:
                env.vars[p.arg] = kw.pop(p.arg)
            elif star is not None:
                raise Unsupported(f"symbolic *args feeding named parameter {p.arg} of {fv.qualname}")
            elif p not in a.posonlyargs and not self._reserved_param(fv, p.arg, i) \
                    and (got := from_starstar(p.arg)) is not None:
                env.vars[p.arg] = got
            elif defaults[i] is not None:
                env.vars[p.arg] = self._default_value(fv, defaults[i])
            else:
                raise PyRaise(self.new_exc("TypeError"), f"missing argument {p.arg} of {fv.qualname}")
        extra = pos[n_pos:]
        if a.vararg is not None:
            if star is not None:
                if extra:
                    env.vars[a.vararg.arg] = self.lib.tuple_prepend(self, extra, star)
                else:
                    env.vars[a.vararg.arg] = self.lib.as_tuple(self, star)
            else:
                env.vars[a.vararg.arg] = V.tup(*extra)
        elif extra or star is not None:
            if extra:
                raise PyRaise(self.new_exc("TypeError"), f"too many positional arguments for {fv.qualname}")
            raise Unsupported(f"symbolic *args into {fv.qualname} without *param")
        for p, d in zip(a.kwonlyargs, a.kw_defaults):
            if p.arg in kw:
                env.vars[p.arg] = kw.pop(p.arg)
            elif (got := from_starstar(p.arg)) is not None:
                env.vars[p.arg] = got
            elif d is not None:
                env.vars[p.arg] = self._default_value(fv, d)
            else:
                raise PyRaise(self.new_exc("TypeError"), f"missing keyword argument {p.arg} of {fv.qualname}")
        if starstar is not None and taken:
            starstar = self.lib.dict_of(self, starstar)
            for key in taken:
                self.lib.dict_remove_at(self, starstar, key)
        if a.kwarg is not None:
            if starstar is not None and not kw:
                env.vars[a.kwarg.arg] = starstar
            elif starstar is None:
                env.vars[a.kwarg.arg] = self.lib.kwargs_dict(self, kw)
            else:
                raise Unsupported("mixing explicit and symbolic keyword arguments")
        elif kw or starstar is not None:
            if kw:
                raise PyRaise(self.new_exc("TypeError"), f"unexpected keyword {list(kw)} for {fv.qualname}")
            raise Unsupported(f"symbolic **kwargs into {fv.qualname} without **param")

    # ---- oracles -----------------------------------------------------------------------------
    def call_pure(self, ok, res, exc, tag: str) -> z3.ExprRef:
        """A pure partial function (e.g. a validator: deterministic, no side effects): inside a
        summarised comprehension its definedness is logged, otherwise the call forks."""
        st = self.st
        log = st.ghost.get("$pure_log")
        if st.no_fork and log is not None:
            log.append((ok, exc))
            return res
        if st.decide(ok, f"{tag}:accepts"):
            return res
        raise PyRaise(exc, f"{tag} rejected the value")

    def call_oracle(self, ov: OracleV, fterm, cargs: CallArgs, node=None) -> z3.ExprRef:
        if ov.is_async:
            return self.st.reg_fun(AwaitableV("oracle", {"ov": ov, "cargs": cargs, "fterm": fterm}))
        return self.oracle_outcome(ov, fterm, cargs, node)

    def oracle_outcome(self, ov: OracleV, fterm, cargs: CallArgs, node=None) -> z3.ExprRef:
        if ov.spec is not None:
            return ov.spec(self, ov, cargs, node)
        return self.default_oracle(ov.name, cargs)

    def default_oracle(self, name: str, cargs: CallArgs | None = None) -> z3.ExprRef:
        st = self.st
        n = st.counters.get(f"call:{name}", 0)
        st.counters[f"call:{name}"] = n + 1
        j = st.fork(f"call:{name}#{n}", [("returns", True), ("raises", True)])
        st.events.append(("oracle", name, n, cargs))
        if j == 0:
            r = st.fresh_val(f"{name}.ret")
            st.events.append(("oracle-ret", name, n, r))
            return r
        e = self.fresh_exception(f"{name}.exc")
        st.events.append(("oracle-exc", name, n, e))
        raise PyRaise(e, f"oracle {name}")

    def fresh_exception(self, name: str) -> z3.ExprRef:
        """A pre-existing/unknown exception object of unknown class below BaseException."""
        st = self.st
        a = st.fresh(name, I)
        st.assume(z3.And(a >= 2 * 1_000_000 + 0, a < 3_000_000))   # disjoint from inputs and our allocations
        st.assume(V.subclass(V.class_of(a), self.ct.id("BaseException")))
        return V.VRef(a)

    # ============================================================== await
    def do_await(self, v: z3.ExprRef, node=None) -> z3.ExprRef:
        st = self.st
        aw = st.fun_of(v) if self.kind(v) == "function" else None
        idx = self.await_ordinal
        self.await_ordinal += 1
        if not isinstance(aw, AwaitableV):
            aw = self.lib.awaitable_of(self, v, node)
        return self.engine.await_(self, aw, idx, node)

    # ============================================================== statements
    def exec_block(self, stmts: list[ast.stmt], env: Env) -> None:
        for s in stmts:
            self.exec(s, env)

    def exec(self, node: ast.stmt, env: Env) -> None:
        m = getattr(self, "s_" + type(node).__name__, None)
        if m is None:
            raise Unsupported(f"statement {type(node).__name__} at line {node.lineno}")
        m(node, env)

    def pos(self, node) -> str:
        # stable, line-number free position: ordinal of node kind inside the function being run
        key = self.st.ghost.setdefault("$posmap", {})
        nid = id(node)
        if nid not in key:
            kind = type(node).__name__
            cnt = self.st.ghost.setdefault("$poscnt", {})
            cnt[kind] = cnt.get(kind, 0) + 1
            key[nid] = f"{cnt[kind]}"
        return key[nid]

    def s_Expr(self, node: ast.Expr, env: Env):
        if isinstance(node.value, ast.Constant):
            return
        self.eval(node.value, env)

    def s_Pass(self, node, env):
        return

    def s_Nonlocal(self, node: ast.Nonlocal, env: Env):
        """A closure cell written by the function.  When the enclosing frame is not part of the scenario
        (the contract starts at the nested function) the cell holds an arbitrary earlier value: any
        previous invocation may have left it there."""
        if not hasattr(env, "nonlocals"):
            env.nonlocals = set()
        for name in node.names:
            env.nonlocals.add(name)
            if env.lookup(name) is None:
                env.vars[name] = self.st.fresh_val(f"closure!{name}")

    def s_Return(self, node: ast.Return, env: Env):
        raise PyReturn(self.eval(node.value, env) if node.value is not None else V.VNone)

    def s_Break(self, node, env):
        raise PyBreak()

    def s_Continue(self, node, env):
        raise PyContinue()

    def s_Assign(self, node: ast.Assign, env: Env):
        v = self.eval(node.value, env)
        for t in node.targets:
            self.assign(t, v, env)

    def s_AnnAssign(self, node: ast.AnnAssign, env: Env):
        if node.value is None:
            return
        self.assign(node.target, self.eval(node.value, env), env)

    def s_AugAssign(self, node: ast.AugAssign, env: Env):
        if isinstance(node.target, ast.Name):
            cur = self.lookup(node.target.id, env)
        elif isinstance(node.target, ast.Attribute):
            cur = self.get_attr(self.eval(node.target.value, env), node.target.attr, node)
        else:
            raise Unsupported("augmented assignment target")
        self.assign(node.target, self.binop(node.op, cur, self.eval(node.value, env), node), env)

    def assign(self, target: ast.AST, v: z3.ExprRef, env: Env) -> None:
        if isinstance(target, ast.Name):
            self.assign_name(target.id, v, env)
        elif isinstance(target, ast.Attribute):
            self.engine.setattr_(self, self.eval(target.value, env), target.attr, v, target)
        elif isinstance(target, ast.Subscript):
            obj = self.eval(target.value, env)
            idx = self.eval(target.slice, env)
            self.lib.setitem(self, obj, idx, v, target)
        elif isinstance(target, (ast.Tuple, ast.List)):
            items = self.lib.concrete_items(self, v)
            if items is None or len(items) != len(target.elts):
                self.lib.unpack(self, target, v, env)
                return
            for t, x in zip(target.elts, items):
                self.assign(t, x, env)
        else:
            raise Unsupported("assignment target")

    def s_Delete(self, node: ast.Delete, env: Env):
        for t in node.targets:
            if isinstance(t, ast.Subscript):
                self.lib.delitem(self, self.eval(t.value, env), self.eval(t.slice, env), t)
            else:
                raise Unsupported("del target")

    def s_If(self, node: ast.If, env: Env):
        c = self.eval(node.test, env)
        if self.test(c, f"if@{self.pos(node)}"):
            self.exec_block(node.body, env)
        else:
            self.exec_block(node.orelse, env)

    def s_Assert(self, node: ast.Assert, env: Env):
        c = self.eval(node.test, env)
        t = self.truthy(c)
        mode = self.engine.assert_mode(self, node)
        if mode == "assume":
            self.st.assume(t)
            return
        if mode == "check":
            self.st.check(f"assert:{self.pos(node)}", t, kind="assert",
                          note=ast.unparse(node.test)[:120])
        if not self.st.decide(t, f"assert@{self.pos(node)}"):
            raise PyRaise(self.new_exc("AssertionError"), "assert")

    def s_Raise(self, node: ast.Raise, env: Env):
        if node.exc is None:
            cur = self.st.ghost.get("$handling")
            if cur is None:
                raise Unsupported("bare raise outside handler")
            raise PyRaise(cur, "reraise")
        e = self.eval(node.exc, env)
        if self.kind(e) == "type":
            e = self.call(e, CallArgs(), node)
        if node.cause is not None:
            cause = self.eval(node.cause, env)
            if self.kind(e) == "ref":
                # `raise e from c` stores into the exception object (language reference 7.8): __cause__ = c and
                # __suppress_context__ = True - logged like every attribute store, so that frame clauses see it
                self.st.ghost.setdefault("$attr_writes", []).append((e, "__cause__"))
                self.st.ghost.setdefault("$attr_writes", []).append((e, "__suppress_context__"))
                self.st.put(e, "__cause__", cause)
                self.st.put(e, "__suppress_context__", V.VBool(True))
        raise PyRaise(e, "raise")

    def s_FunctionDef(self, node, env: Env):
        qn = node.name
        env.vars[node.name] = self.make_function(node, env, env.module, qn)

    s_AsyncFunctionDef = s_FunctionDef

    def s_Try(self, node: ast.Try, env: Env):
        def run_finally():
            if node.finalbody:
                self.exec_block(node.finalbody, env)

        try:
            try:
                self.exec_block(node.body, env)
            except PyRaise as pr:
                handled = False
                for hi, h in enumerate(node.handlers):
                    if h.type is None:
                        cond = z3.BoolVal(True)
                    else:
                        cval = self.eval(h.type, env)
                        cond = self.isinstance_term(pr.val, cval)
                    if self.st.decide(cond, f"except@{self.pos(node)}.{hi}"):
                        handled = True
                        if h.name:
                            env.vars[h.name] = pr.val
                        prev = self.st.ghost.get("$handling")
                        self.st.ghost["$handling"] = pr.val
                        try:
                            self.exec_block(h.body, env)
                        finally:
                            self.st.ghost["$handling"] = prev
                        break
                if not handled:
                    raise
            else:
                if node.orelse:
                    self.exec_block(node.orelse, env)
        except (PyRaise, PyReturn, PyBreak, PyContinue):
            run_finally()       # an exception/return in finally replaces the pending one
            raise
        else:
            run_finally()

    def s_While(self, node: ast.While, env: Env):
        self.engine.loop(self, node, env)

    def s_For(self, node: ast.For, env: Env):
        self.engine.loop(self, node, env)

    def s_AsyncFor(self, node: ast.AsyncFor, env: Env):
        c = self.st.contract
        if c is not None and hasattr(c, "async_for"):
            return c.async_for(self, node, env)
        raise Unsupported("async for outside a contract that defines the iterator")

    def s_With(self, node: ast.With, env: Env):
        self.with_stmt(node, env, False)

    def s_AsyncWith(self, node: ast.AsyncWith, env: Env):
        self.with_stmt(node, env, True)

    def with_stmt(self, node, env: Env, is_async: bool, i: int = 0):
        if i == len(node.items):
            self.exec_block(node.body, env)
            return
        item = node.items[i]
        cm = self.eval(item.context_expr, env)
        enter = self.get_attr(cm, "__aenter__" if is_async else "__enter__", node)
        exit_ = self.get_attr(cm, "__aexit__" if is_async else "__exit__", node)
        r = self.call(enter, CallArgs(), node)
        if is_async:
            r = self.do_await(r, node)
        if item.optional_vars is not None:
            self.assign(item.optional_vars, r, env)
        try:
            self.with_stmt(node, env, is_async, i + 1)
        except PyRaise as pr:
            et = V.VCls(V.type_of(pr.val, self.ct))
            res = self.call(exit_, CallArgs([et, pr.val, self.lib.traceback_of(pr.val)]), node)
            if is_async:
                res = self.do_await(res, node)
            if self.test(res, f"with-suppress@{self.pos(node)}"):
                return
            raise
        except (PyReturn, PyBreak, PyContinue):
            res = self.call(exit_, CallArgs([V.VNone, V.VNone, V.VNone]), node)
            if is_async:
                self.do_await(res, node)
            raise
        else:
            res = self.call(exit_, CallArgs([V.VNone, V.VNone, V.VNone]), node)
            if is_async:
                self.do_await(res, node)

    def s_Match(self, node: ast.Match, env: Env):
        subj = self.eval(node.subject, env)
        for ci, case in enumerate(node.cases):
            binds: dict[str, z3.ExprRef] = {}
            cond = self.pattern(case.pattern, subj, binds, env)
            if not self.st.decide(cond, f"match@{self.pos(node)}.case{ci}"):
                continue
            for k, v in binds.items():
                env.vars[k] = v() if callable(v) else v
            if case.guard is not None:
                g = self.eval(case.guard, env)
                if not self.test(g, f"match@{self.pos(node)}.guard{ci}"):
                    continue
            self.exec_block(case.body, env)
            return

    def pattern(self, p: ast.pattern, subj: z3.ExprRef, binds: dict, env: Env) -> z3.ExprRef:
        if isinstance(p, ast.MatchSingleton):
            if p.value is None:
                return V.is_none(subj)
            return subj == self.mk_bool(bool(p.value))
        if isinstance(p, ast.MatchAs):
            cond = z3.BoolVal(True) if p.pattern is None else self.pattern(p.pattern, subj, binds, env)
            if p.name is not None:
                binds[p.name] = subj
            return cond
        if isinstance(p, ast.MatchClass):
            cval = self.eval(p.cls, env)
            cond = self.isinstance_term(subj, cval)
            if p.kwd_patterns:
                raise Unsupported("keyword class patterns")
            if p.patterns:
                if len(p.patterns) != 1:
                    raise Unsupported("multi positional class pattern")
                # builtin classes (float, int, str, ...) match the whole subject positionally
                sub = p.patterns[0]
                cond = z3.And(cond, self.pattern(sub, subj, binds, env))
            return cond
        if isinstance(p, ast.MatchSequence):
            if len(p.patterns) == 1 and isinstance(p.patterns[0], ast.MatchStar):
                cond = self.lib.is_sequence_pattern(self, subj)
                name = p.patterns[0].name
                if name is not None:
                    binds[name] = lambda: self.lib.list_of(self, subj)
                return cond
            raise Unsupported("sequence pattern shape")
        if isinstance(p, ast.MatchMapping):
            if not p.keys and p.rest is not None:
                cond = self.lib.is_mapping_pattern(self, subj)
                binds[p.rest] = lambda: self.lib.dict_of(self, subj)
                return cond
            raise Unsupported("mapping pattern shape")
        if isinstance(p, ast.MatchValue):
            v = self.eval(p.value, env)
            return self.py_eq(subj, v)
        if isinstance(p, ast.MatchOr):
            conds = []
            for sp in p.patterns:
                conds.append(self.pattern(sp, subj, binds, env))
            return z3.Or(conds)
        raise Unsupported(f"pattern {type(p).__name__}")

