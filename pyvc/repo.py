"""Locating and parsing the real source under /repo/src/haiway on every run."""
from __future__ import annotations

import ast
import hashlib
import os
from dataclasses import dataclass, field

REPO_ROOT = os.environ.get("VERIF_REPO", "/repo")
SRC_ROOT = os.path.join(REPO_ROOT, "src")


class FunctionNotFound(Exception):
    pass


@dataclass
class ModuleInfo:
    name: str                     # dotted, e.g. haiway.helpers.retries
    path: str
    source: str
    tree: ast.Module
    symbols: dict[str, tuple] = field(default_factory=dict)

    def segment(self, node: ast.AST) -> str:
        return ast.get_source_segment(self.source, node) or ""


class Repo:
    def __init__(self, src_root: str | None = None) -> None:
        self.src_root = src_root or SRC_ROOT
        self.modules: dict[str, ModuleInfo | None] = {}

    # ------------------------------------------------------------------ modules
    def module_path(self, name: str) -> str | None:
        base = os.path.join(self.src_root, *name.split("."))
        if os.path.isfile(base + ".py"):
            return base + ".py"
        if os.path.isfile(os.path.join(base, "__init__.py")):
            return os.path.join(base, "__init__.py")
        return None

    def module(self, name: str) -> ModuleInfo | None:
        if name in self.modules:
            return self.modules[name]
        path = self.module_path(name)
        if path is None:
            self.modules[name] = None
            return None
        with open(path, encoding="utf-8") as fh:
            source = fh.read()
        tree = ast.parse(source, filename=path)
        info = ModuleInfo(name, path, source, tree)
        self._index(info)
        self.modules[name] = info
        return info

    def module_for_file(self, relfile: str) -> ModuleInfo:
        """relfile like 'helpers/retries.py' (relative to src/haiway)."""
        name = "haiway." + relfile[:-3].replace("/", ".")
        if name.endswith(".__init__"):
            name = name[: -len(".__init__")]
        info = self.module(name)
        if info is None:
            raise FunctionNotFound(f"module {relfile} not found under {self.src_root}")
        return info

    def _index(self, info: ModuleInfo) -> None:
        pkg = info.name if info.path.endswith("__init__.py") else info.name.rpartition(".")[0]

        def visit(stmts: list[ast.stmt]) -> None:
            for st in stmts:
                if isinstance(st, (ast.FunctionDef, ast.AsyncFunctionDef)):
                    info.symbols[st.name] = ("def", st)
                elif isinstance(st, ast.ClassDef):
                    info.symbols[st.name] = ("class", st)
                elif isinstance(st, ast.ImportFrom):
                    mod = st.module or ""
                    if st.level:
                        parts = pkg.split(".")
                        parts = parts[: len(parts) - (st.level - 1)]
                        mod = ".".join(parts + ([mod] if mod else []))
                    for al in st.names:
                        info.symbols[al.asname or al.name] = ("import", mod, al.name)
                elif isinstance(st, ast.Import):
                    for al in st.names:
                        info.symbols[al.asname or al.name.split(".")[0]] = ("module", al.name)
                elif isinstance(st, ast.Assign):
                    for t in st.targets:
                        if isinstance(t, ast.Name):
                            info.symbols[t.id] = ("assign", st.value)
                elif isinstance(st, ast.AnnAssign) and isinstance(st.target, ast.Name) and st.value is not None:
                    info.symbols[st.target.id] = ("assign", st.value)
                elif isinstance(st, ast.If):
                    # `if __debug__:` is taken with __debug__ = True (DESIGN 3.2)
                    if isinstance(st.test, ast.Name) and st.test.id == "__debug__":
                        visit(st.body)
                    else:
                        visit(st.body)
                        visit(st.orelse)
                elif isinstance(st, ast.Try):
                    visit(st.body)

        visit(info.tree.body)

    # ------------------------------------------------------------------ functions
    def find(self, relfile: str, qualname: str):
        """Return (node, module, chain) for e.g. '_wrap_sync.wrapped' or '_SyncCache.__call__'.
        `chain` is the list of enclosing def/class nodes (outermost first)."""
        info = self.module_for_file(relfile)
        parts = qualname.split(".")
        chain: list[ast.AST] = []
        body: list[ast.stmt] = info.tree.body
        node: ast.AST | None = None
        for i, part in enumerate(parts):
            if "#" in part:                      # name#k: the k-th definition of that name in source order
                nm, k = part.split("#")
                alld = self._find_all(body, nm)
                found = alld[int(k)] if int(k) < len(alld) else None
            else:
                found = self._find_in(body, part)
            if found is None:
                raise FunctionNotFound(f"{relfile}::{qualname} (no '{part}')")
            node = found
            if i < len(parts) - 1:
                chain.append(found)
                body = found.body  # type: ignore[attr-defined]
        assert node is not None
        return node, info, chain

    def _find_all(self, body: list[ast.stmt], name: str) -> list:
        out = []
        for st in body:
            if isinstance(st, (ast.FunctionDef, ast.AsyncFunctionDef, ast.ClassDef)) and st.name == name:
                if isinstance(st, ast.ClassDef) or not _is_overload(st):
                    out.append(st)
            elif isinstance(st, ast.If):
                out += self._find_all(st.body, name) + self._find_all(st.orelse, name)
            elif isinstance(st, ast.Try):
                out += self._find_all(st.body, name)
            elif isinstance(st, (ast.With, ast.AsyncWith, ast.For, ast.While)):
                out += self._find_all(st.body, name)
        return out

    def _find_in(self, body: list[ast.stmt], name: str):
        # last definition wins, skipping @overload stubs; descends into if/else/try/with bodies
        hit = None
        for st in body:
            if isinstance(st, (ast.FunctionDef, ast.AsyncFunctionDef, ast.ClassDef)) and st.name == name:
                if isinstance(st, ast.ClassDef) or not _is_overload(st):
                    hit = st
            elif isinstance(st, ast.If):
                if isinstance(st.test, ast.Name) and st.test.id == "__debug__":
                    sub = self._find_in(st.body, name)
                else:
                    sub = self._find_in(st.body, name) or self._find_in(st.orelse, name)
                hit = sub or hit
            elif isinstance(st, (ast.Try,)):
                hit = self._find_in(st.body, name) or hit
            elif isinstance(st, (ast.With, ast.AsyncWith, ast.For, ast.While)):
                hit = self._find_in(st.body, name) or hit
        return hit


def _is_overload(fn: ast.FunctionDef | ast.AsyncFunctionDef) -> bool:
    for d in fn.decorator_list:
        if isinstance(d, ast.Name) and d.id == "overload":
            return True
        if isinstance(d, ast.Attribute) and d.attr == "overload":
            return True
    return False


def source_hash(info: ModuleInfo, node: ast.AST) -> str:
    return hashlib.sha256(info.segment(node).encode()).hexdigest()[:16]
