"""Discharging obligations: z3 (in process) first, then /usr/bin/cvc5 and /usr/bin/z3 on an
SMT-LIB dump for anything z3 leaves open."""
from __future__ import annotations

import os
import subprocess
import tempfile
import time

import z3

from .state import Obl


def relevant_classes(engine, formulas, names: set | None = None) -> set[int]:
    n = len(engine.ct.names)
    seen: set[int] = set()
    nums: set[int] = set()
    todo = list(formulas)
    while todo:
        t = todo.pop()
        i = t.get_id()
        if i in seen:
            continue
        seen.add(i)
        if z3.is_int_value(t):
            v = t.as_long()
            if 0 <= v < n:
                nums.add(v)
        elif z3.is_quantifier(t):
            todo.append(t.body())
        else:
            if names is not None and z3.is_app(t) and t.num_args() > 0:
                names.add(t.decl().name())
            todo.extend(t.children())
    out: set[int] = set()
    for c in nums:
        out |= engine.ct.ancestors(c)
    return out


def _decl_names(ax) -> set[str]:
    names: set[str] = set()
    relevant_classes_dummy = []
    todo = [ax]
    seen = set()
    while todo:
        t = todo.pop()
        if t.get_id() in seen:
            continue
        seen.add(t.get_id())
        if z3.is_quantifier(t):
            todo.append(t.body())
        else:
            if z3.is_app(t) and t.num_args() > 0 and t.decl().kind() == z3.Z3_OP_UNINTERPRETED:
                names.add(t.decl().name())
            todo.extend(t.children())
    return names


def background_for(engine, formulas) -> list:
    """Background theory restricted to the interned classes that can matter for these formulas
    (every class id occurring in them, closed under base classes) + the quantified closure axioms."""
    from . import vals as V
    from . import lib
    names: set[str] = set()
    rel = sorted(relevant_classes(engine, formulas, names))
    ct = engine.ct
    ax = []
    for a in rel:
        anc = ct.ancestors(a)
        for b in rel:
            ax.append(V.subclass(a, b) if b in anc else z3.Not(V.subclass(a, b)))
    # quantified axioms are included lazily: only when one of their uninterpreted symbols occurs
    for q in engine.background():
        if z3.is_quantifier(q) and (_decl_names(q) & names):
            ax.append(q)
    return ax


def build_solver(engine, obl: Obl, timeout_ms: int) -> z3.Solver:
    s = z3.Solver()
    s.set("timeout", timeout_ms)
    for ax in background_for(engine, list(obl.pc) + [obl.goal]):
        s.add(ax)
    for f in obl.pc:
        s.add(f)
    s.add(z3.Not(obl.goal))
    return s


def model_summary(m: z3.ModelRef, obl: Obl, limit: int = 60) -> dict:
    out = {}
    for k, t in obl.meta.items():
        try:
            out[k] = str(m.eval(t, model_completion=True))
        except z3.Z3Exception:
            out[k] = "?"
    consts = {}
    for d in m.decls()[:limit]:
        if d.arity() == 0:
            s = str(m[d])
            if len(s) < 200:
                consts[d.name()] = s
    out["$consts"] = consts
    return out


def discharge(engine, obl: Obl, timeout_ms: int = 10000, fallback: bool = True) -> dict:
    t0 = time.time()
    goal = z3.simplify(obl.goal)
    if z3.is_true(goal):
        return dict(status="unsat", backend="simplifier", time=time.time() - t0)
    reason = ""
    stages = [min(4000, timeout_ms)] + ([timeout_ms] if timeout_ms > 4000 else [])
    for si, tmo in enumerate(stages):
        s = build_solver(engine, obl, tmo)
        r = s.check()
        if r == z3.unsat:
            return dict(status="unsat", backend="z3-5.1(api)", time=time.time() - t0)
        if r == z3.sat:
            return dict(status="sat", backend="z3-5.1(api)", time=time.time() - t0,
                        model=model_summary(s.model(), obl))
        reason = s.reason_unknown()
        if si == 0 and obl.hints:
            # a model of (query AND hints) is a model of the query: look for a small counter-model
            s2 = build_solver(engine, obl, max(3000, timeout_ms // 3))
            for h in obl.hints:
                s2.add(h)
            if s2.check() == z3.sat:
                return dict(status="sat", backend="z3-5.1(api,small-model hints)", time=time.time() - t0,
                            model=model_summary(s2.model(), obl))
    if fallback:
        smt = "(set-logic ALL)\n" + s.to_smt2()
        for backend, cmd in (("z3-4.8.12(cli)", ["/usr/bin/z3", f"-T:{max(1, timeout_ms // 1000)}", "-in"]),
                             ("cvc5-1.0.3(cli)", ["/usr/bin/cvc5", f"--tlimit={timeout_ms}", "--lang=smt2",
                                                  "--arrays-exp", "-"])):
            if not os.path.exists(cmd[0]):
                continue
            try:
                p = subprocess.run(cmd, input=smt, capture_output=True, text=True,
                                   timeout=timeout_ms / 1000 + 5)
                ans = p.stdout.strip().splitlines()[0] if p.stdout.strip() else ""
            except (subprocess.TimeoutExpired, OSError):
                ans = ""
            if ans == "unsat":
                return dict(status="unsat", backend=backend, time=time.time() - t0)
    return dict(status="unknown", backend="z3-5.1(api)", time=time.time() - t0, reason=reason)


def smt2_of(engine, obl: Obl) -> str:
    return build_solver(engine, obl, 1000).to_smt2()
