"""Trusted specifications of the Python builtins and library functions the verified code uses
(DESIGN 3.7).  Every handler is a few lines of symbolic semantics; the names of the specs that
were exercised by a run are reported in the evidence (`trusted_base`)."""
from __future__ import annotations

import ast

import z3

from . import vals as V
from .vals import Val, I, B, R
from .state import State, Unsupported, PathEnd, PyRaise, PyReturn, FIELD_SORTS

# uninterpreted helpers -------------------------------------------------------------------------
str_len = z3.Function("str_len", I, I)
str_concat = z3.Function("str_concat", I, I, I)
str_of = z3.Function("str_of", I, I)                 # identity-like rendering of a str
render = z3.Function("render", Val, I)               # str(v) / format(v)
cls_name = z3.Function("cls_name", I, I)
fun_attr = z3.Function("fun_attr", I, I, I)          # (fid, attr name id) -> string id
truthy_ref = z3.Function("truthy_ref", I, B)
py_eq = z3.Function("py_eq", Val, Val, B)            # user-defined / structural ==
tup_len = z3.Function("tup_len", V.Lst, I)
tup_arr = z3.Function("tup_arr", V.Lst, V.ArrIV)
make_key = z3.Function("make_key", Val, Val, Val)    # functools._make_key(args, kwds, typed=True)
make_key_untyped = z3.Function("make_key_untyped", Val, Val, Val)
wref = z3.Function("wref", Val, Val)                 # weakref.ref(obj): equal refs <=> referents == (T-WREF)
key_cons = Val.VKey                                  # key of (x, *rest): a constructor, hence injective (T-KEY)
td_seconds = z3.Function("td_seconds", I, R)         # timedelta.total_seconds()
is_coro_fn = z3.Function("is_coro_fn", Val, B)
callable_ = z3.Function("callable_", Val, B)
tb_of = z3.Function("tb_of", Val, Val)
id_of = z3.Function("id_of", Val, I)

USED: set[str] = set()      # names of trusted specs exercised (per process; reset by the driver)


def used(name: str) -> None:
    USED.add(name)


def background_axioms(ct: V.ClassTable) -> list:
    l = z3.Const("l!", V.Lst)
    s = z3.Int("s!")
    v = z3.Const("v!", Val)
    w = z3.Const("w!", Val)
    ax = [
        z3.ForAll([l], z3.And(tup_len(l) >= 0, (tup_len(l) == 0) == V.is_nil(l)), patterns=[tup_len(l)]),
        z3.ForAll([s], str_len(s) >= 0, patterns=[str_len(s)]),
        z3.ForAll([v], py_eq(v, v), patterns=[py_eq(v, v)]),          # S6 reflexive ==
    ]
    return ax


# ------------------------------------------------------------------------------------------------
# registry
# ------------------------------------------------------------------------------------------------
LIB: dict[str, object] = {}


def spec(*names: str):
    def deco(fn):
        for n in names:
            LIB[n] = fn
        return fn
    return deco


ALIASES = {
    "asyncio.CancelledError": "CancelledError",
    "asyncio.exceptions.CancelledError": "CancelledError",
    "asyncio.InvalidStateError": "InvalidStateError",
    "asyncio.TimeoutError": "TimeoutError",
    "collections.deque": "deque",
    "collections.OrderedDict": "OrderedDict",
    "datetime.timedelta": "timedelta",
    "asyncio.Lock": "Lock",
    "asyncio.Future": "Future",
    "asyncio.Task": "Task",
    "asyncio.TaskGroup": "TaskGroup",
    "asyncio.TimerHandle": "TimerHandle",
    "asyncio.AbstractEventLoop": "EventLoop",
    "contextvars.ContextVar": "ContextVar",
    "contextvars.Token": "Token",
    "contextvars.Context": "Context",
    "logging.Logger": "Logger",
    "functools.partial": "partial",
    "types.MappingProxyType": "mappingproxy",
    "types.NoneType": "NoneType",
    "collections.abc.Sequence": "Sequence",
    "collections.abc.Mapping": "Mapping",
    "collections.abc.Set": "Set",
    "typing.Protocol": "Protocol",
    "enum.Enum": "Enum",
}

CONSTANTS = {"logging.DEBUG": 10, "logging.INFO": 20, "logging.WARNING": 30, "logging.ERROR": 40,
             "logging.CRITICAL": 50}

IGNORED_TYPING = {
    "typing.cast", "typing.final", "typing.overload", "typing.Any", "typing.Self", "typing.Final",
    "typing.TypeGuard", "typing.ClassVar", "typing.Generic", "typing.TypeVar", "typing.Protocol",
    "typing.Literal", "typing.Union", "typing.NamedTuple", "typing.dataclass_transform",
    "typing.get_origin", "collections.abc.Callable", "collections.abc.Coroutine",
    "collections.abc.Iterable", "collections.abc.AsyncIterator", "collections.abc.AsyncGenerator",
    "collections.abc.Hashable", "types.TracebackType", "types.EllipsisType", "types.GenericAlias",
    "types.UnionType", "contextlib.AbstractAsyncContextManager", "concurrent.futures.Executor",
}


def resolve(it, dotted: str) -> z3.ExprRef:
    """Value standing for a library name."""
    from .interp import LibV
    if dotted in CONSTANTS:
        return it.mk_int(CONSTANTS[dotted])
    if dotted in ALIASES:
        return it.mk_cls(ALIASES[dotted])
    short = dotted.split(".")[-1]
    if dotted.startswith("builtins.") and short in it.ct.ids:
        return it.mk_cls(short)
    cache = it.st.ghost.setdefault("$libvals", {})
    if dotted not in cache:
        cache[dotted] = it.st.reg_fun(LibV(dotted))
    return cache[dotted]


def call(it, lv, cargs, node=None) -> z3.ExprRef:
    h = LIB.get(lv.name)
    if h is None:
        if lv.name == "typing.cast":
            return cargs.pos[1]
        raise Unsupported(f"library function {lv.name} has no trusted specification")
    used(lv.name)
    return h(it, lv, cargs, node)


def construct(it, clsname: str, cargs, node=None) -> z3.ExprRef:
    h = LIB.get(f"new:{clsname}")
    if h is None:
        if it.ct.is_sub(it.ct.id(clsname), it.ct.id("BaseException")):
            e = it.st.alloc(clsname)
            it.st.put(e, "args", V.tup(*cargs.pos) if cargs.star is None else it.st.fresh_val("excargs"))
            return e
        raise Unsupported(f"constructing library class {clsname}")
    used(f"new:{clsname}")
    return h(it, None, cargs, node)


def lib_attr(it, obj, name: str, node=None) -> z3.ExprRef:
    """Attribute of a library-typed value: bound library methods and a few data attributes."""
    from .interp import LibV
    st = it.st
    k = it.kind(obj)
    cname = None
    if k == "ref":
        c = st.class_id_of(obj)
        if c is None:
            if name in ("args", "__cause__", "__traceback__", "__context__") and \
                    st.entails(V.subclass(V.class_of(V.addr(obj)), it.ct.id("BaseException"))):
                return st.get(obj, name)
            return it.engine.unknown_attr(it, obj, name, node)
        cname = it.ct.name(c)
        if it.ct.is_sub(c, it.ct.id("BaseException")) and name in ("args", "__cause__", "__traceback__", "exceptions"):
            return st.get(obj, name)
        if name in DATA_ATTRS.get(cname, ()):
            return st.get(obj, name)
        if name in COMPUTED_ATTRS.get(cname, {}):
            return COMPUTED_ATTRS[cname][name](it, obj)
        # find the most specific class that has a spec for this method
        for anc in _mro_names(it.ct, c):
            if f"{anc}.{name}" in LIB:
                return st.reg_fun(LibV(f"{anc}.{name}", obj))
        return it.engine.unknown_attr(it, obj, name, node)
    if k == "tuple":
        cname = "tuple"
    elif k == "str":
        cname = "str"
    elif k == "type":
        c = st.simp(V.cid(obj))
        if z3.is_int_value(c):
            cn = it.ct.name(c.as_long())
            if f"{cn}::{name}" in LIB:
                return st.reg_fun(LibV(f"{cn}::{name}", obj))
        raise Unsupported(f"attribute {name} of library class")
    elif k == "function":
        fv = st.fun_of(obj)
        key = (str(st.simp(obj)), name)
        fa = st.ghost.get("$fattrs", {})
        if key in fa:
            return fa[key]
        if isinstance(fv, LibV) and f"{fv.name}.{name}" in LIB:
            return st.reg_fun(LibV(f"{fv.name}.{name}", obj))
        return it.engine.unknown_attr(it, obj, name, node)
    if cname is not None and f"{cname}.{name}" in LIB:
        return st.reg_fun(LibV(f"{cname}.{name}", obj))
    return it.engine.unknown_attr(it, obj, name, node)


DATA_ATTRS = {"object": {"hex"}, "Logger": {"name"}}


def _td_component(which: str):
    """timedelta.days / .seconds / .microseconds: the normalised components, related to total_seconds()
    the way datetime defines them (0 <= seconds < 86400, 0 <= microseconds < 10**6)."""
    def get(it, obj):
        a = V.addr(obj)
        d, s_, us = td_days(a), td_secs(a), td_us(a)
        it.st.assume(z3.And(0 <= s_, s_ < 86400, 0 <= us, us < 1000000,
                            td_seconds(a) == z3.ToReal(d) * 86400 + z3.ToReal(s_) + z3.ToReal(us) / 1000000))
        return V.VInt({"days": d, "seconds": s_, "microseconds": us}[which])
    return get


td_days = z3.Function("td_days", I, I)
td_secs = z3.Function("td_secs", I, I)
td_us = z3.Function("td_us", I, I)
def token_missing(it) -> z3.ExprRef:
    """contextvars.Token.MISSING: the marker `Token.old_value` holds when the variable had no value before the `set`."""
    g = it.st.ghost
    if "$token_missing" not in g:
        g["$token_missing"] = it.st.sym_ref("Token.MISSING", "object")
    return g["$token_missing"]


def _token_old_value(it, tok):
    used("T-CV")
    st = it.st
    return st.simp(z3.If(V.bval(st.get(tok, "$tok_old_set")), st.get(tok, "$tok_old_val"), token_missing(it)))


COMPUTED_ATTRS = {"timedelta": {k: _td_component(k) for k in ("days", "seconds", "microseconds")},
                  "Token": {"old_value": _token_old_value, "var": lambda it, tok: it.st.get(tok, "$tok_var")}}


def _mro_names(ct: V.ClassTable, c: int) -> list[str]:
    out, todo, seen = [], [c], set()
    while todo:
        x = todo.pop(0)
        if x in seen:
            continue
        seen.add(x)
        out.append(ct.name(x))
        todo.extend(ct.bases.get(x, ()))
    return out


# ------------------------------------------------------------------------------------------------
# sequences  (list / deque / tuple):  window [lo, hi) of an Int -> Val array
# ------------------------------------------------------------------------------------------------
def seq_view(it, v):
    """(arr, lo, hi) of a sequence value, or None."""
    st = it.st
    k = it.kind(v)
    if k == "tuple":
        l = st.simp(V.items(v))
        conc = V.concrete_list(l)
        if conc is not None:
            arr = z3.K(I, V.VNone)
            for i, x in enumerate(conc):
                arr = z3.Store(arr, i, x)
            return arr, z3.IntVal(0), z3.IntVal(len(conc))
        return tup_arr(l), z3.IntVal(0), tup_len(l)
    if k == "ref":
        c = st.class_id_of(v)
        if c is not None and it.ct.name(c) in ("list", "deque", "set", "frozenset", "dict", "OrderedDict",
                                               "mappingproxy", "tuple"):
            return st.get(v, "$arr"), st.get(v, "$lo"), st.get(v, "$hi")
    return None


def tuple_items(it, v, maxlen: int = 6):
    """Element terms of a tuple whose length is determined by the path condition."""
    st = it.st
    l = st.simp(V.items(v))
    conc = V.concrete_list(l)
    if conc is not None:
        return conc
    cache = st.ghost.setdefault("$tuple_items", {})
    key = (l.get_id(), len(st.pc))
    if key in cache:
        return cache[key]
    out = []
    cur = l
    res = None
    for _ in range(maxlen + 1):
        if st.entails(V.is_nil(cur)):
            res = out
            break
        if not st.entails(V.is_cons(cur)):
            break
        out.append(st.simp(V.hd(cur)))
        cur = st.simp(V.tl(cur))
    cache[key] = res
    return res


def concrete_items(it, v):
    """Python list of element terms when the value is a sequence of syntactically known length."""
    st = it.st
    k = it.kind(v)
    if k == "tuple":
        return tuple_items(it, v)
    if k == "ref":
        c = st.class_id_of(v)
        if c is not None and it.ct.name(c) in ("list", "deque", "tuple", "set", "frozenset"):
            lo, hi = st.get(v, "$lo"), st.get(v, "$hi")
            if z3.is_int_value(lo) and z3.is_int_value(hi):
                arr = st.get(v, "$arr")
                return [st.simp(z3.Select(arr, i)) for i in range(lo.as_long(), hi.as_long())]
    return None


def concrete_kwargs(it, v):
    st = it.st
    if it.kind(v) == "ref":
        key = str(st.simp(V.addr(v)))
        d = st.ghost.get("$concrete_dicts", {}).get(key)
        if d is not None and d["version"] == str(st.heap.get("$dhas")):
            return dict(d["items"])
    return None


def new_seq(it, cls: str, items: list) -> z3.ExprRef:
    st = it.st
    o = st.alloc(cls)
    arr = z3.K(I, V.VNone)
    for i, x in enumerate(items):
        arr = z3.Store(arr, i, x)
    st.put(o, "$arr", arr)
    st.put(o, "$lo", z3.IntVal(0))
    st.put(o, "$hi", z3.IntVal(len(items)))
    return o


def new_list(it, items: list) -> z3.ExprRef:
    return new_seq(it, "list", items)


def new_seq_from(it, cls: str, arr, lo, hi) -> z3.ExprRef:
    st = it.st
    o = st.alloc(cls)
    st.put(o, "$arr", arr)
    st.put(o, "$lo", lo)
    st.put(o, "$hi", hi)
    return o


def new_set(it, items: list) -> z3.ExprRef:
    # a set literal: elements with order abstracted to insertion order (iteration order of a set
    # is unspecified; consumers that are order independent (any/all/in) are sound with this)
    return new_seq(it, "set", items)


def concat_literal(it, segs, kind: str) -> z3.ExprRef:
    """[*a, x, *b] with symbolic-length parts: result window defined with a lambda array."""
    st = it.st
    if kind == "tuple" and segs and segs[-1][0] == "star" and all(k == "item" for k, _ in segs[:-1]) \
            and it.kind(segs[-1][1]) == "tuple":
        l = V.items(segs[-1][1])            # (x1, ..., xn, *t) with t a tuple: exact cons structure
        for _, x in reversed(segs[:-1]):
            l = V.cons(x, l)
        return V.VTup(l)
    pos = z3.IntVal(0)
    i = z3.Int("i!cat")
    body = V.VNone
    pieces = []
    for k, v in segs:
        if k == "item":
            pieces.append((pos, pos + 1, None, v))
            pos = pos + 1
        else:
            sv = seq_view(it, v)
            if sv is None:
                raise Unsupported("starred expression over a non-sequence")
            arr, lo, hi = sv
            pieces.append((pos, pos + (hi - lo), (arr, lo), None))
            pos = pos + (hi - lo)
    for (a, b, src, item) in reversed(pieces):
        val = item if src is None else z3.Select(src[0], src[1] + (i - a))
        body = z3.If(z3.And(i >= a, i < b), val, body)
    arr = z3.Lambda([i], body)
    total = st.simp(pos)
    # a tuple of unknown length is a heap object of class tuple (no array-equals-lambda equations)
    return new_seq_from(it, "tuple" if kind == "tuple" else "list", arr, z3.IntVal(0), total)


def as_tuple(it, v) -> z3.ExprRef:
    if it.kind(v) == "tuple":
        return v
    sv = seq_view(it, v)
    if sv is None:
        raise Unsupported("*args over non-sequence")
    arr, lo, hi = sv
    return new_seq_from(it, "tuple", arr, lo, hi)


def tuple_prepend(it, extra: list, star) -> z3.ExprRef:
    return concat_literal(it, [("item", x) for x in extra] + [("star", star)], "tuple")


index_exc = z3.Function("index_exc", Val, Val, Val)          # the IndexError raised by obj[idx]
any_seq_arr = z3.Function("any_seq_arr", Val, V.ArrIV)     # items of an arbitrary Sequence value
any_seq_len = z3.Function("any_seq_len", Val, I)


def generic_seq_view(it, v):
    """(arr, lo, hi) of any value that is known (by the caller) to be a sequence."""
    sv = seq_view(it, v)
    if sv is not None:
        return sv
    it.st.assume(any_seq_len(v) >= 0)
    return any_seq_arr(v), z3.IntVal(0), any_seq_len(v)


def list_of(it, v) -> z3.ExprRef:
    arr, lo, hi = generic_seq_view(it, v)
    return new_seq_from(it, "list", arr, lo, hi)


def is_sequence_pattern(it, v) -> z3.ExprRef:
    """PEP 634: instance of collections.abc.Sequence but not str / bytes / bytearray."""
    used("T-COLL:sequence-pattern")
    ct = it.ct
    t = V.type_of(v, ct)
    return z3.And(V.subclass(t, ct.id("Sequence")),
                  z3.Not(V.subclass(t, ct.id("str"))),
                  z3.Not(V.subclass(t, ct.id("bytes"))),
                  z3.Not(V.subclass(t, ct.id("bytearray"))))


def is_mapping_pattern(it, v) -> z3.ExprRef:
    used("T-COLL:mapping-pattern")
    return V.subclass(V.type_of(v, it.ct), it.ct.id("Mapping"))


def traceback_of(v) -> z3.ExprRef:
    return tb_of(v)


# ------------------------------------------------------------------------------------------------
# dicts (dict / OrderedDict):  has/val arrays over Val keys + insertion-order window + positions
# ------------------------------------------------------------------------------------------------
def dict_parts(it, d):
    st = it.st
    return dict(has=st.get(d, "$dhas"), val=st.get(d, "$dval"), pos=st.get(d, "$dpos"),
                keys=st.get(d, "$arr"), lo=st.get(d, "$lo"), hi=st.get(d, "$hi"))


def dict_wf(it, d, parts=None) -> list:
    """Well-formedness of a dict representation (assumed for inputs, provable after operations)."""
    p = parts or dict_parts(it, d)
    k = z3.Const("k!wf", Val)
    i = z3.Int("i!wf")
    return [
        p["lo"] <= p["hi"],
        z3.ForAll([k], z3.Implies(z3.Select(p["has"], k),
                                  z3.And(p["lo"] <= z3.Select(p["pos"], k), z3.Select(p["pos"], k) < p["hi"],
                                         z3.Select(p["keys"], z3.Select(p["pos"], k)) == k)),
                  patterns=[z3.Select(p["has"], k)]),
        z3.ForAll([i], z3.Implies(z3.And(p["lo"] <= i, i < p["hi"]),
                                  z3.And(z3.Select(p["has"], z3.Select(p["keys"], i)),
                                         z3.Select(p["pos"], z3.Select(p["keys"], i)) == i)),
                  patterns=[z3.Select(p["keys"], i)]),
    ]


def new_dict(it, cls: str = "dict", items: list | None = None) -> z3.ExprRef:
    st = it.st
    o = st.alloc(cls)
    st.put(o, "$dhas", z3.K(Val, z3.BoolVal(False)))
    st.put(o, "$dval", z3.K(Val, V.VNone))
    st.put(o, "$dpos", z3.K(Val, z3.IntVal(0)))
    st.put(o, "$arr", z3.K(I, V.VNone))
    st.put(o, "$lo", z3.IntVal(0))
    st.put(o, "$hi", z3.IntVal(0))
    for k, v in items or []:
        dict_set(it, o, k, v)
    return o


def check_key(it, k) -> None:
    """Dict keys are compared as values (identity for objects).  An object key whose class defines its own __eq__ / __hash__
    (two distinct objects may then be the *same* key) is outside this model: the path is left undecided, never proved."""
    kind = it.kind(k)
    if kind in ("bool", "float") or (kind is None and not it.st.entails(z3.Not(z3.Or(V.is_bool(k), V.is_float(k))))):
        # 1, True and 1.0 are one key in CPython and three values here (selfcheck `int_bool_keys`)
        raise Unsupported("dict key that is (or may be) a bool or a float: equal to an int key in CPython, distinct in this model")
    if kind == "ref":
        c = it.st.class_id_of(k)
        info = it.ct.info.get(c) if c is not None else None
        if info is not None and (info.find_method("__eq__") is not None or info.find_method("__hash__") is not None):
            raise Unsupported(f"dict key of class {info.name}, which defines its own __eq__/__hash__ (key equality is not identity)")


def dict_set(it, d, k, v) -> None:
    st = it.st
    check_key(it, k)
    p = dict_parts(it, d)
    st.instantiate_at(k)
    if st.decide(z3.Select(p["has"], k), "dict.set:present"):
        st.put(d, "$dval", z3.Store(p["val"], k, v))
    else:
        st.put(d, "$dval", z3.Store(p["val"], k, v))
        st.put(d, "$dhas", z3.Store(p["has"], k, True))
        st.put(d, "$arr", z3.Store(p["keys"], p["hi"], k))
        st.put(d, "$dpos", z3.Store(p["pos"], k, p["hi"]))
        st.put(d, "$hi", p["hi"] + 1)


def dict_merge(it, d, src, override: bool) -> None:
    """d.update(src) (override) / `for k, v in src.items(): d.setdefault(k, v)` (keep): exact on membership and
    values (T-COLL); the key order of the result is left abstract (new keys follow the old ones)."""
    st = it.st
    pd, ps = dict_parts(it, d), dict_parts(it, src)
    k = z3.Const("k!dm", Val)
    has = z3.Lambda([k], z3.Or(z3.Select(pd["has"], k), z3.Select(ps["has"], k)))
    if override:
        val = z3.Lambda([k], z3.If(z3.Select(ps["has"], k), z3.Select(ps["val"], k), z3.Select(pd["val"], k)))
    else:
        val = z3.Lambda([k], z3.If(z3.Select(pd["has"], k), z3.Select(pd["val"], k), z3.Select(ps["val"], k)))
    n = st.fresh("dm_n", I)
    st.assume(n >= pd["hi"] - pd["lo"])
    st.put(d, "$dhas", has)
    st.put(d, "$dval", val)
    st.put(d, "$arr", st.fresh("dm_keys", V.ArrIV))
    st.put(d, "$dpos", st.fresh("dm_pos", V.ArrVI))
    st.put(d, "$lo", z3.IntVal(0))
    st.put(d, "$hi", n)


@spec("dict.update", "OrderedDict.update")
def _dict_update(it, lv, ca, node):
    if len(ca.pos) != 1 or ca.kw or ca.star is not None or ca.starstar is not None:
        raise Unsupported("dict.update with keyword arguments / several sources")
    if _cname(it, ca.pos[0]) not in ("dict", "OrderedDict", "mappingproxy"):
        raise Unsupported("dict.update from a value that is not a dict")
    dict_merge(it, lv.bound, ca.pos[0], True)
    return V.VNone


def dict_remove_at(it, d, k) -> None:
    """Remove present key k (shifts later keys one position to the left)."""
    st = it.st
    p = dict_parts(it, d)
    pk = st.simp(z3.Select(p["pos"], k))
    i = z3.Int("i!rm")
    x = z3.Const("x!rm", Val)
    st.put(d, "$arr", z3.Lambda([i], z3.If(i < pk, z3.Select(p["keys"], i), z3.Select(p["keys"], i + 1))))
    st.put(d, "$dpos", z3.Lambda([x], z3.If(z3.Select(p["pos"], x) > pk, z3.Select(p["pos"], x) - 1,
                                            z3.Select(p["pos"], x))))
    st.put(d, "$dhas", z3.Store(p["has"], k, False))
    st.put(d, "$hi", p["hi"] - 1)


def dict_move_to_end(it, d, k) -> None:
    st = it.st
    p = dict_parts(it, d)
    pk = st.simp(z3.Select(p["pos"], k))
    i = z3.Int("i!mv")
    x = z3.Const("x!mv", Val)
    last = p["hi"] - 1
    st.put(d, "$arr", z3.Lambda([i], z3.If(i < pk, z3.Select(p["keys"], i),
                                     z3.If(i < last, z3.Select(p["keys"], i + 1), k))))
    st.put(d, "$dpos", z3.Lambda([x], z3.If(x == k, last,
                                      z3.If(z3.Select(p["pos"], x) > pk, z3.Select(p["pos"], x) - 1,
                                            z3.Select(p["pos"], x)))))


def dict_literal(it, segs) -> z3.ExprRef:
    st = it.st
    if all(k == "item" for k, _ in segs):
        d = new_dict(it, "dict")
        conc = {}
        for _, (k, v) in segs:
            dict_set(it, d, k, v)
        return d
    return it.engine.dict_display(it, segs)


def kwargs_dict(it, kw: dict) -> z3.ExprRef:
    st = it.st
    d = new_dict(it, "dict")
    for k, v in kw.items():
        dict_set(it, d, it.mk_str(k), v)
    st.ghost.setdefault("$concrete_dicts", {})[str(st.simp(V.addr(d)))] = {
        "items": dict(kw), "version": str(st.heap.get("$dhas"))}
    return d


def dict_of(it, v) -> z3.ExprRef:
    """{**rest} capture of a mapping pattern: a fresh dict with the same items."""
    st = it.st
    k = it.kind(v)
    if k == "ref":
        c = st.class_id_of(v)
        if c is not None and it.ct.name(c) in ("dict", "OrderedDict", "mappingproxy"):
            p = dict_parts(it, v)
            o = st.alloc("dict")
            for f, key in (("$dhas", "has"), ("$dval", "val"), ("$dpos", "pos"), ("$arr", "keys"),
                           ("$lo", "lo"), ("$hi", "hi")):
                st.put(o, f, p[key])
            return o
    raise Unsupported("mapping capture of a non-dict value")


# ------------------------------------------------------------------------------------------------
# item access
# ------------------------------------------------------------------------------------------------
def _cname(it, v):
    if it.kind(v) != "ref":
        return None
    c = it.st.class_id_of(v)
    return it.ct.name(c) if c is not None else None


def getitem(it, obj, idx, node=None) -> z3.ExprRef:
    st = it.st
    k = it.kind(obj)
    cn = _cname(it, obj)
    if k == "tuple" or cn in ("list", "deque", "tuple"):
        n = it.as_num(idx)
        if n is None or n[1] != "int":
            raise Unsupported("non-integer sequence index")
        if k == "tuple" and z3.is_int_value(st.simp(n[0])):
            elems = tuple_items(it, obj)
            if elems is not None:
                j = st.simp(n[0]).as_long()
                if -len(elems) <= j < len(elems):
                    return elems[j]
                raise PyRaise(it.new_exc("IndexError"), "tuple index out of range")
        arr, lo, hi = seq_view(it, obj)
        i = n[0]
        ln = hi - lo
        eff = st.simp(z3.If(i < 0, ln + i, i))
        plog = st.ghost.get("$pure_log")
        if st.no_fork and plog is not None:
            # inside a summarised expression: indexing is a partial step (IndexError when out of range)
            plog.append((z3.And(eff >= 0, eff < ln), index_exc(obj, idx)))
        elif not st.decide(z3.And(eff >= 0, eff < ln), f"index@{it.pos(node)}:inrange"):
            raise PyRaise(it.new_exc("IndexError"), "index out of range")
        st.instantiate_at(st.simp(lo + eff))
        return st.simp(z3.Select(arr, lo + eff))
    if cn in ("dict", "OrderedDict", "mappingproxy"):
        check_key(it, idx)
        p = dict_parts(it, obj)
        if not st.decide(z3.Select(p["has"], idx), f"getitem@{it.pos(node)}:present"):
            raise PyRaise(it.new_exc("KeyError"), "missing key")
        return st.simp(z3.Select(p["val"], idx))
    return it.engine.opaque_getitem(it, obj, idx, node)


def setitem(it, obj, idx, val, node=None) -> None:
    cn = _cname(it, obj)
    if cn in ("dict", "OrderedDict"):
        used(f"{cn}.__setitem__")
        dict_set(it, obj, idx, val)
        return
    raise Unsupported(f"item assignment on {cn}")


def delitem(it, obj, idx, node=None) -> None:
    st = it.st
    cn = _cname(it, obj)
    if cn in ("dict", "OrderedDict"):
        used(f"{cn}.__delitem__")
        check_key(it, idx)
        p = dict_parts(it, obj)
        if not st.decide(z3.Select(p["has"], idx), f"delitem@{it.pos(node)}:present"):
            raise PyRaise(it.new_exc("KeyError"), "missing key")
        dict_remove_at(it, obj, idx)
        return
    raise Unsupported(f"item deletion on {cn}")


def unpack(it, target, v, env) -> None:
    raise Unsupported("unpacking a value of unknown length")


def contains(it, container, item) -> z3.ExprRef:
    st = it.st
    if it.kind(container) == "str" and it.kind(item) == "str":
        return str_contains(V.sid(container), V.sid(item))          # substring test (uninterpreted; see str.replace)
    cn = _cname(it, container)
    if cn in ("dict", "OrderedDict", "mappingproxy"):
        check_key(it, item)
        return z3.Select(st.get(container, "$dhas"), item)
    sv = seq_view(it, container)
    if sv is not None:
        arr, lo, hi = sv
        conc = concrete_items(it, container)
        if conc is not None:
            return z3.Or([it.py_eq(x, item) for x in conc]) if conc else z3.BoolVal(False)
        i = z3.Int("i!in")
        return z3.Exists([i], z3.And(lo <= i, i < hi, eq_term(z3.Select(arr, i), item)))
    raise Unsupported("membership test on unknown container")


def eq_term(a, b) -> z3.ExprRef:
    """a == b for values of unknown kind: identity implies equality (S6); numbers compare
    numerically; otherwise the uninterpreted py_eq."""
    def num(x):
        return z3.If(V.is_int(x), z3.ToReal(V.ival(x)),
               z3.If(V.is_bool(x), z3.If(V.bval(x), z3.RealVal(1), z3.RealVal(0)), V.rval(x)))
    isnum = lambda x: z3.Or(V.is_int(x), V.is_bool(x), V.is_float(x))
    return z3.If(a == b, True,
           z3.If(z3.And(isnum(a), isnum(b)), num(a) == num(b),
           z3.If(z3.Or(z3.And(isnum(a), z3.Not(z3.Or(isnum(b), V.is_ref(b)))),
                       z3.And(isnum(b), z3.Not(z3.Or(isnum(a), V.is_ref(a)))),
                       z3.And(V.is_none(a), z3.Not(V.is_ref(b))), z3.And(V.is_none(b), z3.Not(V.is_ref(a))),
                       z3.And(V.is_str(a), V.is_str(b)), z3.And(V.is_cls(a), V.is_cls(b))),
                 False, py_eq(a, b))))


def eq_fn(it, a, b) -> z3.ExprRef:
    """a == b (T-DISPATCH): the left operand's __eq__ decides; the reflected __eq__ of the right operand is
    consulted only when the left one is a value whose class is known not to define one (it answers NotImplemented).
    A left operand of unknown class may answer anything for a non-identical right operand (uninterpreted py_eq)."""
    CallArgs = __import__("pyvc.interp").interp.CallArgs

    def repo_eq(x):
        if it.kind(x) == "ref":
            c = it.st.class_id_of(x)
            info = it.ct.info.get(c) if c is not None else None
            if info is not None:
                return info, info.find_method("__eq__")
        return None, None
    ia, ma = repo_eq(a)
    if ma is not None:
        return it.truthy(it.call_function(it.bind_method(ia, ma, a), CallArgs([b])))
    ka = it.kind(a)
    if ka is None or (ka == "ref" and it.st.class_id_of(a) is None):
        return eq_term(a, b)
    ib, mb = repo_eq(b)
    if mb is not None:
        return it.truthy(it.call_function(it.bind_method(ib, mb, b), CallArgs([a])))
    return eq_term(a, b)


# ------------------------------------------------------------------------------------------------
# comprehensions: consumer(<expr> for x in S [if c])  =>  quantified facts
# ------------------------------------------------------------------------------------------------
def _single_gen(node):
    if len(node.generators) != 1 or node.generators[0].is_async:
        raise Unsupported("comprehension with several / async generators")
    return node.generators[0]


def comprehension(it, consumer: str, node, env):
    from .interp import Env
    st = it.st
    gen = _single_gen(node)
    src = it.eval(gen.iter, env)
    conc = concrete_items(it, src)
    # ---- concrete length: unroll (complete)
    if conc is not None:
        out = []
        for x in conc:
            e2 = Env(env.module, env)
            it.assign(gen.target, x, e2)
            ok = True
            for cnd in gen.ifs:
                if not it.test(it.eval(cnd, e2), f"comp-if@{it.pos(node)}"):
                    ok = False
                    break
            if not ok:
                continue
            v = it.eval(node.elt, e2)
            if consumer == "any":
                if it.test(v, f"any@{it.pos(node)}"):
                    return it.mk_bool(True)
                continue
            if consumer == "all":
                if not it.test(v, f"all@{it.pos(node)}"):
                    return it.mk_bool(False)
                continue
            out.append(v)
        if consumer == "any":
            return it.mk_bool(False)
        if consumer == "all":
            return it.mk_bool(True)
        if consumer == "tuple":
            return V.tup(*out)
        if consumer == "list":
            return new_list(it, out)
        if consumer in ("set", "frozenset"):
            return new_seq(it, consumer, out)
        raise Unsupported(consumer)
    # ---- symbolic length: summarise the element expression as a function of the element
    return it.engine.summarise_comprehension(it, consumer, node, env, src)


def dict_comprehension(it, node, env):
    return it.engine.summarise_dict_comprehension(it, node, env)


# ------------------------------------------------------------------------------------------------
# builtins
# ------------------------------------------------------------------------------------------------
@spec("builtins.isinstance")
def _isinstance(it, lv, ca, node):
    return V.VBool(it.isinstance_term(ca.pos[0], ca.pos[1]))


@spec("builtins.issubclass")
def _issubclass(it, lv, ca, node):
    a, b = ca.pos
    return V.VBool(V.subclass(V.cid(a), V.cid(b)))


@spec("builtins.len")
def _len(it, lv, ca, node):
    v = ca.pos[0]
    sv = seq_view(it, v)
    if sv is not None:
        arr, lo, hi = sv
        return V.VInt(it.st.simp(hi - lo))
    if it.kind(v) == "ref":
        c = it.st.class_id_of(v)
        info = it.ct.info.get(c) if c is not None else None
        if info is not None and info.find_method("__len__") is not None:
            from .interp import CallArgs
            return it.call_function(it.bind_method(info, info.find_method("__len__"), v), CallArgs())
    raise Unsupported("len() of unknown value")


@spec("builtins.type")
def _type(it, lv, ca, node):
    if len(ca.pos) != 1:
        raise Unsupported("3-argument type()")
    return V.VCls(V.type_of(ca.pos[0], it.ct))


@spec("builtins.callable")
def _callable(it, lv, ca, node):
    v = ca.pos[0]
    k = it.kind(v)
    if k in ("function", "type"):
        return it.mk_bool(True)
    if k in ("none", "int", "float", "bool", "str", "tuple"):
        return it.mk_bool(False)
    return V.VBool(z3.If(z3.Or(V.is_fun(v), V.is_cls(v)), True,
                         z3.If(z3.Or(V.is_none(v), V.is_int(v), V.is_float(v), V.is_bool(v), V.is_str(v), V.is_tup(v)),
                               False, callable_(v))))


@spec("builtins.tuple")
def _tuple(it, lv, ca, node):
    if not ca.pos:
        return V.tup()
    return as_tuple(it, ca.pos[0])


@spec("builtins.list")
def _list(it, lv, ca, node):
    if not ca.pos:
        return new_list(it, [])
    return list_of(it, ca.pos[0])


@spec("builtins.getattr")
def _getattr(it, lv, ca, node):
    obj, name = ca.pos[0], ca.pos[1]
    nm = _literal_str(it, name)
    if nm is None:
        if len(ca.pos) > 2:
            return it.engine.getattr_default(it, obj, name, ca.pos[2], node)     # symbolic attribute name
        c = it.st.contract
        if c is not None and hasattr(c, "attr_sym"):
            return c.attr_sym(it, obj, name, node)
        raise Unsupported("getattr with a symbolic name")
    if len(ca.pos) > 2:
        return it.engine.getattr_default(it, obj, nm, ca.pos[2], node)
    return it.get_attr(obj, nm, node)


@spec("builtins.setattr")
def _setattr(it, lv, ca, node):
    obj, name, val = ca.pos
    nm = _literal_str(it, name)
    if nm is None:
        c = it.st.contract
        if c is not None and hasattr(c, "setattr_sym"):
            c.setattr_sym(it, obj, name, val, node)
            return V.VNone
        raise Unsupported("setattr with a symbolic name")
    it.engine.setattr_(it, obj, nm, val, node)
    return V.VNone


@spec("builtins.str")
def _str(it, lv, ca, node):
    v = ca.pos[0]
    if it.kind(v) == "str":
        return v
    return V.VStr(render(v))


def _literal_str(it, term) -> str | None:
    t = it.st.simp(term)
    if V.app_name(t) == "VStr" and z3.is_int_value(t.arg(0)):
        k = t.arg(0).as_long()
        for s, i in it.st.strs.items():
            if i == k:
                return s
    return None


@spec("asyncio.iscoroutinefunction")
def _iscoro(it, lv, ca, node):
    from .interp import FuncV, OracleV
    f = ca.pos[0]
    fv = it.st.fun_of(f) if it.kind(f) == "function" else None
    if isinstance(fv, FuncV):
        return it.mk_bool(fv.is_async)
    if isinstance(fv, OracleV):
        return it.mk_bool(fv.is_async)
    return V.VBool(is_coro_fn(f))


# ------------------------------------------------------------------------------------------------
# time (S1, S7: real-valued, non-decreasing, non-negative clock)
# ------------------------------------------------------------------------------------------------
@spec("time.monotonic")
def _monotonic(it, lv, ca, node):
    t = it.st.read_clock()
    it.st.events.append(("clock", t))
    return V.VFloat(t)


@spec("time.sleep")
def _sleep_sync(it, lv, ca, node):
    d = ca.pos[0]
    return it.engine.sleep(it, d, False, node)


@spec("asyncio.sleep")
def _sleep(it, lv, ca, node):
    from .interp import AwaitableV
    d = ca.pos[0]
    return it.st.reg_fun(AwaitableV("sleep", {"delay": d}))


# ------------------------------------------------------------------------------------------------
# deque / list
# ------------------------------------------------------------------------------------------------
@spec("new:deque")
def _new_deque(it, lv, ca, node):
    if ca.star is not None:
        t = as_tuple(it, ca.star)
        arr, lo, hi = seq_view(it, t)
        return new_seq_from(it, "deque", arr, lo, hi)
    if ca.pos:
        sv = seq_view(it, ca.pos[0])
        if sv is None:
            raise Unsupported("deque(iterable) of unknown iterable")
        return new_seq_from(it, "deque", *sv)
    return new_seq(it, "deque", [])


@spec("new:list")
def _new_list(it, lv, ca, node):
    return _list(it, lv, ca, node)


@spec("deque.append", "list.append")
def _append(it, lv, ca, node):
    st = it.st
    o = lv.bound
    arr, hi = st.get(o, "$arr"), st.get(o, "$hi")
    st.put(o, "$arr", z3.Store(arr, hi, ca.pos[0]))
    st.put(o, "$hi", st.simp(hi + 1))
    return V.VNone


@spec("deque.appendleft")
def _appendleft(it, lv, ca, node):
    st = it.st
    o = lv.bound
    arr, lo = st.get(o, "$arr"), st.get(o, "$lo")
    st.put(o, "$arr", z3.Store(arr, lo - 1, ca.pos[0]))
    st.put(o, "$lo", st.simp(lo - 1))
    return V.VNone


@spec("deque.popleft")
def _popleft(it, lv, ca, node):
    st = it.st
    o = lv.bound
    arr, lo, hi = st.get(o, "$arr"), st.get(o, "$lo"), st.get(o, "$hi")
    if not st.decide(hi > lo, f"popleft@{it.pos(node)}:nonempty"):
        raise PyRaise(it.new_exc("IndexError"), "pop from an empty deque")
    st.instantiate_at(lo)
    st.put(o, "$lo", st.simp(lo + 1))
    return st.simp(z3.Select(arr, lo))


@spec("deque.pop", "list.pop")
def _pop(it, lv, ca, node):
    st = it.st
    o = lv.bound
    if ca.pos:
        return _pop_at(it, o, ca.pos[0], node)
    arr, lo, hi = st.get(o, "$arr"), st.get(o, "$lo"), st.get(o, "$hi")
    if not st.decide(hi > lo, f"pop@{it.pos(node)}:nonempty"):
        raise PyRaise(it.new_exc("IndexError"), "pop from empty")
    st.instantiate_at(st.simp(hi - 1))
    st.put(o, "$hi", st.simp(hi - 1))
    return st.simp(z3.Select(arr, hi - 1))


def _norm_index(it, idx, n, clamp: bool):
    """Python index normalisation for a sequence of length n (negative counts from the end; insert clamps)."""
    if it.kind(idx) not in ("int", "bool"):
        raise Unsupported("sequence index that is not an int")
    i = it.as_num(idx)[0]
    j = z3.If(i < 0, n + i, i)
    return z3.If(j < 0, 0, z3.If(j > n, n, j)) if clamp else j


def _pop_at(it, o, idx, node):
    """list.pop(i): removes and returns the i-th item, later items move one position to the left (T-COLL)."""
    st = it.st
    arr, lo, hi = st.get(o, "$arr"), st.get(o, "$lo"), st.get(o, "$hi")
    n = hi - lo
    j = _norm_index(it, idx, n, clamp=False)
    if not st.decide(z3.And(0 <= j, j < n), f"pop(i)@{it.pos(node)}:in-range"):
        raise PyRaise(it.new_exc("IndexError"), "pop index out of range")
    p = st.simp(lo + j)
    st.instantiate_at(p)
    item = st.simp(z3.Select(arr, p))
    i = z3.Int("i!popi")
    st.put(o, "$arr", z3.Lambda([i], z3.If(i >= p, z3.Select(arr, i + 1), z3.Select(arr, i))))
    st.put(o, "$hi", st.simp(hi - 1))
    return item


@spec("list.insert")
def _list_insert(it, lv, ca, node):
    """list.insert(i, x): x ends up at (clamped) position i, items from there on move one position to the right."""
    st = it.st
    o = lv.bound
    arr, lo, hi = st.get(o, "$arr"), st.get(o, "$lo"), st.get(o, "$hi")
    j = _norm_index(it, ca.pos[0], hi - lo, clamp=True)
    p = st.simp(lo + j)
    i = z3.Int("i!ins")
    st.put(o, "$arr", z3.Lambda([i], z3.If(i == p, ca.pos[1], z3.If(i > p, z3.Select(arr, i - 1), z3.Select(arr, i)))))
    st.put(o, "$hi", st.simp(hi + 1))
    return V.VNone


@spec("deque.extend", "list.extend")
def _extend(it, lv, ca, node):
    st = it.st
    o = lv.bound
    sv = seq_view(it, ca.pos[0])
    if sv is None:
        raise Unsupported("extend with unknown iterable")
    sarr, slo, shi = sv
    arr, hi = st.get(o, "$arr"), st.get(o, "$hi")
    i = z3.Int("i!ext")
    n = st.simp(shi - slo)
    conc = concrete_items(it, ca.pos[0])
    if conc is not None:
        for x in conc:
            arr = z3.Store(arr, hi, x)
            hi = st.simp(hi + 1)
        st.put(o, "$arr", arr)
        st.put(o, "$hi", hi)
        return V.VNone
    st.put(o, "$arr", z3.Lambda([i], z3.If(z3.And(i >= hi, i < hi + n), z3.Select(sarr, slo + (i - hi)),
                                           z3.Select(arr, i))))
    st.put(o, "$hi", st.simp(hi + n))
    return V.VNone


@spec("deque.clear", "list.clear")
def _clear(it, lv, ca, node):
    st = it.st
    st.put(lv.bound, "$hi", st.get(lv.bound, "$lo"))
    return V.VNone


# ------------------------------------------------------------------------------------------------
# dict / OrderedDict
# ------------------------------------------------------------------------------------------------
@spec("new:OrderedDict")
def _new_odict(it, lv, ca, node):
    if ca.pos or ca.kw:
        raise Unsupported("OrderedDict(initial)")
    return new_dict(it, "OrderedDict")


@spec("new:dict")
def _new_dictc(it, lv, ca, node):
    if ca.pos or ca.kw:
        raise Unsupported("dict(initial)")
    return new_dict(it, "dict")


@spec("dict.get", "OrderedDict.get", "mappingproxy.get")
def _dict_get(it, lv, ca, node):
    st = it.st
    d = lv.bound
    k = ca.pos[0]
    default = ca.pos[1] if len(ca.pos) > 1 else V.VNone
    check_key(it, k)
    p = dict_parts(it, d)
    st.instantiate_at(k)
    c = st.contract
    if c is not None and hasattr(c, "on_dict_get"):
        c.on_dict_get(it, d, k)
    if st.no_fork:        # inside a summarised expression: the value as a conditional term
        return z3.If(z3.Select(p["has"], k), z3.Select(p["val"], k), default)
    if st.decide(z3.Select(p["has"], k), f"dict.get@{it.pos(node)}:hit"):
        return st.simp(z3.Select(p["val"], k))
    return default


@spec("OrderedDict.move_to_end")
def _move_to_end(it, lv, ca, node):
    st = it.st
    d = lv.bound
    k = ca.pos[0]
    last = ca.arg(1, "last")
    if last is not None and not z3.is_true(st.simp(it.truthy(last))):
        raise Unsupported("move_to_end(last=False)")
    check_key(it, k)
    p = dict_parts(it, d)
    if not st.decide(z3.Select(p["has"], k), f"move_to_end@{it.pos(node)}:present"):
        raise PyRaise(it.new_exc("KeyError"), "move_to_end of a missing key")
    dict_move_to_end(it, d, k)
    return V.VNone


@spec("OrderedDict.popitem")
def _popitem(it, lv, ca, node):
    st = it.st
    d = lv.bound
    last = ca.arg(0, "last")
    p = dict_parts(it, d)
    st.instantiate_at(p["lo"])
    st.instantiate_at(st.simp(p["hi"] - 1))
    if not st.decide(p["hi"] > p["lo"], f"popitem@{it.pos(node)}:nonempty"):
        raise PyRaise(it.new_exc("KeyError"), "popitem from an empty dict")
    is_last = True if last is None else st.simp(it.truthy(last))
    if last is None or z3.is_true(is_last):
        k = st.simp(z3.Select(p["keys"], p["hi"] - 1))
        st.put(d, "$hi", st.simp(p["hi"] - 1))
    elif z3.is_false(is_last):
        k = st.simp(z3.Select(p["keys"], p["lo"]))
        st.put(d, "$lo", st.simp(p["lo"] + 1))
    else:
        raise Unsupported("popitem(last=<symbolic>)")
    v = st.simp(z3.Select(p["val"], k))
    st.put(d, "$dhas", z3.Store(p["has"], k, False))
    return V.tup(k, v)


@spec("dict.values", "OrderedDict.values", "mappingproxy.values")
def _dict_values(it, lv, ca, node):
    st = it.st
    p = dict_parts(it, lv.bound)
    i = z3.Int("i!vals")
    arr = z3.Lambda([i], z3.Select(p["val"], z3.Select(p["keys"], i)))
    return new_seq_from(it, "list", arr, p["lo"], p["hi"])


@spec("dict.keys", "OrderedDict.keys", "mappingproxy.keys")
def _dict_keys(it, lv, ca, node):
    p = dict_parts(it, lv.bound)
    return new_seq_from(it, "list", p["keys"], p["lo"], p["hi"])


# ------------------------------------------------------------------------------------------------
# functools / weakref / datetime
# ------------------------------------------------------------------------------------------------
@spec("functools._make_key")
def _make_key(it, lv, ca, node):
    args = ca.arg(0, "args")
    kwds = ca.arg(1, "kwds")
    typed = ca.arg(2, "typed")
    used("T-KEY")
    lead = []
    l = it.st.simp(V.items(args)) if it.kind(args) == "tuple" else None
    while l is not None and V.app_name(l) == "cons":
        lead.append(l.arg(0))
        l = it.st.simp(l.arg(1))
    rest = args if not lead else V.VTup(l)
    if typed is not None and z3.is_true(it.st.simp(it.truthy(typed))):
        k = make_key(rest, kwds)
    else:
        k = make_key_untyped(rest, kwds)
    # (the result is a _HashedSeq, or with typed=False a bare int / str: never a bool or a float)
    it.st.assume(z3.Not(z3.Or(V.is_bool(k), V.is_float(k))))
    for x in reversed(lead):
        k = key_cons(x, k)
    return k


@spec("weakref.ref")
def _weakref(it, lv, ca, node):
    return wref(ca.pos[0])


@spec("functools.partial")
def _partial_fn(it, lv, ca, node):
    return _new_partial(it, lv, ca, node)


@spec("new:partial")
def _new_partial(it, lv, ca, node):
    from .interp import PartialV
    if ca.star is not None or ca.starstar is not None:
        st = it.st
        o = st.alloc("partial")
        st.ghost.setdefault("$partials_sym", {})[str(st.simp(V.addr(o)))] = ca
        st.put(o, "func", ca.pos[0])
        st.events.append(("partial", o, ca))
        return o
    o = it.st.alloc("partial")
    it.st.ghost.setdefault("$partials", {})[str(it.st.simp(V.addr(o)))] = PartialV(ca.pos[0], ca.pos[1:], dict(ca.kw))
    it.st.put(o, "func", ca.pos[0])
    return o


@spec("timedelta.total_seconds")
def _total_seconds(it, lv, ca, node):
    return V.VFloat(td_seconds(V.addr(lv.bound)))


# ------------------------------------------------------------------------------------------------
# asyncio: event loop, Future state machine (T-FUT)
#   $fstate: 0 pending, 1 result, 2 exception, 3 cancelled;  $fval: result or exception object
# ------------------------------------------------------------------------------------------------
F_PENDING, F_RESULT, F_EXC, F_CANCELLED = 0, 1, 2, 3


def fstate(it, fut) -> z3.ExprRef:
    return V.ival(it.st.get(fut, "$fstate"))


def fval(it, fut) -> z3.ExprRef:
    return it.st.get(fut, "$fval")


def the_loop(it) -> z3.ExprRef:
    g = it.st.ghost
    if "$loop" not in g:
        g["$loop"] = it.st.sym_ref("loop", "EventLoop")
    return g["$loop"]


@spec("asyncio.get_running_loop", "asyncio.get_event_loop")
def _get_loop(it, lv, ca, node):
    c = it.st.contract
    if lv.name == "asyncio.get_event_loop" and getattr(c, "loop_may_be_absent", False):
        # T-LOOP: in a thread that has no event loop (run_in_executor / to_thread workers, which inherit the caller's
        # context and hence its scopes) get_event_loop() raises RuntimeError; contracts opt in to this outcome
        used("T-LOOP")
        if it.st.fork("get_event_loop", [("loop-of-this-thread", True), ("no-event-loop-in-this-thread", True)]) == 1:
            it.st.ghost["$no_loop"] = True
            raise PyRaise(it.new_exc("RuntimeError"), "There is no current event loop in this thread")
    return the_loop(it)


def new_future(it, cls: str = "Future") -> z3.ExprRef:
    f = it.st.alloc(cls)
    it.st.put(f, "$fstate", V.VInt(z3.IntVal(F_PENDING)))
    it.st.put(f, "$fval", V.VNone)
    return f


@spec("EventLoop.create_future")
def _create_future(it, lv, ca, node):
    used("T-FUT")
    return new_future(it)


@spec("Future.done")
def _fut_done(it, lv, ca, node):
    return V.VBool(fstate(it, lv.bound) != F_PENDING)


@spec("Future.cancelled")
def _fut_cancelled(it, lv, ca, node):
    return V.VBool(fstate(it, lv.bound) == F_CANCELLED)


def _fut_set(it, fut, state: int, val, node):
    st = it.st
    if not st.decide(fstate(it, fut) == F_PENDING, f"future.set@{it.pos(node)}:pending"):
        raise PyRaise(it.new_exc("InvalidStateError"), "future already done")
    st.put(fut, "$fstate", V.VInt(z3.IntVal(state)))
    st.put(fut, "$fval", val)
    st.events.append(("future-done", fut, state, val))
    c = st.contract
    if c is not None and hasattr(c, "on_future_done"):
        c.on_future_done(it, fut, state, val)


@spec("Future.set_result")
def _fut_set_result(it, lv, ca, node):
    used("T-FUT")
    _fut_set(it, lv.bound, F_RESULT, ca.pos[0], node)
    return V.VNone


@spec("Future.set_exception")
def _fut_set_exception(it, lv, ca, node):
    used("T-FUT")
    e = ca.pos[0]
    if it.kind(e) == "type":
        from .interp import CallArgs
        e = it.call(e, CallArgs(), node)
    _fut_set(it, lv.bound, F_EXC, e, node)
    return V.VNone


@spec("Future.cancel")
def _fut_cancel(it, lv, ca, node):
    used("T-FUT")
    st = it.st
    fut = lv.bound
    c = st.contract
    if c is not None and hasattr(c, "on_cancel_call"):
        r = c.on_cancel_call(it, fut, node)
        if r is not None:
            return r
    if not st.decide(fstate(it, fut) == F_PENDING, f"future.cancel@{it.pos(node)}:pending"):
        return it.mk_bool(False)
    st.put(fut, "$fstate", V.VInt(z3.IntVal(F_CANCELLED)))
    return it.mk_bool(True)


@spec("Future.result")
def _fut_result(it, lv, ca, node):
    used("T-FUT")
    st = it.st
    fut = lv.bound
    s = fstate(it, fut)
    j = st.fork(f"future.result@{it.pos(node)}", [("value", s == F_RESULT), ("exception", s == F_EXC),
                                                  ("cancelled", s == F_CANCELLED), ("pending", s == F_PENDING)])
    if j == 0:
        return fval(it, fut)
    if j == 1:
        raise PyRaise(fval(it, fut), "future.result(): stored exception")
    if j == 2:
        raise PyRaise(it.new_exc("CancelledError"), "future.result(): cancelled")
    raise PyRaise(it.new_exc("InvalidStateError"), "future.result(): not done")


@spec("Future.exception")
def _fut_exception(it, lv, ca, node):
    used("T-FUT")
    st = it.st
    fut = lv.bound
    s = fstate(it, fut)
    j = st.fork(f"future.exception@{it.pos(node)}", [("value", s == F_RESULT), ("exception", s == F_EXC),
                                                     ("cancelled", s == F_CANCELLED), ("pending", s == F_PENDING)])
    if j == 0:
        return V.VNone
    if j == 1:
        return fval(it, fut)
    if j == 2:
        raise PyRaise(it.new_exc("CancelledError"), "future.exception(): cancelled")
    raise PyRaise(it.new_exc("InvalidStateError"), "future.exception(): not done")


is_awaitable = z3.Function("is_awaitable", Val, z3.BoolSort())


@spec("inspect.isawaitable")
def _isawaitable(it, lv, ca, node):
    from .interp import AwaitableV
    v = ca.pos[0]
    k = it.kind(v)
    if k == "function" and isinstance(it.st.fun_of(v), AwaitableV):
        return it.mk_bool(True)
    if k == "ref":
        c = it.st.class_id_of(v)
        if c is not None and it.ct.is_sub(c, it.ct.id("Future")):
            return it.mk_bool(True)
    if k in ("none", "int", "float", "bool", "str", "tuple", "type"):
        return it.mk_bool(False)
    return V.VBool(is_awaitable(v))           # an arbitrary object may or may not define __await__


def awaitable_of(it, v, node=None):
    from .interp import AwaitableV
    if it.kind(v) == "ref":
        c = it.st.class_id_of(v)
        if c is not None and it.ct.is_sub(c, it.ct.id("Future")):
            return AwaitableV("future", {"fut": v})
    cc = it.st.contract
    if cc is not None and hasattr(cc, "awaitable_of"):
        r = cc.awaitable_of(it, v, node)
        if r is not None:
            return r
    if it.st.entails(is_awaitable(v)):
        return AwaitableV("opaque", {"value": v})     # an arbitrary awaitable object: awaiting it yields anything
    raise Unsupported(f"await of a value that is not a known awaitable at line {getattr(node, 'lineno', '?')}")


@spec("await:opaque")
def _await_opaque(it, aw, idx, node):
    """Awaiting an arbitrary awaitable: any value or any exception (nothing is known about it)."""
    st = it.st
    if st.fork(f"await#{idx}:awaitable-object", [("yields-a-value", True), ("raises", True)]) == 0:
        return st.fresh_val("awaited")
    raise PyRaise(it.fresh_exception("awaited.exc"), "the awaited object raised")


@spec("await:future")
def _await_future(it, aw, idx, node):
    """Resumption of `await fut` (T-FUT): value / stored exception / future cancelled, and - when
    the contract allows a cancellation of the awaiting task - cancellation while the future is
    pending (which cancels the future) or after it already holds a result (the value is lost to
    the awaiter: CancelledError is thrown regardless)."""
    st = it.st
    fut = aw.data["fut"]
    s = fstate(it, fut)
    c = st.contract
    allow_cancel = c is not None and c.cancel_awaiting_task(it, aw, idx)
    alts = [("result", s == F_RESULT), ("exception", s == F_EXC), ("future-cancelled", s == F_CANCELLED)]
    if allow_cancel:
        alts += [("task-cancelled-while-pending", s == F_PENDING),
                 ("task-cancelled-after-result", s == F_RESULT),
                 ("task-cancelled-after-exception", s == F_EXC)]
    j = st.fork(f"await#{idx}:future", alts)
    if j == 0:
        return fval(it, fut)
    if j == 1:
        raise PyRaise(fval(it, fut), "awaited future failed")
    if j == 2:
        raise PyRaise(it.new_exc("CancelledError"), "awaited future was cancelled")
    if j == 3:
        st.put(fut, "$fstate", V.VInt(z3.IntVal(F_CANCELLED)))
        raise PyRaise(it.new_exc("CancelledError"), "task cancelled while waiting")
    raise PyRaise(it.new_exc("CancelledError"), "task cancelled after the future was completed")


# ------------------------------------------------------------------------------------------------
# asyncio.Lock (T-LOCK: mutual exclusion, FIFO hand-over, release does not suspend)
# ------------------------------------------------------------------------------------------------
@spec("new:Lock")
def _new_lock(it, lv, ca, node):
    used("T-LOCK")
    return it.st.alloc("Lock")


@spec("Lock.__aenter__", "Lock.acquire")
def _lock_aenter(it, lv, ca, node):
    from .interp import AwaitableV
    return it.st.reg_fun(AwaitableV("lock-acquire", {"lock": lv.bound}))


@spec("Lock.__aexit__")
def _lock_aexit(it, lv, ca, node):
    from .interp import AwaitableV
    return it.st.reg_fun(AwaitableV("lock-release", {"lock": lv.bound, "exc": ca.pos[1] if len(ca.pos) > 1 else V.VNone}))


@spec("await:lock-acquire")
def _await_lock_acquire(it, aw, idx, node):
    c = it.st.contract
    if c is not None and hasattr(c, "on_lock_acquired"):
        c.on_lock_acquired(it, aw.data["lock"])
    return V.VNone


@spec("await:lock-release")
def _await_lock_release(it, aw, idx, node):
    c = it.st.contract
    if c is not None and hasattr(c, "on_lock_release"):
        c.on_lock_release(it, aw.data["lock"], aw.data["exc"])
    return V.VNone


@spec("new:timedelta")
def _new_timedelta(it, lv, ca, node):
    o = it.st.alloc("timedelta")
    return o


# ------------------------------------------------------------------------------------------------
# tasks, timers, callbacks (T-FUT, T-TIMER): registrations are recorded, the loop runs them later
# ------------------------------------------------------------------------------------------------
@spec("TaskGroup.create_task")
def _tg_create_task(it, lv, ca, node):
    """T-TG: a group that is not active (not entered, finished, or shutting down after a failure or
    cancellation) refuses new tasks with RuntimeError; otherwise the task becomes a member."""
    used("T-TG")
    st = it.st
    if not st.ghost.get("$tg_probe") and \
            st.fork(f"TaskGroup.create_task@{it.pos(node)}", [("accepted", True), ("refused-group-not-active", True)]) == 1:
        st.ghost["$tg_refused"] = st.ghost.get("$tg_refused", 0) + 1
        raise PyRaise(it.new_exc("RuntimeError"), "TaskGroup is not active")
    return _create_task(it, lv, ca, node)


@spec("EventLoop.create_task", "asyncio.create_task")
def _create_task(it, lv, ca, node):
    used("T-FUT")
    st = it.st
    t = new_future(it, "Task")
    coro = ca.pos[0] if ca.pos else None
    st.events.append(("create_task", t, coro, ca.kw.get("context"), lv.bound))
    st.ghost.setdefault("$tasks", []).append(dict(task=t, coro=coro, context=ca.kw.get("context"), via=lv.bound,
                                                 name=lv.name))
    c = st.contract
    if c is not None and hasattr(c, "on_create_task"):
        c.on_create_task(it, t, coro, ca, lv)
    return t


@spec("Future.add_done_callback")
def _add_done_callback(it, lv, ca, node):
    used("T-FUT")
    it.st.ghost.setdefault("$done_callbacks", []).append((lv.bound, ca.pos[0]))
    return V.VNone


@spec("Task.cancel")
def _task_cancel(it, lv, ca, node):
    """Task.cancel() only *requests* cancellation; the task ends later (T-FUT)."""
    used("T-FUT")
    it.st.ghost.setdefault("$cancel_requests", []).append(lv.bound)
    return V.VBool(fstate(it, lv.bound) == F_PENDING)


@spec("EventLoop.call_later")
def _call_later(it, lv, ca, node):
    used("T-TIMER")
    st = it.st
    h = st.alloc("TimerHandle")
    st.put(h, "$tcancelled", it.mk_bool(False))
    st.ghost.setdefault("$timers", []).append(dict(handle=h, delay=ca.pos[0], callback=ca.pos[1], args=ca.pos[2:]))
    return h


@spec("TimerHandle.cancel")
def _timer_cancel(it, lv, ca, node):
    used("T-TIMER")
    it.st.put(lv.bound, "$tcancelled", it.mk_bool(True))
    return V.VNone


# ------------------------------------------------------------------------------------------------
# asyncio.shield (T-SHIELD): the awaiter receives the inner outcome; cancelling the awaiter does
# not cancel the inner task
# ------------------------------------------------------------------------------------------------
@spec("asyncio.shield")
def _shield(it, lv, ca, node):
    from .interp import AwaitableV
    used("T-SHIELD")
    return it.st.reg_fun(AwaitableV("shield", {"inner": ca.pos[0]}))


@spec("await:shield")
def _await_shield(it, aw, idx, node):
    st = it.st
    inner = aw.data["inner"]
    s = fstate(it, inner)
    c = st.contract
    alts = [("result", s == F_RESULT), ("exception", s == F_EXC), ("inner-cancelled", s == F_CANCELLED)]
    if c is not None and c.cancel_awaiting_task(it, aw, idx):
        alts.append(("waiter-cancelled", True))
    j = st.fork(f"await#{idx}:shield", alts)
    if j == 0:
        return fval(it, inner)
    if j == 1:
        raise PyRaise(fval(it, inner), "shielded task failed")
    if j == 2:
        raise PyRaise(it.new_exc("CancelledError"), "shielded task was cancelled")
    # the inner task is untouched (T-SHIELD)
    raise PyRaise(it.new_exc("CancelledError"), "waiter cancelled while awaiting shield")


@spec("builtins.id")
def _id(it, lv, ca, node):
    used("T-ID")
    # T-ID: id() is injective on objects alive at the same time - stated as ground facts between
    # all objects whose id was taken on this path (no quantified axiom needed)
    seen = it.st.ghost.setdefault("$id_args", [])
    x = ca.pos[0]
    dead = it.st.ghost.get("$collected", [])
    for y in seen:
        if any(d.eq(y) or d.eq(x) for d in dead):
            continue            # the address of a collected object may be handed out again: no injectivity across lifetimes
        it.st.assume(z3.Implies(id_of(x) == id_of(y), x == y))
    seen.append(x)
    return V.VInt(id_of(x))


# ------------------------------------------------------------------------------------------------
# zero-argument super(): only `super().__call__()` of a metaclass is modelled (type.__call__)
# ------------------------------------------------------------------------------------------------
@spec("builtins.super")
def _super(it, lv, ca, node):
    from .interp import LibV
    return it.st.reg_fun(LibV("super-proxy"))


@spec("super-proxy.__call__")
def _super_call(it, lv, ca, node):
    c = it.st.contract
    if c is not None and hasattr(c, "super_call"):
        return c.super_call(it, ca, node)
    raise Unsupported("super().__call__() outside a contract that defines it")


@spec("object::__new__")
def _object_new(it, lv, ca, node):
    """object.__new__(cls): a new, uninitialised instance (does not go through a metaclass __call__)."""
    c = it.st.simp(V.cid(ca.pos[0]))
    if not z3.is_int_value(c):
        raise Unsupported("object.__new__ of a symbolic class")
    return it.st.alloc(c.as_long())


# ------------------------------------------------------------------------------------------------
# contextvars (T-CV): a ContextVar is an object with the value it has in the *current* context
#   $cvset: VBool, $cvval: Val.  Tokens remember the previous binding.  Context variables are
#   task local: they are never havocked by the interference of other tasks.
# ------------------------------------------------------------------------------------------------
@spec("new:ContextVar")
def _new_contextvar(it, lv, ca, node):
    used("T-CV")
    st = it.st
    v = st.alloc("ContextVar")
    st.put(v, "$cvset", it.mk_bool(False))
    st.put(v, "$cvval", V.VNone)
    return v


def sym_contextvar(it, name: str) -> z3.ExprRef:
    """A pre-existing context variable with an arbitrary binding in the current context."""
    st = it.st
    v = st.sym_ref(name, "ContextVar")
    st.assume(V.is_bool(st.get(v, "$cvset")))
    return v


def cv_is_set(it, var) -> z3.ExprRef:
    return V.bval(it.st.get(var, "$cvset"))


def cv_value(it, var) -> z3.ExprRef:
    return it.st.get(var, "$cvval")


@spec("ContextVar.get")
def _cv_get(it, lv, ca, node):
    used("T-CV")
    st = it.st
    var = lv.bound
    if st.decide(cv_is_set(it, var), f"ContextVar.get@{it.pos(node)}:set"):
        return cv_value(it, var)
    if ca.pos:
        return ca.pos[0]
    raise PyRaise(it.new_exc("LookupError"), "context variable has no value")


@spec("ContextVar.set")
def _cv_set(it, lv, ca, node):
    used("T-CV")
    st = it.st
    var = lv.bound
    tok = st.alloc("Token")
    st.put(tok, "$tok_var", var)
    st.put(tok, "$tok_old_set", st.get(var, "$cvset"))
    st.put(tok, "$tok_old_val", st.get(var, "$cvval"))
    st.put(tok, "$tok_used", it.mk_bool(False))
    st.put(tok, "$tok_ctx", st.ghost.get("$current_context", V.VNone))
    st.put(var, "$cvset", it.mk_bool(True))
    st.put(var, "$cvval", ca.pos[0])
    return tok


@spec("ContextVar.reset")
def _cv_reset(it, lv, ca, node):
    used("T-CV")
    st = it.st
    var, tok = lv.bound, ca.pos[0]
    if not st.decide(st.get(tok, "$tok_var") == var, f"ContextVar.reset@{it.pos(node)}:own-token"):
        raise PyRaise(it.new_exc("ValueError"), "token was created by a different ContextVar")
    if not st.decide(st.get(tok, "$tok_ctx") == st.ghost.get("$current_context", V.VNone),
                     f"ContextVar.reset@{it.pos(node)}:same-context"):
        raise PyRaise(it.new_exc("ValueError"), "token was created in a different Context")
    if st.decide(V.bval(st.get(tok, "$tok_used")), f"ContextVar.reset@{it.pos(node)}:used"):
        raise PyRaise(it.new_exc("RuntimeError"), "token has already been used once")
    st.put(tok, "$tok_used", it.mk_bool(True))
    st.put(var, "$cvset", st.get(tok, "$tok_old_set"))
    st.put(var, "$cvval", st.get(tok, "$tok_old_val"))
    return V.VNone


@spec("contextvars.copy_context")
def _copy_context(it, lv, ca, node):
    used("T-CV")
    st = it.st
    c = st.alloc("Context")
    # a snapshot: remembers the bindings of the context variables the contract tracks
    snap = {}
    for name, var in st.ghost.get("$tracked_cvs", {}).items():
        snap[name] = (st.get(var, "$cvset"), st.get(var, "$cvval"))
    st.ghost.setdefault("$context_snapshots", {})[str(st.simp(V.addr(c)))] = snap
    st.events.append(("copy_context", c))
    return c


# ------------------------------------------------------------------------------------------------
# TaskGroup (T-TG) and gather (T-GATHER)
# ------------------------------------------------------------------------------------------------
@spec("new:TaskGroup")
def _new_taskgroup(it, lv, ca, node):
    used("T-TG")
    g = it.st.alloc("TaskGroup")
    it.st.ghost.setdefault("$taskgroups", []).append(g)
    it.st.put(g, "$tg_entered", it.mk_bool(False))
    it.st.put(g, "$tg_exited", it.mk_bool(False))
    return g


@spec("TaskGroup.__aenter__")
def _tg_aenter(it, lv, ca, node):
    from .interp import AwaitableV
    return it.st.reg_fun(AwaitableV("tg-enter", {"group": lv.bound}))


@spec("await:tg-enter")
def _await_tg_enter(it, aw, idx, node):
    g = aw.data["group"]
    # T-TG: a TaskGroup is single use - entering it a second time raises RuntimeError and changes nothing
    if it.st.decide(V.bval(it.st.get(g, "$tg_entered")), "TaskGroup.__aenter__:already-entered"):
        raise PyRaise(it.new_exc("RuntimeError"), "TaskGroup has already been entered")
    it.st.put(g, "$tg_entered", it.mk_bool(True))
    return g


@spec("TaskGroup.__aexit__")
def _tg_aexit(it, lv, ca, node):
    from .interp import AwaitableV
    et = ca.arg(0, "et")
    exc = ca.arg(1, "exc")
    tb = ca.arg(2, "tb")
    return it.st.reg_fun(AwaitableV("tg-exit", {"group": lv.bound, "et": et, "exc": exc, "tb": tb}))


@spec("await:tg-exit")
def _await_tg_exit(it, aw, idx, node):
    """T-TG: returns only when every member task is done; members are cancelled when the body
    failed or the parent is cancelled while waiting.  Outcome: returns a falsy value, raises a
    BaseExceptionGroup of member errors (and the body's error), or raises CancelledError - either
    the body's own cancellation (the same object) or one that arrived during the wait.  A cancellation
    that arrives during the wait while a member fails (e.g. its cleanup raises when it is cancelled) is
    *not* raised: the group of member errors is, and the request stays pending (Task.cancelling())."""
    st = it.st
    g = aw.data["group"]
    st.put(g, "$tg_exited", it.mk_bool(True))
    st.events.append(("tg-exit", g, aw.data["et"], aw.data["exc"], aw.data["tb"]))
    exc = aw.data["exc"]
    c = st.contract
    alts = [("returns", True), ("raises-group", True)]
    body_cancelled = None
    if exc is not None and it.kind(exc) == "ref":
        body_cancelled = V.subclass(V.class_of(V.addr(exc)), it.ct.id("CancelledError"))
        alts.append(("reraises-body-cancellation", body_cancelled))
    else:
        alts.append(("reraises-body-cancellation", False))
    allow = c is None or not hasattr(c, "cancel_during_taskgroup_exit") or c.cancel_during_taskgroup_exit(it)
    alts.append(("cancelled-while-waiting", bool(allow)))
    alts.append(("cancelled-while-waiting+member-failed", bool(allow)))
    # a request made *before* the exit started (e.g. cancel() as the last statement of the body) is delivered at this first
    # suspension point (T-FUT): CancelledError is raised here although the counter of requests does not grow any more
    tsk = c.current_task(it) if (allow and c is not None and hasattr(c, "current_task")) else None
    pending = (V.ival(st.get(tsk, "$cancelling")) >= 1) if (tsk is not None and it.kind(tsk) == "ref") else False
    alts.append(("earlier-request-delivered-while-waiting", pending))
    j = st.fork(f"await#{idx}:taskgroup-exit", alts)
    if j == 5:
        raise PyRaise(it.new_exc("CancelledError"), "a cancellation requested before the exit is delivered while the group waits")
    if j in (3, 4) and c is not None and hasattr(c, "current_task"):
        t = c.current_task(it)
        if it.kind(t) == "ref":             # an external cancel() is counted until somebody calls uncancel()
            st.put(t, "$cancelling", V.VInt(V.ival(st.get(t, "$cancelling")) + 1))
    if j == 0:
        return V.VNone
    if j == 1:
        e = st.alloc("BaseExceptionGroup")
        raise PyRaise(e, "TaskGroup: unhandled errors in members")
    if j == 2:
        raise PyRaise(exc, "TaskGroup re-raises the body's CancelledError")
    if j == 4:
        e = st.alloc("BaseExceptionGroup")
        raise PyRaise(e, "TaskGroup: cancelled while waiting, a member failed: the group of member errors is raised")
    raise PyRaise(it.new_exc("CancelledError"), "cancelled while the TaskGroup waits for its members")


coro_app = z3.Function("coro_app", Val, Val, Val)      # coroutine object of calling async f on x
flat_arr = z3.Function("flat_arr", V.ArrIV, I, I, V.ArrIV)
flat_len = z3.Function("flat_len", V.ArrIV, I, I, I)


@spec("asyncio.gather")
def _gather(it, lv, ca, node):
    from .interp import AwaitableV
    used("T-GATHER")
    rex = ca.kw.get("return_exceptions")
    rex_true = rex is not None and z3.is_true(it.st.simp(it.truthy(rex)))
    return it.st.reg_fun(AwaitableV("gather", {"pos": list(ca.pos), "star": ca.star, "return_exceptions": rex_true}))


@spec("await:gather")
def _await_gather(it, aw, idx, node):
    st = it.st
    c = st.contract
    if c is None or not hasattr(c, "gather"):
        raise Unsupported("await gather(...) needs the contract's gather summary")
    return c.gather(it, aw, idx, node)


@spec("itertools.chain.from_iterable")
def _chain_from_iterable(it, lv, ca, node):
    used("T-COLL:chain.from_iterable concatenates in order")
    sv = seq_view(it, ca.pos[0])
    if sv is None:
        raise Unsupported("chain.from_iterable over a non-sequence")
    arr, lo, hi = sv
    o = new_seq_from(it, "list", flat_arr(arr, lo, hi), z3.IntVal(0), flat_len(arr, lo, hi))
    it.st.assume(flat_len(arr, lo, hi) >= 0)
    return o


@spec("asyncio.current_task")
def _current_task(it, lv, ca, node):
    c = it.st.contract
    if c is not None and hasattr(c, "current_task"):
        return c.current_task(it)
    raise Unsupported("current_task() outside a contract that defines it")


@spec("sys.exception")
def _sys_exception(it, lv, ca, node):
    """sys.exception() (3.11+): the exception instance being handled by the innermost active handler of the calling thread -
    the function's own handler if it is inside one, otherwise whatever its callers are handling: nothing, a cancellation
    (a caller's `except CancelledError:` around an awaited child), or any other exception (T-EXCINFO)."""
    used("T-EXCINFO")
    st = it.st
    cur = st.ghost.get("$handling")
    if cur is not None:
        return cur
    j = st.fork("sys.exception", [("caller-handles-nothing", True), ("caller-handles-a-CancelledError", True),
                                  ("caller-handles-another-exception", True)])
    if j == 0:
        return V.VNone
    return it.new_exc("CancelledError" if j == 1 else "Exception")


@spec("sys.exc_info")
def _sys_exc_info(it, lv, ca, node):
    raise Unsupported("sys.exc_info")


@spec("Task.cancelling")
def _task_cancelling(it, lv, ca, node):
    """Number of pending cancellation requests of the task (T-FUT)."""
    used("T-FUT")
    return it.st.get(lv.bound, "$cancelling")


@spec("asyncio.get_event_loop.create_task")
def _unused(it, lv, ca, node):
    raise Unsupported("unused")


# ------------------------------------------------------------------------------------------------
# uuid / logging (T-LOG)
# ------------------------------------------------------------------------------------------------
@spec("uuid.uuid4")
def _uuid4(it, lv, ca, node):
    o = it.st.alloc("object")
    n = it.st.counters.get("uuid", 0)
    it.st.counters["uuid"] = n + 1
    h = V.VStr(it.st.fresh("uuid_hex", I))
    it.st.put(o, "hex", h)
    it.st.assume(str_len(V.sid(h)) == 32)
    it.st.ghost.setdefault("$uuids", []).append(h)
    return o


@spec("logging.getLogger")
def _get_logger(it, lv, ca, node):
    used("T-LOG")
    st = it.st
    name = ca.arg(0, "name")
    key = "root" if name is None else str(st.simp(name))
    cache = st.ghost.setdefault("$loggers", {})
    if key not in cache:
        lg = st.sym_ref("logger", "Logger")
        st.put(lg, "name", name if name is not None else it.mk_str("root"))
        cache[key] = lg
    return cache[key]


@spec("Logger.log")
def _logger_log(it, lv, ca, node):
    """T-LOG: Logger.log never raises; the record goes to this logger at the given level."""
    used("T-LOG")
    it.st.events.append(("log", lv.bound, ca))
    return V.VNone


str_replace = z3.Function("str_replace", I, I, I, I)
str_contains = z3.Function("str_contains", I, I, z3.BoolSort())


def replace_term(it, hay, old, new) -> z3.ExprRef:
    """hay.replace(old, new) as a string id; replacing a substring that does not occur is the identity (T-FMT)."""
    r = str_replace(hay, old, new)
    it.st.assume(z3.Implies(z3.Not(str_contains(hay, old)), r == hay))
    return r


@spec("str.replace")
def _str_replace(it, lv, ca, node):
    return V.VStr(replace_term(it, V.sid(lv.bound), V.sid(ca.pos[0]), V.sid(ca.pos[1])))


@spec("copy.copy")
def _copy_copy(it, lv, ca, node):
    used("T-COPY:copy.copy(dict) is a new dict with the same items")
    v = ca.pos[0]
    cn = _cname(it, v)
    if cn in ("dict", "OrderedDict"):
        return dict_of(it, v)
    raise Unsupported("copy.copy of a non-dict value")


@spec("dict.setdefault", "OrderedDict.setdefault")
def _dict_setdefault(it, lv, ca, node):
    st = it.st
    d, k = lv.bound, ca.pos[0]
    default = ca.pos[1] if len(ca.pos) > 1 else V.VNone
    check_key(it, k)
    p = dict_parts(it, d)
    st.instantiate_at(k)
    if st.decide(z3.Select(p["has"], k), f"dict.setdefault@{it.pos(node)}:present"):
        return st.simp(z3.Select(p["val"], k))
    dict_set(it, d, k, default)
    return default


@spec("dict.pop", "OrderedDict.pop")
def _dict_pop(it, lv, ca, node):
    st = it.st
    d, k = lv.bound, ca.pos[0]
    check_key(it, k)
    p = dict_parts(it, d)
    st.instantiate_at(k)
    if st.decide(z3.Select(p["has"], k), f"dict.pop@{it.pos(node)}:present"):
        v = st.simp(z3.Select(p["val"], k))
        dict_remove_at(it, d, k)
        return v
    if len(ca.pos) > 1:
        return ca.pos[1]
    raise PyRaise(it.new_exc("KeyError"), "pop of a missing key")


# ------------------------------------------------------------------------------------------------
# pairs views: dict.items(), enumerate(...)
# ------------------------------------------------------------------------------------------------
def _pairs_view(it, A, Bf, lo, hi, first_is_int=False):
    i = z3.Int("i!pv")
    arr = z3.Lambda([i], V.tup(A(i), Bf(i)))
    o = new_seq_from(it, "list", arr, lo, hi)
    it.st.ghost.setdefault("$pairs", {})[z3.simplify(arr).sexpr()] = (A, Bf, first_is_int)
    return o


def pairs_lookup(it, arr):
    return it.st.ghost.get("$pairs", {}).get(z3.simplify(arr).sexpr())


@spec("dict.items", "OrderedDict.items", "mappingproxy.items")
def _dict_items(it, lv, ca, node):
    p = dict_parts(it, lv.bound)
    A = lambda i: z3.Select(p["keys"], i)
    Bf = lambda i: z3.Select(p["val"], z3.Select(p["keys"], i))
    return _pairs_view(it, A, Bf, p["lo"], p["hi"])


@spec("builtins.enumerate")
def _enumerate(it, lv, ca, node):
    sv = seq_view(it, ca.pos[0])
    if sv is None:
        raise Unsupported("enumerate over a non-sequence")
    arr, lo, hi = sv
    A = lambda i: V.VInt(i - lo)
    Bf = lambda i: z3.Select(arr, i)
    return _pairs_view(it, A, Bf, lo, hi, first_is_int=True)


@spec("new:mappingproxy")
def _new_mappingproxy(it, lv, ca, node):
    """types.MappingProxyType(d): a read-only view of the dict d."""
    st = it.st
    d = ca.pos[0]
    if _cname(it, d) not in ("dict", "OrderedDict"):
        raise Unsupported("MappingProxyType over a non-dict")
    o = st.alloc("mappingproxy")
    p = dict_parts(it, d)
    for f, key in (("$dhas", "has"), ("$dval", "val"), ("$dpos", "pos"), ("$arr", "keys"), ("$lo", "lo"), ("$hi", "hi")):
        st.put(o, f, p[key])
    st.put(o, "$mp_dict", d)
    return o


@spec("new:frozenset")
def _new_frozenset(it, lv, ca, node):
    if not ca.pos:
        return new_seq(it, "frozenset", [])
    sv = seq_view(it, ca.pos[0])
    if sv is None:
        raise Unsupported("frozenset of unknown iterable")
    return new_seq_from(it, "frozenset", *sv)


@spec("builtins.hasattr")
def _hasattr(it, lv, ca, node):
    c = it.st.contract
    if c is not None and hasattr(c, "hasattr_"):
        r = c.hasattr_(it, ca.pos[0], ca.pos[1], node)
        if r is not None:
            return r
    raise Unsupported("hasattr on an unmodelled value")


@spec("new:str")
def _new_str(it, lv, ca, node):
    return _str(it, lv, ca, node)


@spec("new:tuple")
def _new_tuple(it, lv, ca, node):
    return _tuple(it, lv, ca, node)


# ------------------------------------------------------------------------------------------------
# instance attribute storage by *symbolic* name (object.__setattr__ / getattr / vars on State)
#   $sattr_has[addr]: Val -> Bool, $sattr_val[addr]: Val -> Val
# ------------------------------------------------------------------------------------------------
FIELD_SORTS["$sattr_has"] = z3.ArraySort(I, V.ArrVB)
FIELD_SORTS["$sattr_val"] = z3.ArraySort(I, V.ArrVV)


@spec("object::__setattr__")
def _object_setattr(it, lv, ca, node):
    st = it.st
    obj, name, val = ca.pos
    st.put(obj, "$sattr_has", z3.Store(st.get(obj, "$sattr_has"), name, True))
    st.put(obj, "$sattr_val", z3.Store(st.get(obj, "$sattr_val"), name, val))
    return V.VNone


dc = z3.Function("deepcopy_of", Val, Val)
contains_proxy = z3.Function("contains_mappingproxy", Val, B)
dc_exc = z3.Function("deepcopy_exc", Val, Val)


def deepcopy_ok(it, v):
    """T-COPY: copy.deepcopy fails (TypeError: cannot pickle 'mappingproxy' object) exactly on values
    that are or contain a types.MappingProxyType; otherwise it returns an equal value."""
    return z3.Not(z3.Or(z3.And(V.is_ref(v), V.class_of(V.addr(v)) == it.ct.id("mappingproxy")), contains_proxy(v)))


@spec("copy.deepcopy")
def _deepcopy(it, lv, ca, node):
    used("T-COPY:deepcopy")
    v = ca.pos[0]
    return it.call_pure(deepcopy_ok(it, v), dc(v), dc_exc(v), "deepcopy")


@spec("builtins.vars")
def _vars(it, lv, ca, node):
    """vars(obj) of a State instance: a dict view of its instance attributes."""
    st = it.st
    obj = ca.pos[0]
    d = st.alloc("dict")
    st.put(d, "$dhas", st.get(obj, "$sattr_has"))
    st.put(d, "$dval", st.get(obj, "$sattr_val"))
    keys = st.fresh("vars_keys", V.ArrIV)
    pos = st.fresh("vars_pos", V.ArrVI)
    n = st.fresh("vars_n", I)
    st.assume(n >= 0)
    st.put(d, "$arr", keys)
    st.put(d, "$dpos", pos)
    st.put(d, "$lo", z3.IntVal(0))
    st.put(d, "$hi", n)
    has = st.get(obj, "$sattr_has")
    from .state import QFact
    st.assume(QFact(lambda i: z3.Implies(z3.And(0 <= i, i < n), z3.And(z3.Select(has, z3.Select(keys, i)),
                                                                     z3.Select(pos, z3.Select(keys, i)) == i)),
                    pattern=lambda i: z3.Select(keys, i), name="vk"))
    st.assume(QFact(lambda k: z3.Implies(z3.Select(has, k), z3.And(0 <= z3.Select(pos, k), z3.Select(pos, k) < n,
                                                                  z3.Select(keys, z3.Select(pos, k)) == k)),
                    sort=Val, pattern=lambda k: z3.Select(has, k), name="vk2"))
    st.ghost.setdefault("$vars_of", {})[str(st.simp(V.addr(d)))] = obj
    return d


# ------------------------------------------------------------------------------------------------
# executors (T-EXEC) and Context.run
# ------------------------------------------------------------------------------------------------
@spec("Context.run")
def _context_run(it, lv, ca, node):
    """ctx.run(f, *a): runs f(*a) inside that context (changes made there stay there)."""
    c = it.st.contract
    if c is not None and hasattr(c, "context_run"):
        return c.context_run(it, lv.bound, ca, node)
    raise Unsupported("Context.run outside a contract that defines it")


@spec("EventLoop.run_in_executor")
def _run_in_executor(it, lv, ca, node):
    from .interp import AwaitableV
    used("T-EXEC")
    return it.st.reg_fun(AwaitableV("executor", {"loop": lv.bound, "executor": ca.pos[0], "fn": ca.pos[1],
                                                 "args": list(ca.pos[2:]), "star": ca.star}))


@spec("await:executor")
def _await_executor(it, aw, idx, node):
    c = it.st.contract
    if c is not None and hasattr(c, "executor_outcome"):
        return c.executor_outcome(it, aw, idx, node)
    raise Unsupported("run_in_executor outside a contract that defines its outcome")


@spec("new:bool", "builtins.bool")
def _new_bool(it, lv, ca, node):
    if not ca.pos:
        return it.mk_bool(False)
    return V.VBool(it.truthy(ca.pos[0]))
