"""Differential self-check of the symbolic executor against CPython.

Every micro-program below is run twice on the same concrete arguments: natively by the interpreter that runs the repository's
tests, and by pyvc's `Interp` (the very code that generates the verification conditions).  With concrete inputs a program has
one path; the value (or exception class) the engine computes must be the one CPython computes.  A difference is a bug of the
*checker* (unsound or imprecise encoding of Python's semantics, DESIGN 3.2 S1-S8), never a statement about the repository.

    .venv/bin/python -m pyvc.selfcheck          exit 0: all agree / 3: the engine disagrees with CPython somewhere

The programs exercise the constructs the contracts rely on: truthiness, `is` / `==` across types, chained comparisons, boolean
operators as values, conditional expressions, tuple / list / dict / set operations (incl. order of dict keys, OrderedDict
moves, deque ends), slices, unpacking, `match` statements (sequence, mapping, class, value and or-patterns), loops with break /
continue / else, try / except / finally with re-raise, closures and nonlocal, default arguments, keyword collisions,
isinstance / issubclass on builtin classes, walrus, comprehensions over concrete sequences.
"""
from __future__ import annotations

import ast
import os
import sys
import tempfile
import textwrap
import traceback

PROGRAMS = r'''
from collections import OrderedDict, deque


class Boom(Exception):
    pass


class Sub(Boom):
    pass


def truth(x):
    return (bool(x), not x, 1 if x else 2)


def bool_ops(a, b):
    return (a and b, a or b, (a or b) and (b or a), not a and b)


def compare(a, b):
    return (a == b, a != b, a is b, a < b if isinstance(a, (int, float)) and isinstance(b, (int, float)) else None)


def chained(a, b, c):
    return (a < b < c, a <= b == c, a < b > c)


def arith(a, b):
    return (a + b, a - b, a * b, -a, a + b * 2 - (a - b), a * 2 < b + 7, a >= b, -a <= b)


def arith_div(a, b):
    return (a // b if b else None, a % b if b else None, abs(a - b), max(a, b), min(a, b))


def tuples(t):
    return (len(t), t[0], t[-1], t[1:], t[:-1], (1,) in (t, (1,)), t == tuple(t), t[0] in t, (t, 1)[0] is t)


def star_unpack(t):
    a, *rest = t
    return (a, tuple(rest))


def lists(xs):
    ys = list(xs)
    ys.append(7)
    ys.extend([8, 9])
    first = ys.pop(0)
    ys.insert(1, 42)
    last = ys.pop()
    return (ys, first, last, len(ys), ys[1:3], 42 in ys, [y for y in ys if y > 7], [y + 1 for y in ys])


def dicts(pairs):
    d = {}
    for k, v in pairs:
        d[k] = v
    keys = list(d)
    got = d.get("zz", "dflt")
    d.setdefault("a", 100)
    d.setdefault("new", 5)
    popped = d.pop("new")
    return (keys, list(d.items()), got, popped, "a" in d, len(d), {k: v for k, v in d.items() if v})


def dict_display(pairs):
    d = {k: v for k, v in pairs}
    return ({**d, "a": -1}, {"a": -1, **d}, d | {"q": 1})


def ordered(keys):
    od = OrderedDict()
    for k in keys:
        od[k] = len(od)
    od.move_to_end(keys[0])
    od[keys[1]] = 99
    oldest = od.popitem(last=False)
    return (list(od.items()), oldest, len(od))


def deques(xs):
    d = deque()
    for x in xs:
        d.append(x)
    d.appendleft(-1)
    a = d.popleft()
    b = d.popleft()
    d.appendleft(b)
    return (list(d), a, b, d[0], len(d), bool(d))


def sets(xs):
    s = set(xs)
    f = frozenset(xs)
    return (len(s), 2 in s, 99 in f, s == set(xs), isinstance(f, frozenset), isinstance(s, frozenset))


def seq_match(v):
    match v:
        case None:
            return "none"
        case [*items]:
            return ("seq", len(items), tuple(items))
        case {**rest}:
            return ("map", len(rest))
        case bool(b):
            return ("bool", b)
        case int(x) | float(x):
            return ("num", x)
        case str():
            return "str"
        case other:
            return ("other", other is v)


def literal_match(v):
    match v:
        case 1:
            return "one"
        case "a" | "b":
            return "ab"
        case None:
            return "none"
        case _:
            return "no"


def value_match(v):
    match v:
        case 1:
            return "one"
        case "a" | "b":
            return "ab"
        case (x, y):
            return ("pair", x, y)
        case (x, y, *zs) if x == y:
            return ("eq-head", len(zs))
        case _:
            return "no"


def loops(xs, stop):
    out = []
    for x in xs:
        if x == stop:
            break
        if x in (1, 3, 5):
            continue
        out.append(x)
    else:
        out.append("done")
    return out


def while_loop(k):
    n = 0
    while n < k:
        n += 1
        if n == 2:
            continue
    return n


def excs(kind):
    log = []
    try:
        try:
            if kind == "boom":
                raise Boom("b")
            if kind == "sub":
                raise Sub("s")
            if kind == "value":
                raise ValueError("v")
            log.append("no-raise")
        except Sub as e:
            log.append(("sub", type(e).__name__))
            raise
        except Boom as e:
            log.append(("boom", isinstance(e, Sub), isinstance(e, Boom)))
        else:
            log.append("else")
        finally:
            log.append("finally")
    except (Sub, ValueError) as e:
        log.append(("outer", type(e).__name__))
    return log


def closures(n):
    total = 0

    def add(k, step=2):
        nonlocal total
        total += k * step
        return total
    r = [add(i) for i in [0, 1, 2][:n]]
    return (r, total, add(1, step=10))


def kwcall(a, b=2, *rest, key="k", **kw):
    return (a, b, rest, key, list(kw.items()))


def call_forms():
    out = [kwcall(1), kwcall(1, 3, 4, 5, key="z"), kwcall(b=5, a=4, extra=1), kwcall(*[1, 2, 3], **{"key": "q", "w": 0})]
    try:
        kwcall(1, a=2)
    except TypeError:
        out.append("collision")
    try:
        kwcall()
    except TypeError:
        out.append("missing")
    return out


def walrus(xs):
    if (n := len(xs)) > 2:
        return ("long", n)
    return ("short", n)


def classes(v):
    return (isinstance(v, int), isinstance(v, bool), isinstance(v, (str, tuple)), type(v) is int, type(v) is bool,
            issubclass(bool, int), issubclass(Sub, Boom), issubclass(Boom, Sub), isinstance(Sub("x"), Boom))


def identity(a):
    b = a
    c = list(a) if isinstance(a, list) else a
    return (a is b, a is c, a == c, None is None, a is None)


def ternary_chain(x):
    return "neg" if x < 0 else "zero" if x == 0 else "pos"


def nested_unpack(pairs):
    return [(k, a + b) for k, (a, b) in pairs]


def slices(xs):
    return (xs[1:], xs[:2], xs[-2:], xs[:-1], xs[5:], xs[1:1], xs[0:100], xs[-100:2])


class Point:
    count = 0

    def __init__(self, x, y=0):
        self.x = x
        self.y = y

    def __eq__(self, other):
        return isinstance(other, Point) and self.x == other.x and self.y == other.y

    def __bool__(self):
        return self.x != 0 or self.y != 0

    @property
    def total(self):
        return self.x + self.y

    @classmethod
    def origin(cls):
        return cls(0)

    @staticmethod
    def double(v):
        return v + v

    def moved(self, dx=1):
        return Point(self.x + dx, self.y)


class Point3(Point):
    def __init__(self, x, y=0, z=0):
        super().__init__(x, y)
        self.z = z

    def __len__(self):
        return 3

    def moved(self, dx=1):
        base = super().moved(dx)
        return Point3(base.x, base.y, self.z)


class Sized:
    def __init__(self, n):
        self.n = n

    def __len__(self):
        return self.n


def objects(x, y):
    p, q = Point(x, y), Point(x, y)
    o = Point.origin()
    m = p.moved()
    return (p == q, p is q, p != q, bool(p), bool(o), p.total, Point.double(p.x), m.x, m.y, isinstance(m, Point),
            p == 1, not o, "falsy" if not Sized(0) else "truthy", "falsy" if not Sized(2) else "truthy")


def subclasses(x):
    a = Point3(x, 1, 2)
    b = a.moved(5)
    return (type(b) is Point3, isinstance(b, Point), b.x, b.y, b.z, a == Point(x, 1), Point(x, 1) == a, len(a), bool(a),
            hasattr(a, "z"), hasattr(a, "w"), getattr(a, "w", "dflt"))


def attr_errors(x):
    p = Point(x)
    try:
        return p.missing
    except AttributeError:
        return "attribute-error"


def dict_ops(n):
    d = {"a": 1, "b": 2, "c": 3}
    del d["b"]
    keys = [k for k in d]
    vals = [v for v in d.values()]
    items = [(k, v) for k, v in d.items()]
    d["b"] = n
    try:
        d["zz"]
    except KeyError:
        missing = True
    else:
        missing = False
    return (keys, vals, items, list(d), "b" in d, "zz" not in d, missing, len(d), any(v == n for v in d.values()),
            all(v for v in d.values()))


def lru(limit, keys):
    cache = OrderedDict()
    evicted = []
    for k in keys:
        if k in cache:
            cache.move_to_end(k)
            continue
        cache[k] = k * 10
        if len(cache) > limit:
            evicted.append(cache.popitem(last=False)[0])
    return (list(cache), evicted)


def finally_flow(kind):
    log = []

    def inner():
        try:
            if kind == "raise":
                raise Boom("x")
            return "try"
        finally:
            log.append("cleanup")
            if kind == "override":
                return "finally"
    try:
        r = inner()
    except Boom:
        r = "raised"
    return (r, log)


def aug(xs):
    n = 0
    acc = []
    for x in xs:
        n += x
        acc.append(n)
    n -= 1
    n *= 2
    return (n, acc)


def aug_seq(xs):
    acc = list(xs)
    acc += [1]
    t = (1,)
    t += (2,)
    return (acc, t)


def isinst_union(v):
    return (isinstance(v, set | tuple), isinstance(v, int | None))


def isinst_tuple(v):
    return (isinstance(v, (list, dict)), isinstance(v, (int, str)), callable(v), callable(len), callable(isinst_tuple))


def raise_from(kind):
    try:
        try:
            raise ValueError("inner")
        except ValueError as e:
            if kind == "from":
                raise Boom("outer") from e
            raise Boom("outer")
    except Boom as b:
        return (type(b.__cause__).__name__ if b.__cause__ is not None else None, b.args)


def mutable_default(x, acc=[]):
    acc.append(x)
    return list(acc)


def default_twice(x):
    return (mutable_default(x), mutable_default(x + 1))


def late_binding(n):
    fs = []
    for i in [0, 1, 2][:n]:
        fs.append(lambda: i)
    gs = [lambda i=i: i for i in [0, 1, 2][:n]]
    return ([f() for f in fs], [g() for g in gs])


def bound_methods(x):
    p = Point(x, 1)
    m = p.moved
    q = m(2)
    f = Point.moved
    r = f(p)
    return (q.x, r.x, m.__self__ is p)


def class_attrs(x):
    a, b = Point(x), Point(x)
    before = (a.count, Point.count)
    a.count = 5
    Point.count = 7
    after = (a.count, b.count, Point.count)
    Point.count = 0
    return (before, after, "count" in vars(a), "count" in vars(b))


def strings(s, t):
    return (s + t, s in t, t.startswith(s), f"<{s}|{t}>", str(3) + s, len(s + t), s == t, s != t, s < t if s and t else None,
            "" if not s else "nonempty", s * 2 if False else s)


def membership(x, xs):
    return (x in xs, x not in xs, x is not None, xs is not None, not x in xs)


def gen_shortcircuit(xs):
    seen = []

    def probe(v):
        seen.append(v)
        return v > 1
    r = any(probe(v) for v in xs)
    return (r, seen)


def zip_enum(xs, ys):
    return ([(i, x) for i, x in enumerate(xs)], [(x, y) for x, y in zip(xs, ys)], list(reversed(xs)), list(zip(xs, ys)))


def try_return(kind):
    log = []

    def f():
        try:
            if kind == "raise":
                raise ValueError("x")
            return "body"
        except ValueError:
            log.append("except")
            return "handler"
        else:
            log.append("else")
        finally:
            log.append("finally")
    return (f(), log)


def init_raises(x):
    class Strict:
        def __init__(self, v):
            if v < 0:
                raise ValueError("negative")
            self.v = v
    try:
        return Strict(x).v
    except ValueError as exc:
        return ("rejected", str(exc))


def getattr3(x):
    p = Point(x)
    return (getattr(p, "x"), getattr(p, "nope", None), getattr(p, "y", 9), hasattr(p, "total"), hasattr(p, "nope"))


def eq_dispatch(x):
    class Always:
        def __eq__(self, other):
            return True

        def __hash__(self):
            return 1

    class Never:
        def __eq__(self, other):
            return False

        __hash__ = None
    a, n = Always(), Never()
    return (a == x, x == a, n == n, n != n, a != x, [a] == [x], (n,) == (n,), n in [n], x in [a])


def nested_data(x):
    d = {"k": [1, {"z": (x, [x])}]}
    d["k"][1]["z"][1].append(5)
    c = dict(d)
    c["k"] = "replaced"
    return (d, c, d["k"][1]["z"][1][-1], len(d["k"]))


def del_and_rebind(xs):
    ys = xs
    xs = xs + [1] if False else xs
    ys.append(99)
    a = [1, 2, 3]
    del a[1]
    return (xs, ys is xs, a)


def conditional_import_like(flag):
    value = None
    if flag:
        value = "set"
    elif flag is None:
        value = "none"
    return value or "fallback"


def int_bool_keys():
    d = {1: "int", True: "bool", 1.0: "float", "1": "str"}
    return (len(d), d[1], list(d))


def tuple_keys(a, b):
    d = {(a, b): 1, (b, a): 2}
    return (len(d), d[(a, b)], (a, b) in d, (a, a) in d)


def try_scalar(x):
    try:
        if x is None:
            raise Boom("none")
        if not x:
            raise Sub("falsy")
        if x == 1:
            raise ValueError("one")
        r = "plain"
    except Sub:
        r = "sub"
    except Boom:
        r = "boom"
    except Exception:
        r = "other"
    finally:
        tail = "fin"
    return (r, tail)


def member_const(x):
    return (x in (1, "a"), x not in (None,), x in (), x in ("b", 0), x is None or x == 1)


def dict_sym(k):
    d = {"a": 1, "b": 2}
    r1 = d.get(k, 0)
    r2 = k in d
    if k in d:
        del d[k]
    d["c"] = 3
    r3 = d.pop(k, "gone")
    d.setdefault(k, 9)
    return (r1, r2, r3, len(d), d.get(k), "c" in d, d[k])


def odict_sym(k, limit):
    od = OrderedDict()
    od["a"] = 1
    od["b"] = 2
    if k in od:
        od.move_to_end(k)
    else:
        od[k] = 3
    evicted = None
    if len(od) > limit:
        evicted = od.popitem(last=False)[0]
    return (evicted, len(od), k in od, "a" in od)


def match_sym(v):
    match v:
        case None:
            return "none"
        case bool():
            return "bool"
        case int() as i if i > 3:
            return "big"
        case int():
            return "int"
        case str() as s_ if s_:
            return "str"
        case _:
            return "other"


def excs_sym(x):
    log = 0
    try:
        try:
            if x is None:
                raise Sub("s")
            if x == 0:
                raise Boom("b")
            if x == 1:
                raise ValueError("v")
            log += 1
        except Boom as e:
            log += 10
            if isinstance(e, Sub):
                raise
        else:
            log += 100
        finally:
            log += 1000
    except Sub:
        log += 10000
    except ValueError:
        log += 20000
    return log


def kw_scalar(a, b):
    def inner(p, q=5, *, r="r", **rest):
        return (p, q, r, len(rest))
    kw = {"q": b} if b is not None else {}
    return (inner(a, **kw), inner(p=a, r=b), inner(a, b))
'''

CASES = [
    ("truth", [(0,), (1,), (None,), ("",), ("a",), ((),), ((0,),), ([],), ([0],), ({},), (0.0,), (True,), (False,)]),
    ("bool_ops", [(0, 5), (3, 0), (None, "x"), ("", ()), (1, 2), ([], [1])]),
    ("compare", [(1, 1), (1, 1.0), (1, True), (0, False), ("a", "a"), ("a", "b"), (None, None), (None, 0), ((1, 2), (1, 2)),
                 (1, "1"), (2, 1), ((), ()), (True, 1.0)]),
    ("chained", [(1, 2, 3), (1, 2, 2), (3, 2, 1), (1, 3, 2), (2, 2, 2)]),
    ("arith", [(7, 2), (-7, 2), (7, -2), (0, 5), (5, 0), (3, 3)]),
    ("arith_div", [(7, 2), (-7, 2), (7, -2), (5, 0)]),
    ("tuples", [((1, 2, 3),), ((1,),), (("a", None, 2, 3),)]),
    ("star_unpack", [((1, 2, 3),), ((1,),)]),
    ("dict_display", [([("a", 1), ("b", 0)],), ([],)]),
    ("literal_match", [(1,), (True,), (1.0,), ("a",), ("c",), (None,), (0,)]),
    ("aug_seq", [([1, 2],), ([],)]),
    ("isinst_tuple", [((1,),), (None,), (3,), ([],), ({},), ("s",)]),
    ("lists", [([1, 2, 3],), ([4],), ([10, 11, 12, 13],)]),
    ("dicts", [([("a", 1), ("b", 0), ("a", 3)],), ([("x", None)],), ([],)]),
    ("ordered", [(["a", "b", "c"],), (["k1", "k2"],)]),
    ("deques", [([1, 2, 3],), ([5, 6],)]),
    ("sets", [([1, 2, 2, 3],), ([],), ([99],)]),
    ("seq_match", [(None,), ([1, 2],), ((1,),), ("ab",), ({"a": 1},), (True,), (3,), (2.5,), (object,), ((),)]),
    ("value_match", [(1,), (True,), ("a",), ("c",), ((1, 2),), ((2, 2, 3, 4),), ((1, 2, 3),), (1.0,), ([5, 6],)]),
    ("loops", [([2, 4, 5, 6], 6), ([2, 4, 5, 6], 99), ([], 0), ([1, 3], 3)]),
    ("while_loop", [(3,), (0,)]),
    ("excs", [("boom",), ("sub",), ("value",), ("none",)]),
    ("closures", [(0,), (3,)]),
    ("call_forms", [()]),
    ("walrus", [([1, 2, 3],), ([1],)]),
    ("classes", [(1,), (True,), ("s",), ((1,),), (None,), (1.5,)]),
    ("identity", [([1, 2],), ((1, 2),), (None,), (5,)]),
    ("ternary_chain", [(-1,), (0,), (4,)]),
    ("nested_unpack", [([("a", (1, 2)), ("b", (3, 4))],), ([],)]),
    ("slices", [((1, 2, 3, 4),), ([1, 2, 3, 4],), ((),), ([7],)]),
    ("objects", [(1, 2), (0, 0), (0, 3)]),
    ("subclasses", [(4,), (0,)]),
    ("attr_errors", [(1,)]),
    ("dict_ops", [(2,), (0,), (9,)]),
    ("lru", [(2, [1, 2, 1, 3, 4, 1]), (1, [1, 1, 2]), (3, [1, 2, 3])]),
    ("finally_flow", [("raise",), ("override",), ("plain",)]),
    ("aug", [([1, 2, 3],), ([],)]),
    ("isinst_union", [((1,),), (None,), (3,), ([],), ({},)]),
    ("raise_from", [("from",), ("plain",)]),
    ("default_twice", [(1,)]),
    ("late_binding", [(3,), (0,)]),
    ("bound_methods", [(1,)]),
    ("class_attrs", [(1,)]),
    ("strings", [("a", "ab"), ("", "x"), ("b", "a"), ("q", "q")]),
    ("membership", [(1, [1, 2]), (None, [None]), (3, ()), ("a", ("b",))]),
    ("gen_shortcircuit", [([0, 2, 3],), ([],), ([0, 1],)]),
    ("zip_enum", [([1, 2, 3], ["a", "b"]), ([], [1])]),
    ("try_return", [("raise",), ("plain",)]),
    ("init_raises", [(1,), (-1,)]),
    ("getattr3", [(4,)]),
    ("eq_dispatch", [(1,), (None,)]),
    ("nested_data", [(1,)]),
    ("del_and_rebind", [([1],)]),
    ("conditional_import_like", [(True,), (False,), (None,), (0,)]),
    ("int_bool_keys", [()]),
    ("tuple_keys", [(1, 2), (1, 1)]),
]

# programs run with unconstrained symbolic arguments; results must be scalars / tuples of scalars
SCALARS = [None, True, False, 0, 1, -3, 7, "", "a", "b", 2.5, 0.0, (), (1,), (0, "a")]
SYMBOLIC = [
    ("truth", [(v,) for v in SCALARS]),
    ("bool_ops", [(a, b) for a in (None, 0, 3, "", "x", True, ()) for b in (0, 5, "x", None, False, (1,))]),
    ("compare", [(a, b) for a in (None, 0, 1, True, "a", 1.0, (1, 2)) for b in (None, 0, 1, False, "a", "b", 2.5, (1, 2))]),
    ("compare", [(a, b) for a in (0, 1, -1) for b in (0, 1, 5)], ("int", "int")),
    ("compare", [(a, b) for a in (0, 1, 1.0, 0.5) for b in (0, 1, 2.5, 1.0)], ("num", "num")),
    ("chained", [(1, 2, 3), (1, 2, 2), (3, 2, 1), (1, 3, 2), (2, 2, 2)], ("int", "int", "int")),
    ("chained", [(1, 2.5, 3), (1.0, 1, 1), (3, 2, 1.5)], ("num", "num", "num")),
    ("arith", [(7, 2), (-7, 2), (0, 5), (3, 3)], ("int", "int")),
    ("ternary_chain", [(-1,), (0,), (4,)], ("int",)),
    ("ternary_chain", [(-1,), (0,), (4,), (2.5,), (-0.5,), (0.0,)], ("num",)),
    ("dict_sym", [(k,) for k in ("a", "b", "c", "zz", "")], ("str",)),
    ("odict_sym", [(k, n) for k in ("a", "b", "q") for n in (1, 2, 3, 0)], ("str", "int")),
    ("match_sym", [(v,) for v in SCALARS]),
    ("match_sym", [(v,) for v in (None, True, 0, 9, "", "x")], ("scalar",)),
    ("excs_sym", [(v,) for v in (None, 0, 1, 2, True, False, "a")], ("scalar",)),
    ("member_const", [(v,) for v in (None, 1, "a", True, 0, "b", False)], ("scalar",)),
    ("classes", [(v,) for v in SCALARS]),
    ("literal_match", [(v,) for v in SCALARS]),
    ("conditional_import_like", [(v,) for v in SCALARS]),
    ("membership", [(x, xs) for x in (None, 1, "a", True) for xs in ((), (1,), (None, "a"), ("b",))]),
    ("isinst_tuple", [(v,) for v in SCALARS]),
    ("tuples", [((1, 2, 3),), ((1,),), (("a", None),)]),
    ("try_scalar", [(v,) for v in (None, 0, 1, -1, "a", True)]),
    ("kw_scalar", [(a, b) for a in (0, 1, None) for b in (None, 2, "k")]),
]


def native(ns, name, args):
    try:
        return ("value", ns[name](*args))
    except BaseException as e:  # noqa
        return ("raise", type(e).__name__)


def main() -> int:
    tmp = tempfile.mkdtemp(prefix="pyvc-selfcheck-")
    os.makedirs(os.path.join(tmp, "src", "haiway"))
    with open(os.path.join(tmp, "src", "haiway", "__init__.py"), "w"):
        pass
    with open(os.path.join(tmp, "src", "haiway", "micro.py"), "w") as fh:
        fh.write(PROGRAMS)
    ns: dict = {}
    exec(compile(PROGRAMS, "micro.py", "exec"), ns)       # the native side
    import z3
    from . import vals as V
    from . import lib
    from .repo import Repo
    from .engine import Engine
    from .state import State, PyRaise, Unsupported, PathEnd
    from .interp import Interp, Env, FuncV, CallArgs

    def enc(it, x):
        if x is None:
            return V.VNone
        if isinstance(x, bool):
            return it.mk_bool(x)
        if isinstance(x, int):
            return V.VInt(z3.IntVal(x))
        if isinstance(x, float):
            return V.VFloat(z3.RealVal(repr(x)))
        if isinstance(x, str):
            return it.mk_str(x)
        if isinstance(x, tuple):
            return V.tup(*[enc(it, e) for e in x])
        if isinstance(x, list):
            return lib.new_list(it, [enc(it, e) for e in x])
        if isinstance(x, dict):
            d = lib.new_dict(it, "dict")
            for k, v in x.items():
                lib.dict_set(it, d, enc(it, k), enc(it, v))
            return d
        if x is object:
            return it.mk_cls("object")
        raise ValueError(f"cannot encode {x!r}")

    def dec(it, v, depth=0):
        st = it.st
        v = st.simp(v)
        k = it.kind(v)
        if k == "none":
            return None
        if k == "bool":
            b = st.simp(V.bval(v))
            if z3.is_true(b) or st.entails(b):
                return True
            if z3.is_false(b) or st.entails(z3.Not(b)):
                return False
            return ("?bool", str(b))
        if k == "int":
            i = st.simp(V.ival(v))
            return i.as_long() if z3.is_int_value(i) else ("?int", str(i))
        if k == "float":
            r = st.simp(V.rval(v))
            return float(r.as_fraction()) if z3.is_rational_value(r) else ("?float", str(r))
        if k == "str":
            sid = st.simp(V.sid(v))
            inv = {i: s for s, i in st.strs.items()}
            return inv.get(sid.as_long(), ("?str", str(sid))) if z3.is_int_value(sid) else ("?str", str(sid))
        if k == "tuple":
            items = lib.tuple_items(it, v)
            return tuple(dec(it, e, depth + 1) for e in items) if items is not None else ("?tuple",)
        if k == "type":
            c = st.simp(V.cid(v))
            return ("class", it.ct.name(c.as_long())) if z3.is_int_value(c) else ("?class",)
        if k == "ref":
            c = st.class_id_of(v)
            cn = it.ct.name(c) if c is not None else None
            if cn in ("list", "deque", "tuple", "set", "frozenset"):
                items = lib.concrete_items(it, v)
                if items is None:
                    return ("?" + cn,)
                out = [dec(it, e, depth + 1) for e in items]
                return out if cn in ("list", "deque") else tuple(out) if cn == "tuple" else ("set", sorted(map(repr, out)))
            if cn in ("dict", "OrderedDict", "mappingproxy"):
                p = lib.dict_parts(it, v)
                lo, hi = st.simp(p["lo"]), st.simp(p["hi"])
                if not (z3.is_int_value(lo) and z3.is_int_value(hi)):
                    return ("?dict",)
                out = {}
                for i in range(lo.as_long(), hi.as_long()):
                    key = st.simp(z3.Select(p["keys"], i))
                    out[dec(it, key, depth + 1)] = dec(it, st.simp(z3.Select(p["val"], key)), depth + 1)
                return out
            return ("object", cn)
        return ("?", str(v)[:60])

    def norm(x):
        """native value in the same shape `dec` produces"""
        if isinstance(x, (set, frozenset)):
            return ("set", sorted(map(repr, (norm(e) for e in x))))
        if isinstance(x, tuple):
            return tuple(norm(e) for e in x)
        if isinstance(x, list):
            return [norm(e) for e in x]
        if isinstance(x, dict):
            return {norm(k): norm(v) for k, v in x.items()}
        if isinstance(x, type):
            return ("class", x.__name__)
        return x

    engine = Engine(Repo(os.path.join(tmp, "src")))
    mod = engine.repo.module("haiway.micro")
    bad, n = [], 0
    for name, arglists in CASES:
        kind, node = mod.symbols[name]
        for args in arglists:
            n += 1
            want = native(ns, name, args)
            want = (want[0], norm(want[1])) if want[0] == "value" else want
            st = State(engine, [])
            engine.state = st
            it = Interp(st)
            try:
                fv = FuncV(node, Env(mod), mod, name)
                ret = it.run_function(fv, CallArgs([enc(it, a) for a in args]))
                got = ("value", dec(it, ret))
            except PyRaise as pr:
                c = st.class_id_of(pr.val)
                got = ("raise", it.ct.name(c) if c is not None else "?")
            except Unsupported as u:
                got = ("unsupported", str(u)[:100])
            except Exception as e:  # noqa
                got = ("crash", f"{type(e).__name__}: {e}"[:160] + " @ " + traceback.format_exc().strip().splitlines()[-3].strip()[:80])
            try:
                st.solver.pop()          # the path solver is shared between paths (push in State.__init__)
            except z3.Z3Exception:
                pass
            if st.new_branches:          # a concrete program has one path: a fork means the engine lost information
                got = ("forked", str(got)[:150], [l for l in st.labels][-3:])
            if got != want:
                # an "unsupported" answer is imprecision (the path would be undecided), anything else is unsound
                bad.append((name, args, want, got))
    # ---------------------------------------------------------------------------------------------------------------
    # symbolic mode: the arguments are unconstrained values, every path of the program is explored (the way a contract is),
    # and for each concrete argument tuple the behaviour CPython shows must be *admitted* by some explored path:
    #     exists path.  path-condition  /\  args == concrete  /\  outcome == CPython's outcome     is satisfiable
    # If no path admits it the engine has lost a behaviour of the real program - a proof over its paths would be unsound.
    sym_runs = sym_admitted = sym_unknown = 0
    sym_lost: list = []
    sym_skipped: list = []
    def sym_arg(st, i, k):
        if k == "int":
            return V.VInt(st.fresh(f"arg{i}", z3.IntSort()))
        if k == "str":
            return V.VStr(st.fresh(f"arg{i}", z3.IntSort()))
        if k == "num":          # an int or a float, kind unknown
            v = st.fresh_val(f"arg{i}")
            st.assume(z3.Or(V.is_int(v), V.is_float(v)))
            return v
        if k == "scalar":       # None / bool / int / str
            v = st.fresh_val(f"arg{i}")
            st.assume(z3.Or(V.is_none(v), V.is_bool(v), V.is_int(v), V.is_str(v)))
            return v
        return st.fresh_val(f"arg{i}")

    for name, arglists, *kinds in SYMBOLIC:
        kind, node = mod.symbols[name]
        arity = len(arglists[0])
        kinds = kinds[0] if kinds else ("any",) * arity
        work: list[list[int]] = [[]]
        paths = []
        complete = True
        while work:
            decv = work.pop()
            st = State(engine, decv)
            engine.state = st
            it = Interp(st)
            args = [sym_arg(st, i, k) for i, k in enumerate(kinds)]
            out = None
            try:
                fv = FuncV(node, Env(mod), mod, name)
                ret = it.run_function(fv, CallArgs(list(args)))
                out = ("value", ret)
            except PyRaise as pr:
                out = ("raise", pr.val)
            except Unsupported as u:
                out = ("unsupported", str(u)[:100])
            except PathEnd:
                out = None
            except Exception as e:  # noqa
                out = ("unsupported", f"crash {type(e).__name__}: {e}"[:120])
            try:
                st.solver.pop()
            except z3.Z3Exception:
                pass
            work.extend(st.new_branches)
            if out is not None:
                paths.append((st, it, args, out))
            if len(paths) > 400:
                complete = False
                break
        for cargs in arglists:
            sym_runs += 1
            want = native(ns, name, cargs)
            verdict = "lost"
            for st, it, args, out in paths:
                sol = z3.Solver()
                sol.set("timeout", 5000)
                for f in engine.background():
                    sol.add(f)
                for f in st.pc:
                    sol.add(f.forall() if hasattr(f, "forall") else f)
                try:
                    for a_, c_ in zip(args, cargs):
                        sol.add(a_ == enc(it, c_))
                    if out[0] == "unsupported":
                        r = sol.check()
                        if r != z3.unsat:
                            verdict = "outside"       # the concrete run goes (or may go) through an unsupported path
                            break
                        continue
                    if out[0] != want[0]:
                        continue
                    if out[0] == "value":
                        sol.add(out[1] == enc(it, want[1]))
                    else:
                        c = st.class_id_of(out[1])
                        if c is None or it.ct.name(c) != want[1]:
                            continue
                except ValueError:
                    verdict = "outside"
                    break
                r = sol.check()
                if r == z3.sat:
                    verdict = "admitted"
                    break
                if r == z3.unknown:
                    verdict = "unknown"
            if not complete and verdict == "lost":
                verdict = "outside"
            if verdict == "admitted":
                sym_admitted += 1
            elif verdict == "unknown":
                sym_unknown += 1
            elif verdict == "outside":
                sym_skipped.append((name, cargs))
            else:
                sym_lost.append((name, cargs, want, len(paths)))
    n_sym = len({n_ for n_, *_ in SYMBOLIC})
    for name, cargs, want, np_ in sym_lost:
        print(f"LOST-BEHAVIOUR {name}{cargs!r}: CPython {want!r} is admitted by none of the {np_} symbolic paths")
    if os.environ.get("SELFCHECK_VERBOSE"):
        for name, cargs in sym_skipped:
            print(f"SYMBOLIC-OUTSIDE {name}{cargs!r}")

    def imprecise(got):
        """the engine kept an uninterpreted term (or forked) where CPython has a definite value: sound, only weaker"""
        return got[0] == "forked" or "'?" in repr(got) or '"?' in repr(got)
    unsupported = [b for b in bad if b[3][0] == "unsupported"]
    weak = [b for b in bad if b[3][0] != "unsupported" and imprecise(b[3])]
    unsound = [b for b in bad if b not in unsupported and b not in weak]
    for name, args, want, got in bad:
        tag = "UNSUPPORTED" if got[0] == "unsupported" else "IMPRECISE" if imprecise(got) else "MISMATCH"
        if tag == "MISMATCH" or os.environ.get("SELFCHECK_VERBOSE"):
            print(f"{tag} {name}{args!r}: CPython {want!r}  engine {got!r}"[:400])
    print(f"selfcheck: {n} runs of {len(CASES)} micro-programs against CPython {sys.version.split()[0]}: "
          f"{n - len(bad)} agree, {len(unsupported)} outside the engine's subset (such paths are undecided in a check), "
          f"{len(weak)} weaker than CPython (uninterpreted term or fork: sound), {len(unsound)} MISMATCHES")
    print(f"selfcheck (symbolic arguments, all paths): {sym_runs} concrete behaviours of {n_sym} programs: "
          f"{sym_admitted} admitted by an explored path, {len(sym_skipped)} through a path outside the engine's subset, "
          f"{sym_unknown} solver-unknown, {len(sym_lost)} LOST")
    return 3 if unsound or sym_lost else 0


if __name__ == "__main__":
    sys.exit(main())
