"""Summaries of comprehensions over sequences of unknown length as quantified facts."""
from __future__ import annotations

import ast

import z3

from . import vals as V
from . import lib
from .vals import Val, I
from .state import Unsupported, PyRaise
from .interp import Env


def _element_term(it, node, gen, env, x):
    """Evaluate the element expression on the symbolic element x without forking."""
    st = it.st
    e2 = Env(env.module, env)
    it.assign(gen.target, x, e2)
    st.no_fork += 1
    try:
        if gen.ifs:
            raise Unsupported("filtered comprehension over a sequence of unknown length")
        try:
            return it.eval(node.elt, e2)
        except PyRaise:
            raise Unsupported("element expression of a summarised comprehension may raise")
    finally:
        st.no_fork -= 1


def summarise(it, consumer: str, node, env, src):
    st = it.st
    gen = node.generators[0]
    sv = lib.seq_view(it, src)
    if sv is None:
        raise Unsupported(f"comprehension over a non-sequence value at line {node.lineno}")
    arr, lo, hi = sv
    x = st.fresh("elem", Val)
    body = _element_term(it, node, gen, env, x)
    i = z3.Int("i!comp")
    if consumer in ("any", "all"):
        t = it.truthy(body)
        ti = z3.substitute(t, (x, z3.Select(arr, i)))
        rng = z3.And(lo <= i, i < hi)
        if consumer == "any":
            return V.VBool(z3.Exists([i], z3.And(rng, ti)))
        return V.VBool(z3.ForAll([i], z3.Implies(rng, ti)))
    bi = z3.substitute(body, (x, z3.Select(arr, lo + i)))
    out = z3.Lambda([i], bi)
    n = st.simp(hi - lo)
    if consumer == "tuple":
        l = st.fresh("comp", V.Lst)
        st.assume(lib.tup_len(l) == n)
        st.assume(lib.tup_arr(l) == out)
        return V.VTup(l)
    if consumer == "list":
        return lib.new_seq_from(it, "list", out, z3.IntVal(0), n)
    raise Unsupported(f"{consumer}(<comprehension>) over a sequence of unknown length")


def summarise_dict(it, node, env):
    c = it.st.contract
    if c is not None and hasattr(c, "dict_comprehension"):
        r = c.dict_comprehension(it, node, env)
        if r is not None:
            return r
    raise Unsupported(f"dict comprehension at line {node.lineno}")
