"""Summaries of comprehensions over sequences of unknown length as quantified facts."""
from __future__ import annotations

import ast

import z3

from . import vals as V
from . import lib
from .vals import Val, I
from .state import Unsupported, PyRaise
from .interp import Env


def _element_term(it, node, gen, env, x):
    """Evaluate the element expression on the symbolic element x without forking."""
    st = it.st
    e2 = Env(env.module, env)
    it.assign(gen.target, x, e2)
    st.no_fork += 1
    try:
        try:
            return it.eval(node.elt, e2)
        except PyRaise:
            raise Unsupported("element expression of a summarised comprehension may raise")
    finally:
        st.no_fork -= 1


def summarise(it, consumer: str, node, env, src):
    st = it.st
    gen = node.generators[0]
    sv = lib.seq_view(it, src)
    if sv is None:
        raise Unsupported(f"comprehension over a non-sequence value at line {node.lineno}")
    arr, lo, hi = sv
    x = st.fresh("elem", Val)
    body = _element_term(it, node, gen, env, x)
    i = z3.Int("i!comp")
    if gen.ifs:
        return _filtered(it, consumer, node, gen, env, x, body, arr, lo, hi)
    if consumer in ("any", "all"):
        t = it.truthy(body)
        ti = z3.substitute(t, (x, z3.Select(arr, i)))
        rng = z3.And(lo <= i, i < hi)
        if consumer == "any":
            return V.VBool(z3.Exists([i], z3.And(rng, ti)))
        return V.VBool(z3.ForAll([i], z3.Implies(rng, ti)))
    bi = z3.substitute(body, (x, z3.Select(arr, lo + i)))
    out = z3.Lambda([i], bi)
    n = st.simp(hi - lo)
    if consumer == "tuple":
        l = st.fresh("comp", V.Lst)
        st.assume(lib.tup_len(l) == n)
        st.assume(lib.tup_arr(l) == out)
        return V.VTup(l)
    if consumer == "list":
        return lib.new_seq_from(it, "list", out, z3.IntVal(0), n)
    raise Unsupported(f"{consumer}(<comprehension>) over a sequence of unknown length")


def summarise_dict(it, node, env):
    """{k(x): v(x) for x in S} over a sequence of unknown length (T-COLL: a later item with an equal
    key replaces the earlier value).  The result is a fresh dict described by a witness function
    last[key] = index of the last item producing that key."""
    from .state import QFact
    st = it.st
    c = st.contract
    if c is not None and hasattr(c, "dict_comprehension"):
        r = c.dict_comprehension(it, node, env)
        if r is not None:
            return r
    gen = node.generators[0]
    if len(node.generators) != 1 or gen.ifs or gen.is_async:
        raise Unsupported(f"dict comprehension shape at line {node.lineno}")
    src = it.eval(gen.iter, env)
    sv = lib.seq_view(it, src)
    if sv is None:
        raise Unsupported(f"dict comprehension over a non-sequence value at line {node.lineno}")
    arr, lo, hi = sv
    x = st.fresh("elem", Val)
    e2 = Env(env.module, env)
    it.assign(gen.target, x, e2)
    st.no_fork += 1
    try:
        kt = it.eval(node.key, e2)
        vt = it.eval(node.value, e2)
    except PyRaise:
        raise Unsupported("key/value expression of a summarised dict comprehension may raise")
    finally:
        st.no_fork -= 1
    K = lambda t: z3.substitute(kt, (x, t))
    Vf = lambda t: z3.substitute(vt, (x, t))
    d = lib.new_dict(it, "dict")
    has = st.fresh("dc_has", V.ArrVB)
    val = st.fresh("dc_val", V.ArrVV)
    last = st.fresh("dc_last", V.ArrVI)
    for f, v in (("$dhas", has), ("$dval", val)):
        st.put(d, f, v)
    # insertion order is not needed by the callers of the verified code beyond well-formedness
    keys = st.fresh("dc_keys", V.ArrIV)
    pos = st.fresh("dc_pos", V.ArrVI)
    n = st.fresh("dc_n", I)
    st.put(d, "$arr", keys)
    st.put(d, "$dpos", pos)
    st.put(d, "$lo", z3.IntVal(0))
    st.put(d, "$hi", n)
    st.assume(z3.And(n >= 0, n <= hi - lo))
    k = z3.Const("k!dc", Val)
    st.assume(QFact(lambda k: z3.Implies(z3.Select(has, k),
                                         z3.And(lo <= z3.Select(last, k), z3.Select(last, k) < hi,
                                                K(z3.Select(arr, z3.Select(last, k))) == k,
                                                z3.Select(val, k) == Vf(z3.Select(arr, z3.Select(last, k))),
                                                0 <= z3.Select(pos, k), z3.Select(pos, k) < n,
                                                z3.Select(keys, z3.Select(pos, k)) == k)),
                    sort=Val, pattern=lambda k: z3.Select(has, k), name="dc1"))
    st.assume(QFact(lambda i: z3.Implies(z3.And(lo <= i, i < hi),
                                         z3.And(z3.Select(has, K(z3.Select(arr, i))),
                                                i <= z3.Select(last, K(z3.Select(arr, i))))),
                    pattern=lambda i: z3.Select(arr, i), name="dc2"))
    st.assume(QFact(lambda i: z3.Implies(z3.And(0 <= i, i < n),
                                         z3.And(z3.Select(has, z3.Select(keys, i)), z3.Select(pos, z3.Select(keys, i)) == i)),
                    pattern=lambda i: z3.Select(keys, i), name="dc3"))
    st.ghost.setdefault("$dictcomps", []).append(dict(result=d, has=has, val=val, last=last, src=(arr, lo, hi), K=K, V=Vf))
    return d


def _filtered(it, consumer, node, gen, env, x, body, arr, lo, hi):
    """[e(x) for x in S if p(x)] over a sequence of unknown length: a fresh list F together with
    witness functions idx (position in S of the k-th kept element, strictly increasing) and inv
    (rank of a kept position) - an exact first-order description of filtering."""
    st = it.st
    if consumer != "list":
        raise Unsupported(f"filtered {consumer}(...) comprehension over a sequence of unknown length")
    e2 = Env(env.module, env)
    it.assign(gen.target, x, e2)
    st.no_fork += 1
    try:
        conds = [it.truthy(it.eval(c, e2)) for c in gen.ifs]
    finally:
        st.no_fork -= 1
    p = z3.And(conds) if len(conds) > 1 else conds[0]
    P = lambda t: z3.substitute(p, (x, t))
    E = lambda t: z3.substitute(body, (x, t))
    F = st.fresh("filt", V.ArrIV)
    n = st.fresh("filt_n", I)
    idx = st.fresh("filt_idx", V.ArrII)
    inv = st.fresh("filt_inv", V.ArrII)
    k, k2, i = z3.Ints("k!f k2!f i!f")
    st.assume(z3.And(n >= 0, n <= hi - lo))
    from .state import QFact
    st.assume(QFact(lambda k: z3.Implies(z3.And(0 <= k, k < n),
                                         z3.And(lo <= z3.Select(idx, k), z3.Select(idx, k) < hi,
                                                P(z3.Select(arr, z3.Select(idx, k))),
                                                z3.Select(F, k) == E(z3.Select(arr, z3.Select(idx, k))),
                                                z3.Select(inv, z3.Select(idx, k)) == k)),
                    pattern=lambda k: z3.Select(idx, k), name="flt"))
    st.instantiate_at(z3.IntVal(0))
    st.instantiate_at(z3.IntVal(1))
    st.assume(z3.ForAll([k, k2], z3.Implies(z3.And(0 <= k, k < k2, k2 < n), z3.Select(idx, k) < z3.Select(idx, k2)),
                        patterns=[z3.MultiPattern(z3.Select(idx, k), z3.Select(idx, k2))]))
    st.assume(QFact(lambda i: z3.Implies(z3.And(lo <= i, i < hi, P(z3.Select(arr, i))),
                                         z3.And(0 <= z3.Select(inv, i), z3.Select(inv, i) < n,
                                                z3.Select(idx, z3.Select(inv, i)) == i)),
                    pattern=lambda i: z3.Select(inv, i), name="fltinv"))
    out = lib.new_seq_from(it, "list", F, z3.IntVal(0), n)
    st.ghost.setdefault("$filters", []).append(dict(result=out, F=F, n=n, idx=idx, inv=inv, src=(arr, lo, hi), pred=P))
    return out
