"""Summaries of comprehensions over sequences of unknown length as quantified facts."""
from __future__ import annotations

import ast

import z3

from . import vals as V
from . import lib
from .vals import Val, I
from .state import Unsupported, PyRaise
from .interp import Env


unpackable = z3.Function("unpackable", Val, I, z3.BoolSort())      # value can be unpacked into n targets
unpack_item = z3.Function("unpack_item", Val, I, Val)
unpack_exc = z3.Function("unpack_exc", Val, Val)


class ElemSummary:
    """The element expression(s) of a comprehension as terms over one symbolic element, together
    with the partiality log: calls of pure oracles (validators) made while computing them."""

    def __init__(self, it, gen, env, arr, lo, hi):
        self.it, self.gen, self.env = it, gen, env
        self.arr, self.lo, self.hi = arr, lo, hi
        st = it.st
        pairs = lib.pairs_lookup(it, arr)
        self.e2 = Env(env.module, env)
        self.log = []
        if pairs is not None and isinstance(gen.target, (ast.Tuple, ast.List)) and len(gen.target.elts) == 2:
            a, b = st.fresh("elem_a", Val), st.fresh("elem_b", Val)
            it.assign(gen.target.elts[0], a, self.e2)
            it.assign(gen.target.elts[1], b, self.e2)
            A, Bf, first_is_int = pairs
            if first_is_int:
                st.assume(V.is_int(a))
            self.subst = lambda term, idx: z3.substitute(term, (a, A(idx)), (b, Bf(idx)))
        else:
            x = st.fresh("elem", Val)
            if isinstance(gen.target, (ast.Tuple, ast.List)):
                n = len(gen.target.elts)
                # unpacking an element of unknown shape: defined only for n-item iterables
                self.log.append((unpackable(x, n), unpack_exc(x)))
                for k, t in enumerate(gen.target.elts):
                    it.assign(t, unpack_item(x, k), self.e2)
            else:
                it.assign(gen.target, x, self.e2)
            self.subst = lambda term, idx: z3.substitute(term, (x, z3.Select(arr, idx)))

    def eval(self, *nodes):
        it, st = self.it, self.it.st
        st.no_fork += 1
        prev = st.ghost.get("$pure_log")
        st.ghost["$pure_log"] = self.log
        try:
            try:
                return [it.eval(n, self.e2) for n in nodes]
            except PyRaise:
                raise Unsupported("element expression of a summarised comprehension raises unconditionally")
        finally:
            st.ghost["$pure_log"] = prev
            st.no_fork -= 1

    def defined(self, idx):
        return z3.And([self.subst(ok, idx) for ok, _ in self.log]) if self.log else z3.BoolVal(True)

    def failure(self, idx):
        """Exception raised by the element at idx (the first failing partial step)."""
        out = None
        for ok, exc in reversed(self.log):
            e = self.subst(exc, idx)
            out = e if out is None else z3.If(z3.Not(self.subst(ok, idx)), e, out)
        return out

    def split(self, tag: str):
        """Fork: every element is accepted / some element is the first rejected one (raises)."""
        from .state import QFact
        it, st = self.it, self.it.st
        if not self.log:
            return
        lo, hi = self.lo, self.hi
        i = z3.Int("i!el")
        allok = z3.ForAll([i], z3.Implies(z3.And(lo <= i, i < hi), self.defined(i)))
        if st.fork(tag, [("every-element-accepted", allok), ("an-element-rejected", z3.Not(allok))]) == 0:
            st.assume(QFact(lambda k: z3.Implies(z3.And(lo <= k, k < hi), self.defined(k)), name="elok"))
            return
        j = st.fresh("first_rejected", I)
        st.assume(z3.And(lo <= j, j < hi, z3.Not(self.defined(j))))
        st.assume(QFact(lambda k: z3.Implies(z3.And(lo <= k, k < j), self.defined(k)), name="elok"))
        st.ghost["$first_rejected"] = j
        raise PyRaise(self.failure(j), "an element was rejected")


def summarise(it, consumer: str, node, env, src):
    st = it.st
    gen = node.generators[0]
    sv = lib.seq_view(it, src)
    if sv is None:
        raise Unsupported(f"comprehension over a non-sequence value at line {node.lineno}")
    arr, lo, hi = sv
    if gen.ifs:
        x = st.fresh("elem", Val)
        e2 = Env(env.module, env)
        it.assign(gen.target, x, e2)
        st.no_fork += 1
        try:
            body = it.eval(node.elt, e2)
        finally:
            st.no_fork -= 1
        return _filtered(it, consumer, node, gen, env, x, body, arr, lo, hi)
    es = ElemSummary(it, gen, env, arr, lo, hi)
    (body,) = es.eval(node.elt)
    i = z3.Int("i!comp")
    if consumer in ("any", "all"):
        if es.log:
            raise Unsupported("any/all over a partial element expression")
        t = it.truthy(body)
        ti = es.subst(t, i)
        rng = z3.And(lo <= i, i < hi)
        if consumer == "any":
            return V.VBool(z3.Exists([i], z3.And(rng, ti)))
        return V.VBool(z3.ForAll([i], z3.Implies(rng, ti)))
    es.split(f"comprehension@{it.pos(node)}")
    out = z3.Lambda([i], es.subst(body, lo + i))
    n = st.simp(hi - lo)
    st.ghost.setdefault("$comps", []).append(dict(consumer=consumer, src=(arr, lo, hi),
                                                  body=lambda idx: es.subst(body, idx), out=out, n=n, es=es))
    if consumer in ("tuple", "list", "frozenset", "set"):
        return lib.new_seq_from(it, consumer, out, z3.IntVal(0), n)
    raise Unsupported(f"{consumer}(<comprehension>) over a sequence of unknown length")


def summarise_dict(it, node, env):
    """{k(x): v(x) for x in S} over a sequence of unknown length (T-COLL: a later item with an equal
    key replaces the earlier value).  The result is a fresh dict described by a witness function
    last[key] = index of the last item producing that key."""
    from .state import QFact
    st = it.st
    c = st.contract
    if c is not None and hasattr(c, "dict_comprehension"):
        r = c.dict_comprehension(it, node, env)
        if r is not None:
            return r
    gen = node.generators[0]
    if len(node.generators) != 1 or gen.is_async:
        raise Unsupported(f"dict comprehension shape at line {node.lineno}")
    src = it.eval(gen.iter, env)
    sv = lib.seq_view(it, src)
    if sv is None:
        raise Unsupported(f"dict comprehension over a non-sequence value at line {node.lineno}")
    arr, lo, hi = sv
    es = ElemSummary(it, gen, env, arr, lo, hi)
    kt, vt, *cts = es.eval(node.key, node.value, *gen.ifs)
    if gen.ifs and es.log:
        raise Unsupported(f"filtered dict comprehension with a partial element expression at line {node.lineno}")
    es.split(f"dict-comprehension@{it.pos(node)}")
    K = lambda idx: es.subst(kt, idx)
    Vf = lambda idx: es.subst(vt, idx)
    if cts:            # {k: v for x in S if p(x)}: only the items with p contribute
        st.no_fork += 1
        try:
            pt = z3.And([it.truthy(c) for c in cts])
        finally:
            st.no_fork -= 1
        P = lambda idx: es.subst(pt, idx)
    else:
        P = lambda idx: z3.BoolVal(True)
    d = lib.new_dict(it, "dict")
    has = st.fresh("dc_has", V.ArrVB)
    val = st.fresh("dc_val", V.ArrVV)
    last = st.fresh("dc_last", V.ArrVI)
    for f, v in (("$dhas", has), ("$dval", val)):
        st.put(d, f, v)
    keys = st.fresh("dc_keys", V.ArrIV)
    pos = st.fresh("dc_pos", V.ArrVI)
    n = st.fresh("dc_n", I)
    st.put(d, "$arr", keys)
    st.put(d, "$dpos", pos)
    st.put(d, "$lo", z3.IntVal(0))
    st.put(d, "$hi", n)
    st.assume(z3.And(n >= 0, n <= hi - lo))
    st.assume(QFact(lambda k: z3.Implies(z3.Select(has, k),
                                         z3.And(lo <= z3.Select(last, k), z3.Select(last, k) < hi,
                                                K(z3.Select(last, k)) == k, P(z3.Select(last, k)),
                                                z3.Select(val, k) == Vf(z3.Select(last, k)),
                                                0 <= z3.Select(pos, k), z3.Select(pos, k) < n,
                                                z3.Select(keys, z3.Select(pos, k)) == k)),
                    sort=Val, pattern=lambda k: z3.Select(has, k), name="dc1"))
    st.assume(QFact(lambda i: z3.Implies(z3.And(lo <= i, i < hi, P(i)),
                                         z3.And(z3.Select(has, K(i)), i <= z3.Select(last, K(i)))),
                    name="dc2"))
    st.assume(QFact(lambda i: z3.Implies(z3.And(0 <= i, i < n),
                                         z3.And(z3.Select(has, z3.Select(keys, i)), z3.Select(pos, z3.Select(keys, i)) == i)),
                    pattern=lambda i: z3.Select(keys, i), name="dc3"))
    elem = lambda t: z3.Select(arr, t)
    st.ghost.setdefault("$dictcomps", []).append(dict(
        result=d, has=has, val=val, last=last, src=(arr, lo, hi), Ki=K, Vi=Vf, es=es,
        # key / value as functions of an element *value* (only meaningful for plain, non-unpacking targets)
        K=(lambda t: z3.substitute(kt, *[(c, t) for c in _consts_named(kt, "elem!")])),
        V=(lambda t: z3.substitute(vt, *[(c, t) for c in _consts_named(vt, "elem!")]))))
    return d


def _consts_named(term, prefix):
    out, seen, todo = [], set(), [term]
    while todo:
        t = todo.pop()
        if t.get_id() in seen:
            continue
        seen.add(t.get_id())
        if z3.is_const(t) and t.decl().kind() == z3.Z3_OP_UNINTERPRETED and t.decl().name().startswith(prefix):
            out.append(t)
        todo.extend(t.children())
    return out or []


def _filtered(it, consumer, node, gen, env, x, body, arr, lo, hi):
    """[e(x) for x in S if p(x)] over a sequence of unknown length: a fresh list F together with
    witness functions idx (position in S of the k-th kept element, strictly increasing) and inv
    (rank of a kept position) - an exact first-order description of filtering."""
    st = it.st
    if consumer != "list":
        raise Unsupported(f"filtered {consumer}(...) comprehension over a sequence of unknown length")
    e2 = Env(env.module, env)
    it.assign(gen.target, x, e2)
    st.no_fork += 1
    try:
        conds = [it.truthy(it.eval(c, e2)) for c in gen.ifs]
    finally:
        st.no_fork -= 1
    p = z3.And(conds) if len(conds) > 1 else conds[0]
    P = lambda t: z3.substitute(p, (x, t))
    E = lambda t: z3.substitute(body, (x, t))
    F = st.fresh("filt", V.ArrIV)
    n = st.fresh("filt_n", I)
    idx = st.fresh("filt_idx", V.ArrII)
    inv = st.fresh("filt_inv", V.ArrII)
    k, k2, i = z3.Ints("k!f k2!f i!f")
    st.assume(z3.And(n >= 0, n <= hi - lo))
    from .state import QFact
    st.assume(QFact(lambda k: z3.Implies(z3.And(0 <= k, k < n),
                                         z3.And(lo <= z3.Select(idx, k), z3.Select(idx, k) < hi,
                                                P(z3.Select(arr, z3.Select(idx, k))),
                                                z3.Select(F, k) == E(z3.Select(arr, z3.Select(idx, k))),
                                                z3.Select(inv, z3.Select(idx, k)) == k)),
                    pattern=lambda k: z3.Select(idx, k), name="flt"))
    st.instantiate_at(z3.IntVal(0))
    st.instantiate_at(z3.IntVal(1))
    st.assume(z3.ForAll([k, k2], z3.Implies(z3.And(0 <= k, k < k2, k2 < n), z3.Select(idx, k) < z3.Select(idx, k2)),
                        patterns=[z3.MultiPattern(z3.Select(idx, k), z3.Select(idx, k2))]))
    st.assume(QFact(lambda i: z3.Implies(z3.And(lo <= i, i < hi, P(z3.Select(arr, i))),
                                         z3.And(0 <= z3.Select(inv, i), z3.Select(inv, i) < n,
                                                z3.Select(idx, z3.Select(inv, i)) == i)),
                    pattern=lambda i: z3.Select(inv, i), name="fltinv"))
    out = lib.new_seq_from(it, "list", F, z3.IntVal(0), n)
    st.ghost.setdefault("$filters", []).append(dict(result=out, F=F, n=n, idx=idx, inv=inv, src=(arr, lo, hi), pred=P))
    return out
