#!/bin/sh
# Build the offline overlay venv used by the checker (python 3.12 + z3-solver + jsonschema).
set -e
cd "$(dirname "$0")"
if [ -x .venv/bin/python ] && .venv/bin/python -c 'import z3, jsonschema' 2>/dev/null; then
    exit 0
fi
rm -rf .venv
/venv/bin/python -m venv .venv
PIP_NO_INDEX=1 .venv/bin/pip install -q --no-index --find-links /opt/veriftools/wheels z3-solver jsonschema >/dev/null
.venv/bin/python -c 'import z3, jsonschema; print("pyvc venv ok, z3", z3.get_version_string())'
