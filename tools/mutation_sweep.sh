#!/bin/sh
# tools/mutation_sweep.sh <mutdir> [lanes] : for every one-token mutant written by tools/mutate.py: does the test suite still pass?
# if so, do the checks of the properties anchored in the mutated file report it?  Works on scratch copies (normalised with
# ast.unparse, which is what the mutant patches are relative to); /repo is never touched.  Output: <mutdir>/results.txt
mut=$1; lanes=${2:-5}
cd /verif
scratch=${VERIF_SCRATCH:-/var/tmp/haiway-mutsweep.$$}
mkdir -p $scratch
/venv/bin/python - "$mut" > $scratch/ids.txt <<'PY'
import json,sys
for m in json.load(open(sys.argv[1]+"/index.json")): print(m["id"], m["file"])
PY
lane() {
  k=$1; copy=$scratch/lane$k
  mkdir -p $copy
  git -C /repo archive HEAD | tar -x -C $copy
  /venv/bin/python - "$copy" <<'PY'
import ast,sys,os
root=sys.argv[1]
for rel in ["context/access.py","context/state.py","context/tasks.py","context/disposables.py","context/metrics.py","helpers/caching.py","helpers/retries.py","helpers/throttling.py","helpers/timeouted.py","helpers/asynchrony.py","helpers/tracing.py","utils/queue.py","utils/mimic.py","types/missing.py","state/structure.py","state/validation.py"]:
    p=os.path.join(root,"src/haiway",rel)
    src=open(p).read()
    open(p,"w").write(ast.unparse(ast.parse(src)))
PY
  (cd $copy && git init -q && git add -A && git -c user.email=a@b -c user.name=x commit -qm base)
  i=0
  while read id file; do
    i=$((i+1)); [ $((i % lanes)) -eq $((k % lanes)) ] || continue
    if [ -f $mut/$id.py ]; then cp $mut/$id.py $copy/src/haiway/$file          # whole mutated file (tools/mutate2.py)
    elif ! git -C $copy apply $mut/$id.diff 2>/dev/null; then echo "$id $file APPLY-FAILED"; continue; fi
    if ! (cd $copy && PYTHONPATH=$copy/src timeout 120 /venv/bin/python -m pytest -q -x -p no:cacheprovider >/dev/null 2>&1); then
      echo "$id $file killed-by-tests"; git -C $copy checkout -q -- .; continue
    fi
    case $file in
      *retries*) props="C14";; *caching*) props="C12 C13";; *throttling*) props="C15";; *timeouted*) props="C16";;
      *queue*) props="C17";; *access*) props="C02 C06 C07 C08 C11 C01 C19 C09 C10";; *tasks*) props="C02 C06 C07 C03 C08";;
      *disposables*) props="C08 C02 C07";; *context/state*) props="C01 C03 C02";; *metrics*) props="C09 C10 C19";;
      *validation*) props="C05 C04";; *structure*) props="C04 C05 C20";; *missing*) props="C20";;
      *asynchrony*|*tracing*) props="C18";; *mimic*) props="C18 C15";;
    esac
    res=""
    for p in $props; do
      VERIF_REPO=$copy ./check $p quick > $scratch/out$k.txt 2>&1; rc=$?
      res="$res $p=$rc"
      [ $rc -eq 1 ] && break          # reported: enough
    done
    echo "$id $file survived-tests:$res"
    git -C $copy checkout -q -- . ; git -C $copy clean -qfd -e .verif-evidence
  done < $scratch/ids.txt
}
k=0
while [ $k -lt $lanes ]; do lane $k > $scratch/lane$k.log 2>&1 & k=$((k+1)); done
wait
cat $scratch/lane*.log | sort > $mut/results.txt
echo "mutants: $(wc -l < $mut/results.txt); killed by the tests: $(grep -c killed-by-tests $mut/results.txt); survived the tests: $(grep -c survived-tests $mut/results.txt); of those reported by a check (=1): $(grep survived-tests $mut/results.txt | grep -c '=1'); not reported: $(grep survived-tests $mut/results.txt | grep -vc '=1')"
rm -rf $scratch
