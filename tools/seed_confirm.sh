#!/bin/sh
# tools/seed_confirm.sh <PROP> <outdir> <seedname> : confirm a seeded change in a scratch worktree (tests pass with it, the
# demonstration fails with it and passes without) and store it under /verif/seeded/<seedname>/ - without running any check
# (tools/selftest_parallel.sh with SELFTEST_SEEDS does that on scratch copies, /repo stays untouched).
prop=$1; out=$2; name=$3
dst=/verif/seeded/$name
mkdir -p $dst
cp $out/patch.diff $dst/patch.diff; cp $out/demo.py $dst/demo.py
[ -f $out/meta.json ] && cp $out/meta.json $dst/agent_meta.json
sv=/tmp/sv_$name
git -C /repo worktree add -f $sv HEAD -q
cd $sv
clean=$(PYTHONPATH=$sv/src timeout 120 /venv/bin/python $dst/demo.py >/dev/null 2>&1; echo $?)
git apply $dst/patch.diff || echo "PATCH DOES NOT APPLY"
tests=$(PYTHONPATH=$sv/src timeout 300 /venv/bin/python -m pytest -q -p no:cacheprovider 2>&1 | tail -1)
patched=$(PYTHONPATH=$sv/src timeout 120 /venv/bin/python $dst/demo.py >/dev/null 2>&1; echo $?)
cd /verif
git -C /repo worktree remove --force $sv
echo "$name clean-demo-exit=$clean patched-demo-exit=$patched tests=[$tests]"
/venv/bin/python - "$dst" "$prop" "$clean" "$patched" "$tests" <<'PY'
import json, sys, os
dst, prop, clean, patched, tests = sys.argv[1:6]
agent = {}
if os.path.exists(dst + "/agent_meta.json"):
    try: agent = json.load(open(dst + "/agent_meta.json"))
    except Exception: agent = {}
meta = dict(property=prop, summary=agent.get("summary"), needs=agent.get("needs"), clause=agent.get("clause"),
            confirmed=dict(demo_exit_on_unchanged_tree=int(clean), demo_exit_with_patch=int(patched), test_suite_with_patch=tests),
            ran=["git worktree add <scratch> HEAD; demo.py (unchanged) ; git apply patch.diff; pytest; demo.py (patched)",
                 "tools/selftest_parallel.sh on a scratch copy (VERIF_REPO): ./check <prop> quick"])
json.dump(meta, open(dst + "/meta.json", "w"), indent=1)
PY
