#!/bin/sh
# tools/selftest_parallel.sh [lanes] : the same verdicts as tools/selftest.sh, computed on scratch copies of /repo (one per lane,
# outside /repo and /verif, removed afterwards) through VERIF_REPO=<copy>, so that /repo is never touched and lanes do not collide.
# Every seeded change must make the check of its property exit 1; every benign refactor must leave the touched properties at 0.
lanes=${1:-4}
cd /verif
scratch=${VERIF_SCRATCH:-/var/tmp/haiway-selftest.$$}
mkdir -p $scratch
# SELFTEST_SEEDS / SELFTEST_BENIGN: optional egrep patterns restricting the two lists (e.g. SELFTEST_SEEDS='C05-' SELFTEST_BENIGN='A1[234]-')
ls -d seeded/C*/ | grep -E "${SELFTEST_SEEDS:-.}" > $scratch/seeds.txt
ls selftest/benign/*.patch selftest/benign/*.diff 2>/dev/null | grep -E "${SELFTEST_BENIGN:-.}" > $scratch/benign.txt
lane() {
  k=$1
  copy=$scratch/lane$k
  mkdir -p $copy
  git -C /repo archive HEAD | tar -x -C $copy
  (cd $copy && git init -q && git add -A && git -c user.email=a@b -c user.name=x commit -qm base)
  i=0
  while read d; do
    i=$((i+1)); [ $((i % lanes)) -eq $((k % lanes)) ] || continue
    id=$(basename $d); prop=${id%%-*}
    if ! git -C $copy apply /verif/$d/patch.diff 2>/dev/null; then echo "SEED $id: patch does not apply"; continue; fi
    VERIF_REPO=$copy ./check $prop quick > $scratch/out$k.txt 2>&1; rc=$?
    git -C $copy checkout -q -- . ; git -C $copy clean -qfd -e .verif-evidence
    if [ $rc -eq 1 ]; then echo "SEED $id: caught ($(grep -c '^VIOLATION' $scratch/out$k.txt) violation lines)"; else echo "SEED $id: NOT caught (exit $rc)  <--"; fi
  done < $scratch/seeds.txt
  i=0
  while read b; do
    i=$((i+1)); [ $((i % lanes)) -eq $((k % lanes)) ] || continue
    if ! git -C $copy apply /verif/$b 2>/dev/null; then echo "BENIGN $(basename $b): patch does not apply"; continue; fi
    files=$(git -C $copy diff --name-only)
    props=""
    for f in $files; do
      case $f in
        *retries*) props="$props C14";; *caching*) props="$props C12 C13";; *throttling*) props="$props C15";; *timeouted*) props="$props C16";;
        *queue*) props="$props C17";; *access*) props="$props C02 C06 C07 C08 C11 C01 C09 C10 C19";; *tasks*) props="$props C02 C06 C07 C03 C08 C11";;
        *disposables*) props="$props C08 C02 C01 C07 C06";; *context/state*) props="$props C01 C03 C02";; *metrics*) props="$props C09 C10 C19 C11";;
        *validation*) props="$props C05 C04 C20";; *state/attributes*) props="$props C05";; *structure*) props="$props C04 C05 C20";; *missing*) props="$props C20";;
        *asynchrony*|*tracing*) props="$props C18";; *mimic*) props="$props C18 C12 C15 C16";; *immutable*) props="$props C09";;
      esac
    done
    for p in $(echo $props | tr ' ' '\n' | sort -u); do
      VERIF_REPO=$copy ./check $p quick > $scratch/out$k.txt 2>&1; rc=$?
      if [ $rc -eq 0 ]; then echo "BENIGN $(basename $b) / $p: green"; else echo "BENIGN $(basename $b) [$files] / $p: exit $rc  <--"; grep -E "^VIOLATION|^UNDECIDED|^CHECKER" $scratch/out$k.txt | head -3 | cut -c1-260; fi
    done
    git -C $copy checkout -q -- . ; git -C $copy clean -qfd -e .verif-evidence
  done < $scratch/benign.txt
}
k=0
while [ $k -lt $lanes ]; do
  lane $k > $scratch/lane$k.log 2>&1 &
  k=$((k+1))
done
wait
cat $scratch/lane*.log
echo "--- summary: $(cat $scratch/lane*.log | grep -c 'caught (') seeds caught, $(cat $scratch/lane*.log | grep -c 'NOT caught') not caught, $(cat $scratch/lane*.log | grep -c ': green') benign runs green, $(cat $scratch/lane*.log | grep -c 'exit [0-9]  <--') benign runs not green, $(cat $scratch/lane*.log | grep -c 'does not apply') patches not applying"
rm -rf $scratch
