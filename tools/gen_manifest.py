#!/usr/bin/env python3
"""Regenerates MANIFEST.json from the table below (kept valid at every commit)."""
import json
import os

ROOT = os.path.dirname(os.path.dirname(os.path.abspath(__file__)))
TECH = "contract-based deductive verification: sidecar pre/postconditions + invariants on the real functions, VCs generated from the Python AST by pyvc, discharged by SMT (z3 5.1; cvc5/z3 4.8 fallback)"

CLAIMED = {
 "C14": dict(
  text="Unbounded deductive proof: the two retry loops of helpers/retries.py are symbolically executed from the real source under a loop invariant; the outcome of the k-th call of the wrapped function is an uninterpreted function of k, so one proof covers every outcome sequence, every limit >= 1, every caught set and every delay shape. All path/clause obligations are discharged by z3.",
  note="Trusted: S1/S2 mathematical numbers, T-SLEEP, PEP 634 class-pattern semantics as encoded, ctx.log_error never raises (callee contract, C19), delay functions are total and pure, no external cancellation during the pause.",
  ref="DESIGN.md 4 (C14), Appendix B.1"),
 "C15": dict(
  text="Unbounded deductive proof of the rate bound as an object invariant of _AsyncThrottle (starts sorted, entries = latest starts, dropped starts are a period old, starts[i+limit] >= starts[i]+period) preserved by the critical section of __call__ for every limit >= 1, every period > 0 (seconds or timedelta) and every reachable history; lemma L-WIN turns the bound into the window statement; frame audit shows _entries is only touched under the lock. Outcome forwarding proved on every exit path.",
  note="Trusted: S1/S7 real-valued monotonic clock, S4 atomic segments, T-LOCK (mutual exclusion, FIFO), T-SLEEP, exact virtual time (no time passes between suspension points). Liveness ('eventually runs') and arrival order are T-LOCK/T-SLEEP consequences, assumed.",
  ref="DESIGN.md 4 (C15)"),
 "C17": dict(
  text="Unbounded deductive proof of the queue invariant ENQ = DEL ++ inflight(waiter) ++ buffer over every atomic segment of __init__/enqueue/finish/cancel/__anext__ (incl. every resumption case of the await: value, finish reason, consumer cancelled while pending, consumer cancelled after the element was handed over); producer interference at the await is a havoc up to the invariant (rely) and every producer operation is proved to guarantee that rely. Exactly-once in-order delivery, finish-reason and enqueue-after-finish clauses are postconditions.",
  note="Trusted: S4 (single event loop, atomic segments), T-FUT future state machine incl. late cancellation, T-COLL deque; single consumer (the source's own assert) is the precondition.",
  ref="DESIGN.md 4 (C17), Appendix B.3"),
 "C16": dict(
  text="Deductive proof on the real __call__ and its three closures: the wiring (task runs the function with the caller's arguments, timer armed with the configured timeout, completion/result callbacks registered, caller awaits the result future) is checked at the first suspension; every loop event (task done with any outcome, timer fires, result future done) is simulated from an arbitrary state satisfying the invariant by executing the real closure, proving: no callback raises, a completed task always completes the result future with its own value / exception object / cancellation, the timer only fails a pending future with TimeoutError, the function task is cancelled once the future is done, and the invariant 'future pending => timer armed and completion not yet run' is preserved. The caller is resumed in every way T-FUT allows.",
  note="Trusted: T-FUT, T-TIMER, S4. Termination ('always terminates', 'at the deadline') is a paper step from the proved invariant + T-TIMER/T-FUT; 'leaves nothing running' additionally assumes the function reacts to cancellation.",
  ref="DESIGN.md 4 (C16)"),
 "C12": dict(
  text="Unbounded deductive proof over the four real cache bodies (sync/async x function/method; receivers built by executing the real __init__): object invariant (OrderedDict well formed, at most `limit` entries, every entry is a value produced for its key with expiry = insertion time + expiration) preserved on every path; postconditions: only values produced for the call's key are returned, never from an entry older than its expiration, the function is invoked iff the key is absent or expired, hit/miss LRU steps (move to end; only the least-recently-used key is evicted and only on overflow). Key adequacy is a relational obligation on the real key expression: equal keys iff T-KEY-equal typed arguments and, for methods, only for the same receiver object.",
  note="Trusted: T-KEY (functools._make_key typed=True), T-WREF, T-ID, T-COLL OrderedDict model, S1/S7 clock, S4. LRU completeness over whole histories is proved in step form; the closed form is exercised natively by the bounded replay harness only. Sync: wrapped function does not re-enter the cache.",
  ref="DESIGN.md 4 (C12), Appendix B.2"),
 "C13": dict(
  text="Deductive proof of the call shapes of the two real async cache bodies on every path: on a miss exactly one loop.create_task(function(...)) is started and stored under the key before the first suspension (atomic segment), every caller awaits shield(<the cached task>) (the entry's task on a hit, the new task on a miss) and returns/raises that task's outcome, a cancelled waiter raises CancelledError, and no path calls cancel() on a cached task (expiry/eviction only drop the entry). Interference at the await is a havoc of the cache up to its invariant.",
  note="Trusted: T-SHIELD, T-FUT, S4: the schedule quantifier of the statement is carried by these (assumed); what is proved is that the real code has the shapes from which the statement follows under them.",
  ref="DESIGN.md 4 (C13)"),
 "C20": dict(
  text="Deductive proof, function by function, on types/missing.py and the Missing validator: the metaclass call returns the cached instance and never creates a second one (two-path VC under the invariant `_instance in {None, singleton}`), __eq__ is identity with MISSING for every value, __bool__ is False, the three attribute hooks raise AttributeError on every path, is_missing/not_missing/when_missing and the validator decide by identity for every value; reconstruction (copy, deepcopy, pickle 0-5) is decided by walking CPython's copy/pickle dispatch over the hooks the class defines in the current tree and executing those hooks symbolically.",
  note="Trusted: T-COPY (transcription of CPython 3.12 copy.py/pickle.py/copyreg.py dispatch; validated natively by the replay harness on every violation), S8 dunder lookup on the type, type.__call__ creates a new instance. Containers/states holding MISSING rely on T-COPY mapping deepcopy/pickle over elements.",
  ref="DESIGN.md 4 (C20)"),
 "C02": dict(
  text="Deductive proof by symbolic execution of the real ScopeContext.__aenter__ + abstracted body + __aexit__ (and the sync pair, `with ctx.updated`, TaskGroupContext enter/exit) with the three context variables holding arbitrary bindings: on every path - each callee failing as its contract allows, a CancelledError arriving while the task group waits or while disposables enter/exit - the three variables are restored to their values before the block, a failed enter leaves nothing entered, and exit returns a falsy value (so the body's exception object propagates unchanged) unless a cleanup step itself raised.",
  note="Trusted: T-CV (contextvars set/reset/token semantics, task-local), T-TG outcome classes of TaskGroup.__aexit__, S4, S8. Callee contracts: Disposables.__aenter__/__aexit__ (C08), StateContext.updated (C01), ScopeMetrics._finish/log/time never raise (C09, C19). The body is abstracted by 'leaves the three variables as it found them' (induction over nesting).",
  ref="DESIGN.md 4 (C02), Appendix B.4"),
 "C06": dict(
  text="Deductive proof of the call shapes structured concurrency rests on, on every path of the real code: ctx.spawn / TaskGroupContext.run create the task through the *current* group's create_task inside a scope and detached on the loop outside (with the given function and arguments); the scope's task group is entered and current before disposables are entered and inside the block; ScopeContext.__aexit__ (and a failing __aenter__) awaits TaskGroup.__aexit__ on every exit path with the body's exception details unchanged; sync scopes and state updates never touch the group variable.",
  note="Trusted: T-TG (TaskGroup.__aexit__ returns only when all members are done and aborts them when the body failed or the parent is cancelled), T-CV. 'Leaving always terminates' is T-TG plus tasks reacting to cancellation: assumed, not proved (liveness).",
  ref="DESIGN.md 4 (C06)"),
 "C07": dict(
  text="Deductive proof: a CancelledError that arrives while the scope waits for its task group or while disposables are entered/exited is never converted into a normal return by ScopeContext/TaskGroupContext (every handler of the real code is executed on every outcome class of TaskGroup.__aexit__: only the body's own exception object is left to the with statement); ctx.check_cancellation raises CancelledError exactly when a current task exists and has pending cancellation requests; ctx.cancel requests cancellation of the current task and raises RuntimeError outside a task.",
  note="Trusted: T-FUT (current task is never done; Task.cancelling() counts requests), T-TG, S4. That spawned tasks of a cancelled scope are cancelled too is T-TG applied to C06-P2: assumed.",
  ref="DESIGN.md 4 (C07)"),
 "C08": dict(
  text="Deductive proof for any number of disposables (tuple of unknown length; each disposable's enter/exit outcome is an uninterpreted function of the disposable): _initialize maps None/State/iterable as specified and propagates a failing enter; __aenter__ starts exactly one _initialize per disposable in order and returns the in-order concatenation of the yielded state; __aexit__ hands every disposable exactly one __aexit__ with the given exception details under return_exceptions=True, returns only when no cleanup failed, raises the single error or a group holding every error, and no cleanup error vanishes; ScopeContext enters once before the body and exits once after it with the body's details on every path; ctx.scope wraps an iterable keeping every disposable in order. One clause is refuted and listed as a known finding (no rollback of entered disposables when entering fails): it is reported as KNOWN-FINDING and not counted as proved.",
  note="Trusted: T-GATHER (every awaitable handed to gather is started; return_exceptions semantics), T-COLL (chain.from_iterable, list filter semantics), PEP 634 patterns. A cancellation delivered while the exits run may cancel not-yet-started exit coroutines (asyncio.gather): outside this property's quantifier.",
  ref="DESIGN.md 4 (C08)"),
 "C01": dict(
  text="Deductive proof: ScopeState.__init__ stores each instance under its exact type with later instances winning (dict-comprehension summary, for sequences of any length); ScopeState.state answers a supplied type with the supplied instance, else the explicit default, else a default-constructed instance, else MissingState - and never changes what the scope supplies (frame); ScopeState.updated yields parent view overridden by the last new instance per type, for any parent and any new sequence, leaving the receiver untouched; StateContext.current/ctx.state and StateContext.updated/ctx.updated pass through to the current ScopeState and map an unset context variable to MissingContext / a fresh scope; ScopeContext.__aenter__ builds the scope state from (*state, *disposables' state) in that order. The nesting statement is the fold of these over enclosing blocks (restoration on exit: C02).",
  note="Trusted: T-COLL dict/dict-comprehension/values() semantics, T-CV. Default construction T() returns an instance of exact type T or raises an Exception (assumed). When the solver cannot construct a counter-model for the quantified clauses it leaves them open and the native nesting harness (bounded, labelled so) decides.",
  ref="DESIGN.md 4 (C01)"),
 "C03": dict(
  text="Deductive proof of the three facts isolation rests on: both create_task calls of TaskGroupContext.run/ctx.spawn start the task from copy_context() taken at the spawn point (or the default, which is the same); a frame audit of context/state.py shows that no function mutates a ScopeState (or any module-level object) after construction and that context changes are only ContextVar.set/reset in __enter__/__exit__; ScopeState.state and .updated are proved (semantically) to leave the receiver's view untouched and updated returns a new object (copy-on-update).",
  note="The schedule quantifier itself is discharged by T-CV (contexts are task-local; a task runs in the copy it was given): assumed, stated in the evidence. Shared mutable heap reachable from the context is the only other channel and is what is proved absent.",
  ref="DESIGN.md 4 (C03)"),
 "C09": dict(
  text="Unbounded deductive proof over the whole (arbitrarily large) scope tree: ScopeMetrics objects are symbolic heap references and the invariant quantifies over all of them - completed => finished; completed => every nested scope completed; finished and not completed => some nested scope not completed (eagerness); nested lists and parent pointers agree; futures and lists are not shared. __init__, _finish and the recursive _complete_if_able (recursive call checked against its own contract, with the eagerness clause allowed to be broken exactly at the callee) preserve it on every path, every assert of the source is proved to hold at its call sites, set_result happens at most once per scope and only on its own future, completion is never undone, time is the stored constant after completion; MetricsContext.__enter__/__exit__ reach _finish with its precondition and never raise; lemma L-TREE (step by SMT) gives is_completed(s) <=> completed(s) and completed(s) => every descendant finished; MetricsContext.scope registers a fresh scope under the scope current at creation.",
  note="Trusted: T-FUT (done callbacks run exactly once after completion - this is what turns 'completed exactly once' into 'callback exactly once'), the induction principle of L-TREE (children are created after their parent), S4. Frame audits (who calls _finish / set_result) are syntactic and reported as undecided, not as violations, when the code shape is not recognised.",
  ref="DESIGN.md 4 (C09)"),
 "C10": dict(
  text="Deductive proof: ScopeMetrics.record stores the first record of a type as is and otherwise merge(current, new) in that order (left fold by induction over the recording history), touches no other type (frame over the whole dict), refuses completed scopes and leaves the metrics untouched when merge fails; read returns own value else default; metrics(merge) returns exactly the own values without merge and otherwise folds the nested scopes' metrics(merge=merge) - concatenated in _nested (creation) order - as merge(current-or-MISSING, item), storing non-MISSING results under the item's exact type, never modifying the scope's own dict; MetricsContext.record/ctx.record target the scope current in the recording task, let no Exception escape (outside a scope, failing merge, completed scope) and log the failure.",
  note="Trusted: T-COLL (dict, copy, chain.from_iterable), T-CV, S5 (State instances are truthy). The recursive call of metrics() on nested scopes is a callee contract (uninterpreted result per nested scope); a non-Exception BaseException raised by a merge function propagates (by design).",
  ref="DESIGN.md 4 (C10)"),
 "C19": dict(
  text="Deductive proof on the real logging path: ScopeMetrics.__init__ uses a given trace id / logger, else a fresh id / the logger named after the scope, and builds the tag from trace id, name (when non-empty) and a fresh identifier; MetricsContext.scope passes own-else-enclosing trace id and logger to nested scopes; ScopeMetrics.log emits exactly one record to the scope's logger at the requested level with the exception attached, text = tag + message, caller's arguments unchanged, and the tag reaches a %-format only through replace('%','%%') when formatting applies (structural format safety); the eight MetricsContext.log_*/ctx.log_* functions route to the current scope with the right level or - outside any scope - to the root logger untagged, and never raise.",
  note="Trusted: T-LOG (Logger.log never raises, formats msg % args only when args is non-empty), T-FMT (%% renders as %), strings are opaque (concatenation is an uninterpreted constructor), T-CV.",
  ref="DESIGN.md 4 (C19)"),
 "C04": dict(
  text="Deductive proof for every state class at once (instance attributes are a symbolic name->value map, __ATTRIBUTES__ a dict of unknown size): __setattr__/__delattr__ raise AttributeError on every path and store nothing; __eq__ is true exactly for an instance of the same class (or subclass) whose attributes are all equal; __replace__/updated rebuild through the validating constructor with exactly {current attributes overridden by the named ones}, return the new instance and leave the original untouched, also when validation fails; __copy__ rebuilds from exactly the current attributes; __deepcopy__ rebuilds from the deep copies of each attribute; the container conversions produce new tuple / frozenset / read-only-view-of-a-new-dict objects that share nothing with the caller's containers and are idempotent item-wise. One clause is refuted and listed as a known finding (deepcopy raises when an attribute holds a mappingproxy): reported as KNOWN-FINDING, not counted as proved.",
  note="Trusted: S8, S6 (reflexive ==), T-COPY (deepcopy fails exactly on values that are/contain a mappingproxy, else returns an equal value), the constructor's contract (C05). Equality of a copy with the original uses idempotence of the conversions (C04-P3, proved item-wise). Attributes annotated Any/Callable/Protocol keep user objects by reference (exempt by the statement).",
  ref="DESIGN.md 4 (C04)"),
 "C05": dict(
  text="Deductive proof by structural induction over the annotation tree, one level per contract, with the argument validators as arbitrary pure partial functions (induction hypothesis): each validator closure of state/validation.py accepts exactly the values that conform to its shape (Any, None, class/protocol/enum by isinstance, Literal by same-type equality, Callable, Sequence / variadic tuple as non-str sequences, fixed tuple with exact length, Set/frozenset, Mapping, Union by first conforming alternative) and otherwise raises an Exception; accepted containers keep length, order, key association (nothing added, dropped, split or re-keyed) for sequences/sets/mappings of any size; attribute_validator selects the conversion prescribed for each of the 28 vocabulary origins, State/Protocol/Enum subclasses, and rejects anything else with TypeError; StateAttribute.validated substitutes the default for MISSING; State.__init__ (loop invariant over a dict of any size) stores validator(argument-or-default) for every attribute and fails iff some value does not conform.",
  note="The reflective annotation resolver (state/attributes.py, StateMeta.__new__, __class_getitem__) is outside the verifier's reach: it is covered only by the BOUNDED native sweep of harness/C05_replay.py (annotation terms to depth 3, 262 terms, conforming and broken values) which is never counted as proved. Trusted: PEP 634 patterns, T-COLL, nominal isinstance, validators raise only Exceptions.",
  ref="DESIGN.md 4 (C05), 3.11"),
 "C18": dict(
  text="Deductive proof of the call shapes and outcome forwarding on every path of the real code: both executor paths of _ExecutorWrapper (function and bound method) hand run_in_executor the configured executor, <copy_context() taken at the call>.run and partial(function, [receiver,] *args, **kwargs), and return / raise exactly the function's outcome; __get__ binds the receiver to the method path; wrap_async returns async functions as is and otherwise forwards arguments and outcome; both traced wrappers open exactly one scope named after the function, record the arguments before and the outcome after the call, return the value / re-raise the same exception object, and no tracing step raises; mimic_function.mimic and _mimic_async (loop invariant over the attribute names, symbolic attribute map) leave __name__, __doc__ equal to the original's and __wrapped__ identical to it; a syntactic audit checks that each of the seven decorators passes its wrapper through mimic.",
  note="Trusted: T-EXEC (run_in_executor runs f(*a) on another thread and delivers result or exception - 'off the loop thread, the loop keeps serving tasks' is exactly this assumption), T-CV (a copied Context is private: nothing leaks back), functools.partial. Callee contracts: sync scope enter/exit never raise (C02), ctx.record never raises (C10), ArgumentsTrace.of/ResultTrace.of never raise (instance of C05; cross-checked natively).",
  ref="DESIGN.md 4 (C18)"),
}

ALL = [f"C{i:02d}" for i in range(1, 21)]
NA_REASON = {}
DEFAULT_NA = "contracts not finished in this revision (work in progress, DESIGN.md 7); not decided by any other technique"

checks = []
for pid in ALL:
    if pid in CLAIMED:
        c = CLAIMED[pid]
        checks.append({
            "property_id": pid, "quick_cmd": f"./check {pid} quick", "thorough_cmd": f"./check {pid} thorough",
            "evidence_file": f"evidence/{pid}.json", "replay_cmd_template": "./check replay {path}", "engine": "pyvc",
            "level_claimed": {"category": "proof", "text": c["text"], "design_ref": c["ref"]},
            "level_note": c["note"], "technique": TECH})
manifest = {
    "version": 1,
    "setup_cmd": "./setup.sh",
    "hooks": {"guard": "HAIWAY_VERIF",
              "enable": "no hooks are needed: contracts are sidecar files under /verif/contracts and the VC generator reads /repo/src directly",
              "baseline_off_cmd": "cd /repo && /venv/bin/python -m pytest -ra -q -p no:cacheprovider --timeout=900 --continue-on-collection-errors",
              "source_commits": [], "add_only": True},
    "engines": [{"name": "pyvc", "path": "pyvc/", "serves_properties": sorted(CLAIMED),
                 "kind_free_text": "verification-condition generator: symbolic execution of the real Python AST under sidecar contracts; obligations discharged by z3 5.1 (cvc5 1.0.3 / z3 4.8.12 as fallbacks); native replay harnesses under harness/"}],
    "checks": checks,
    "not_applicable": [{"property_id": p, "reason": NA_REASON.get(p, DEFAULT_NA)} for p in ALL if p not in CLAIMED],
    "notes": "fix: commits in /repo repair defects the machinery refuted (see known_findings.json); exit codes: 0 held, 1 violation, 2 undecided, 3 checker broken",
}
with open(os.path.join(ROOT, "MANIFEST.json"), "w") as fh:
    json.dump(manifest, fh, indent=1)
print("claimed:", sorted(CLAIMED))
