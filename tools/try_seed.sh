#!/bin/sh
# tools/try_seed.sh <seed-dir-name> [tier] [extra ./check args] : run the check of the seed's property on a scratch copy of /repo with
# the seed applied (VERIF_REPO), print the check output, remove the copy. /repo stays untouched.
id=$1; tier=${2:-quick}; prop=${PROP:-${id%%-*}}
copy=/var/tmp/try_$id.$$
mkdir -p $copy
git -C /repo archive HEAD | tar -x -C $copy
git -C $copy init -q 2>/dev/null; git -C $copy add -A; git -C $copy -c user.email=a@b -c user.name=x commit -qm base
git -C $copy apply /verif/seeded/$id/patch.diff || echo "PATCH DOES NOT APPLY"
cd /verif; VERIF_REPO=$copy ./check $prop $tier; rc=$?
echo "exit=$rc"
rm -rf $copy
