#!/usr/bin/env python3
"""tools/mutate.py <outdir> : classic one-token mutants of the files the properties are anchored in.
Writes <outdir>/<id>.diff (git patch against /repo HEAD) and <outdir>/index.json.  Only mutants that still compile are kept;
the test-suite filter and the checks are run by tools/mutation_sweep.sh."""
import ast
import copy
import difflib
import json
import os
import sys

REPO = os.environ.get("VERIF_REPO", "/repo")
FILES = ["context/access.py", "context/state.py", "context/tasks.py", "context/disposables.py", "context/metrics.py",
         "helpers/caching.py", "helpers/retries.py", "helpers/throttling.py", "helpers/timeouted.py", "helpers/asynchrony.py",
         "helpers/tracing.py", "utils/queue.py", "utils/mimic.py", "types/missing.py", "state/structure.py", "state/validation.py"]

CMP = {ast.Lt: ast.LtE, ast.LtE: ast.Lt, ast.Gt: ast.GtE, ast.GtE: ast.Gt, ast.Eq: ast.NotEq, ast.NotEq: ast.Eq,
       ast.Is: ast.IsNot, ast.IsNot: ast.Is, ast.In: ast.NotIn, ast.NotIn: ast.In}


def mutants(tree):
    """yield (description, lineno, mutated tree)"""
    nodes = [n for n in ast.walk(tree)]
    for idx, n in enumerate(nodes):
        def clone():
            t = copy.deepcopy(tree)
            return t, [m for m in ast.walk(t)][idx]
        if isinstance(n, ast.Compare) and len(n.ops) == 1 and type(n.ops[0]) in CMP:
            t, m = clone()
            m.ops = [CMP[type(n.ops[0])]()]
            yield f"{type(n.ops[0]).__name__}->{CMP[type(n.ops[0])].__name__}", n.lineno, t
        if isinstance(n, ast.BoolOp):
            t, m = clone()
            m.op = ast.Or() if isinstance(n.op, ast.And) else ast.And()
            yield f"{type(n.op).__name__}->{type(m.op).__name__}", n.lineno, t
        if isinstance(n, ast.UnaryOp) and isinstance(n.op, ast.Not):
            t, m = clone()
            m.op = ast.UAdd() if False else m.op
            # drop the `not`: replace node content by its operand
            parent_fields = None
            t2 = copy.deepcopy(tree)
            for p in ast.walk(t2):
                for f, v in ast.iter_fields(p):
                    if isinstance(v, ast.UnaryOp) and isinstance(v.op, ast.Not) and getattr(v, "lineno", None) == n.lineno \
                            and getattr(v, "col_offset", None) == n.col_offset:
                        setattr(p, f, v.operand)
                        parent_fields = True
                    elif isinstance(v, list):
                        for i, x in enumerate(v):
                            if isinstance(x, ast.UnaryOp) and isinstance(x.op, ast.Not) and getattr(x, "lineno", None) == n.lineno \
                                    and getattr(x, "col_offset", None) == n.col_offset:
                                v[i] = x.operand
                                parent_fields = True
            if parent_fields:
                yield "drop-not", n.lineno, t2
        if isinstance(n, ast.Constant) and not isinstance(getattr(n, "value", None), str):
            v = n.value
            if v is True or v is False:
                t, m = clone()
                m.value = not v
                yield f"{v}->{not v}", n.lineno, t
            elif isinstance(v, int) and not isinstance(v, bool) and v in (0, 1):
                t, m = clone()
                m.value = 1 - v
                yield f"{v}->{1 - v}", n.lineno, t
        if isinstance(n, ast.BinOp) and isinstance(n.op, (ast.Add, ast.Sub)):
            t, m = clone()
            m.op = ast.Sub() if isinstance(n.op, ast.Add) else ast.Add()
            yield f"{type(n.op).__name__}->{type(m.op).__name__}", n.lineno, t
        if isinstance(n, ast.AugAssign) and isinstance(n.op, (ast.Add, ast.Sub)):
            t, m = clone()
            m.op = ast.Sub() if isinstance(n.op, ast.Add) else ast.Add()
            yield f"aug{type(n.op).__name__}->{type(m.op).__name__}", n.lineno, t
        if isinstance(n, ast.Expr) and isinstance(n.value, (ast.Call, ast.Await)) and not isinstance(getattr(n.value, "func", None), ast.Name):
            # delete a call statement (method call / awaited call): replaced by `pass`
            t2 = copy.deepcopy(tree)
            done = False
            for p in ast.walk(t2):
                for f, v in ast.iter_fields(p):
                    if isinstance(v, list):
                        for i, x in enumerate(v):
                            if isinstance(x, ast.Expr) and getattr(x, "lineno", None) == n.lineno and getattr(x, "col_offset", None) == n.col_offset \
                                    and isinstance(x.value, (ast.Call, ast.Await)):
                                v[i] = ast.copy_location(ast.Pass(), x)
                                done = True
            if done:
                yield "delete-call-statement", n.lineno, t2
        if isinstance(n, ast.Return) and n.value is not None and not (isinstance(n.value, ast.Constant) and n.value.value is None):
            t, m = clone()
            m.value = ast.copy_location(ast.Constant(value=None), n.value)
            yield "return-None", n.lineno, t
        if isinstance(n, ast.If) and n.orelse and not (len(n.orelse) == 1 and isinstance(n.orelse[0], ast.If)):
            t, m = clone()
            m.test = ast.copy_location(ast.UnaryOp(op=ast.Not(), operand=m.test), m.test)
            yield "negate-if", n.lineno, t
        if isinstance(n, ast.Continue):
            t, m = clone()
            # continue -> break
            t2 = copy.deepcopy(tree)
            for p in ast.walk(t2):
                for f, v in ast.iter_fields(p):
                    if isinstance(v, list):
                        for i, x in enumerate(v):
                            if isinstance(x, ast.Continue) and x.lineno == n.lineno:
                                v[i] = ast.copy_location(ast.Break(), x)
            yield "continue->break", n.lineno, t2
        if isinstance(n, ast.Call) and len(n.args) == 2 and not n.keywords and all(isinstance(a, ast.Name) for a in n.args):
            t, m = clone()
            m.args = [m.args[1], m.args[0]]
            yield "swap-args", n.lineno, t


def main():
    out = sys.argv[1]
    os.makedirs(out, exist_ok=True)
    index = []
    k = 0
    for rel in FILES:
        path = os.path.join(REPO, "src/haiway", rel)
        src = open(path).read()
        tree = ast.parse(src)
        base = ast.unparse(tree)
        base_lines = src.splitlines(keepends=True)
        seen = set()
        for desc, line, t in mutants(tree):
            ast.fix_missing_locations(t)
            try:
                new = ast.unparse(t)
                compile(new, path, "exec")
            except Exception:
                continue
            if new == base or new in seen:
                continue
            seen.add(new)
            # produce a minimal textual patch: replace only the changed lines of the *unparsed* forms mapped back is fragile;
            # instead write the whole file from the unparsed mutant for files where unparse(base) compiles identically
            k += 1
            mid = f"M{k:04d}"
            # full-file replacement patch (unparse normalises formatting: the base is normalised the same way)
            diff = "".join(difflib.unified_diff(base.splitlines(keepends=True), new.splitlines(keepends=True),
                                                fromfile=f"a/src/haiway/{rel}", tofile=f"b/src/haiway/{rel}", n=2))
            open(os.path.join(out, mid + ".diff"), "w").write(diff)
            index.append(dict(id=mid, file=rel, line=line, op=desc))
    json.dump(index, open(os.path.join(out, "index.json"), "w"), indent=0)
    print(len(index), "mutants")


if __name__ == "__main__":
    main()
