#!/bin/sh
# tools/seed_eval.sh <PROP> <outdir> <seedname> [check-props...]
# confirms a seeded change in a scratch worktree (tests pass, demo fails with / passes without), stores it under
# /verif/seeded/<seedname>/, runs the property checks against it applied to /repo, and undoes it.
prop=$1; out=$2; name=$3; shift 3; checks=${*:-$prop}

dst=/verif/seeded/$name
mkdir -p $dst
cp $out/patch.diff $dst/patch.diff; cp $out/demo.py $dst/demo.py
[ -f $out/meta.json ] && cp $out/meta.json $dst/agent_meta.json
sv=/tmp/sv_$name
git -C /repo worktree add -f $sv HEAD -q
cd $sv
clean=$(PYTHONPATH=$sv/src /venv/bin/python $dst/demo.py >/tmp/sv_clean.txt 2>&1; echo $?)
git apply $dst/patch.diff
tests=$(PYTHONPATH=$sv/src /venv/bin/python -m pytest -q -p no:cacheprovider 2>&1 | tail -1)
patched=$(PYTHONPATH=$sv/src /venv/bin/python $dst/demo.py >/tmp/sv_patched.txt 2>&1; echo $?)
cd /verif
git -C /repo worktree remove --force $sv
echo "clean-demo-exit=$clean patched-demo-exit=$patched tests=[$tests]"
git -C /repo diff --quiet || { echo "repo dirty"; exit 9; }
git -C /repo apply $dst/patch.diff
res=""
for c in $checks; do
  o=$(./check $c quick 2>&1 | grep -vE "^WARNING" | tail -40); e=$(echo "$o" | tail -1)
  echo "$o" | grep -E "^VIOLATION" | cut -c1-260 | head -3
  echo "  $e"
  res="$res | $e"
done
git -C /repo checkout -- .
/venv/bin/python - "$dst" "$prop" "$clean" "$patched" "$tests" "$res" <<'PY'
import json, sys, os
dst, prop, clean, patched, tests, res = sys.argv[1:7]
agent = {}
if os.path.exists(dst + "/agent_meta.json"):
    try: agent = json.load(open(dst + "/agent_meta.json"))
    except Exception: agent = {}
meta = dict(property=prop, summary=agent.get("summary"), needs=agent.get("needs"),
            confirmed=dict(demo_exit_on_unchanged_tree=int(clean), demo_exit_with_patch=int(patched), test_suite_with_patch=tests),
            ran=["git worktree add <scratch> HEAD; demo.py (unchanged) ; git apply patch.diff; pytest; demo.py (patched)",
                 "git -C /repo apply patch.diff; ./check <prop> quick; git -C /repo checkout -- ."],
            check_results=res.strip(" |"))
json.dump(meta, open(dst + "/meta.json", "w"), indent=1)
PY
