#!/usr/bin/env python3
"""tools/seed_prompts.py <round-number> <letter> : write one prompt per property for a round of seed-writing sub-agents
(/tmp/out<round>_<id>/PROMPT.txt) and create their scratch worktrees (/tmp/wt<round>_<id>).  A sub-agent sees the property
text, its own worktree and one-line summaries of the earlier seeds of that property - nothing else from /verif."""
import json, os, subprocess, sys, glob

rnd, letter = sys.argv[1], sys.argv[2]
ANGLE = {
    "12": ("Work like this: the property is implemented by the files listed as relevant, but those lean on OTHER modules of the library "
           "(src/haiway/utils/*.py such as mimic.py / immutable.py / queue.py / noop.py / always.py, src/haiway/types/missing.py, "
           "src/haiway/state/attributes.py, src/haiway/context/disposables.py / metrics.py / state.py / tasks.py / types.py, "
           "src/haiway/helpers/*.py). Prefer a change in such a NEIGHBOURING module - one that is NOT in the list of relevant "
           "files - whose effect breaks THIS property for a caller that never looks at that module (a helper that now returns "
           "something slightly different, a shared constant, a base class, a module-level cache, an import-time side effect). "
           "If the property really is self-contained, change a part of its own file that no earlier attempt touched "
           "(constructor, module-level helper, a property / accessor, `__init__` defaults)."),
}
ANGLE["13"] = ANGLE["12"] + (" Round 12 already did this once (its attempts are the last entries of the list below): pick a DIFFERENT "
                             "neighbouring module or a different function of it, and prefer effects that only show when two features "
                             "of the library meet (this property's feature used together with another helper or another part of the "
                             "context machinery).")
ANGLE = ANGLE[rnd]
for line in open("/verif/properties.jsonl"):
    p = json.loads(line)
    pid = p["id"]
    out, wt = f"/tmp/out{rnd}_{pid}", f"/tmp/wt{rnd}_{pid}"
    os.makedirs(out, exist_ok=True)
    if not os.path.isdir(wt):
        subprocess.run(["git", "-C", "/repo", "worktree", "add", "-f", wt, "HEAD", "-q"], check=True)
    earlier = []
    for d in sorted(glob.glob(f"/verif/seeded/{pid}-*/meta.json")):
        try:
            earlier.append((json.load(open(d)).get("summary") or "")[:170].replace("\n", " "))
        except Exception:
            pass
    n = len(earlier)
    prompt = f"""You are helping test a verification tool by producing ONE realistic, subtle bug in a small Python library.

Library: miquido/haiway (asyncio helper library), a git worktree checked out at {wt} (work ONLY there; never touch /repo or /verif; do not read /verif).
Run its test suite with:  cd {wt} && PYTHONPATH={wt}/src /venv/bin/python -m pytest -q -p no:cacheprovider
(PYTHONPATH is required so that `import haiway` resolves to the worktree, not to /repo.)

The semantic property that currently HOLDS and that your change must BREAK:
  Title: {p['title']}
  Statement: {p['statement']}
  Quantified over: {p['quantifier']['text']}
  Relevant files: {', '.join(p['anchors']['files'])}

{n} earlier attempts already produced the bugs listed below. Yours must be DIFFERENT in mechanism and must not touch the same statements. {ANGLE}
""" + "".join(f'  {i + 1}. "{e}"\n' for i, e in enumerate(earlier)) + f"""
Your task:
1. Read the relevant source. Make a small source change (a few lines, in src/haiway only) that a careless refactor or a plausible "optimisation" could introduce, such that the property no longer holds, BUT the code still imports and the whole existing test suite (65 tests) still passes.
2. The bug should need something specific to manifest - NOT something ordinary use would expose immediately. Do not just delete the feature; keep it looking like reasonable code. The behaviour must stay within what the property statement quantifies over (do not rely on inputs the statement excludes), and must show in an ordinary `python` run (no -O, no special environment).
3. Write a demonstration script {out}/demo.py (plain python, run as: PYTHONPATH=<tree>/src /venv/bin/python {out}/demo.py) that exits 0 and prints PASS on the UNCHANGED tree and exits 1 printing FAIL (with a short explanation) on your changed tree. It must be deterministic (use virtual/controlled time or explicit event ordering rather than real sleeps where you can; keep real time under 5 s).
4. Save your change as a patch: cd {wt} && git diff > {out}/patch.diff   (the patch must apply with `git apply` to a clean checkout of the same commit).
5. Verify all of it yourself: with the patch applied the 65 tests pass and demo.py FAILs; on the unchanged tree (use `git apply -R {out}/patch.diff` and re-apply afterwards; do NOT use `git stash`) demo.py PASSes. Leave the worktree with your change applied.
6. Write {out}/meta.json with keys: property ("{pid}"), summary (what you changed), needs (what specific condition is needed for the bug to manifest), clause (the clause of the statement you attacked), ran (the commands you ran and their outcomes).
Be quick: aim to finish within 10 minutes. Reply with a short summary (what the change is, which clause it attacks, why tests still pass, what the demo does).
"""
    open(out + "/PROMPT.txt", "w").write(prompt)
    print(pid, n, "earlier")
