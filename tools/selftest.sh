#!/bin/sh
# tools/selftest.sh : every seeded change must be reported (exit 1) by the check of its property, every benign refactor
# must leave the touched properties green (exit 0).  Applies each patch to /repo, runs the checks, undoes it.
# Never part of a verdict; /repo must be clean.
cd /verif
git -C /repo diff --quiet || { echo "repo dirty"; exit 9; }
fail=0
for d in seeded/*/; do
  id=$(basename $d); prop=${id%%-*}
  git -C /repo apply /verif/$d/patch.diff || { echo "SEED $id: patch does not apply"; fail=1; continue; }
  ./check $prop quick >/tmp/selftest.out 2>&1; rc=$?
  git -C /repo checkout -- .
  if [ $rc -eq 1 ]; then echo "SEED $id: caught ($(grep -c '^VIOLATION' /tmp/selftest.out) violation lines)"; else echo "SEED $id: NOT caught (exit $rc)"; fail=1; fi
done
for b in selftest/benign/*.patch selftest/benign/*.diff; do
  [ -f "$b" ] || continue
  git -C /repo apply /verif/$b || { echo "BENIGN $b: patch does not apply"; continue; }
  files=$(git -C /repo diff --name-only)
  props=""
  for f in $files; do
    case $f in
      *retries*) props="$props C14";; *caching*) props="$props C12 C13";; *throttling*) props="$props C15";; *timeouted*) props="$props C16";;
      *queue*) props="$props C17";; *access*) props="$props C02 C06 C07 C08 C11 C01 C09 C10";; *tasks*) props="$props C02 C06 C07 C03 C08";;
      *disposables*) props="$props C08 C02 C01 C07";; *context/state*) props="$props C01 C03";; *metrics*) props="$props C09 C10 C19";;
      *validation*) props="$props C05 C04 C20";; *state/attributes*) props="$props C05";; *structure*) props="$props C04 C05";; *missing*) props="$props C20";;
      *asynchrony*|*tracing*) props="$props C18";; *mimic*) props="$props C18 C12 C15 C16";;
    esac
  done
  for p in $props; do
    ./check $p quick >/tmp/selftest.out 2>&1; rc=$?
    if [ $rc -eq 0 ]; then echo "BENIGN $(basename $b) / $p: green"; else echo "BENIGN $(basename $b) / $p: exit $rc  <-- false alarm or undecided"; tail -3 /tmp/selftest.out | cut -c1-200; fail=1; fi
  done
  git -C /repo checkout -- .
done
exit $fail
