#!/bin/sh
# tools/mutant.sh <PROP> <file-relative-to-/repo> <sed-expression>  : apply, run quick check, undo
prop=$1; file=$2; expr=$3
cd /repo && git diff --quiet || { echo "repo dirty"; exit 9; }
sed -i "$expr" "$file"
if git diff --quiet; then echo "MUTANT DID NOT APPLY: $expr"; exit 8; fi
cd /verif && ./check "$prop" quick 2>&1 | grep -vE "^WARNING" | cut -c1-230 | tail -${4:-4}
cd /repo && git checkout -- .
