#!/bin/sh
# tools/run_all.sh [quick|thorough] : run every claimed check on the current tree, summarise
tier=${1:-quick}
cd /verif
[ "$tier" = thorough ] && ./check selfcheck 2>&1 | grep -E "^selfcheck|^MISMATCH|^LOST"
for i in 01 02 03 04 05 06 07 08 09 10 11 12 13 14 15 16 17 18 19 20; do
  ./check C$i $tier 2>&1 | grep -E "^C$i |^VIOLATION|^CHECKER" | cut -c1-200
done
