#!/usr/bin/env python3
"""tools/mutate2.py <outdir> : second family of mechanical mutants (statement deletions, dropped shields, widened / narrowed
handlers, constants n -> n+1), written as *whole mutated files* <outdir>/<id>.py (normalised with ast.unparse) + index.json."""
import ast
import copy
import json
import os
import sys

REPO = os.environ.get("VERIF_REPO", "/repo")
FILES = ["context/access.py", "context/state.py", "context/tasks.py", "context/disposables.py", "context/metrics.py",
         "helpers/caching.py", "helpers/retries.py", "helpers/throttling.py", "helpers/timeouted.py", "helpers/asynchrony.py",
         "helpers/tracing.py", "utils/queue.py", "utils/mimic.py", "types/missing.py", "state/structure.py", "state/validation.py"]


def replace_node(tree, target_type, lineno, col, make):
    """copy of tree with the node of that type at (lineno, col) replaced by make(node); None if not found"""
    t = copy.deepcopy(tree)
    hit = False
    for p in ast.walk(t):
        for f, v in ast.iter_fields(p):
            if isinstance(v, list):
                for i, x in enumerate(v):
                    if type(x) is target_type and getattr(x, "lineno", None) == lineno and getattr(x, "col_offset", None) == col:
                        v[i] = make(x)
                        hit = True
            elif type(v) is target_type and getattr(v, "lineno", None) == lineno and getattr(v, "col_offset", None) == col:
                setattr(p, f, make(v))
                hit = True
    return t if hit else None


def mutants(tree):
    for n in ast.walk(tree):
        ln, col = getattr(n, "lineno", None), getattr(n, "col_offset", None)
        if isinstance(n, ast.Call) and isinstance(n.func, ast.Name) and n.func.id == "shield" and len(n.args) == 1:
            t = replace_node(tree, ast.Call, ln, col, lambda x: x.args[0])
            if t:
                yield "unshield", ln, t
        if isinstance(n, ast.Raise):
            t = replace_node(tree, ast.Raise, ln, col, lambda x: ast.copy_location(ast.Pass(), x))
            if t:
                yield "delete-raise", ln, t
        if isinstance(n, ast.Assign) and any(isinstance(tg, (ast.Attribute, ast.Subscript)) for tg in n.targets):
            t = replace_node(tree, ast.Assign, ln, col, lambda x: ast.copy_location(ast.Pass(), x))
            if t:
                yield "delete-store", ln, t
        if isinstance(n, ast.AugAssign):
            t = replace_node(tree, ast.AugAssign, ln, col, lambda x: ast.copy_location(ast.Pass(), x))
            if t:
                yield "delete-augassign", ln, t
        if isinstance(n, ast.ExceptHandler) and isinstance(n.type, ast.Name) and n.type.id in ("Exception", "BaseException"):
            other = "BaseException" if n.type.id == "Exception" else "Exception"
            t = replace_node(tree, ast.ExceptHandler, ln, col,
                             lambda x: ast.copy_location(ast.ExceptHandler(type=ast.Name(id=other, ctx=ast.Load()), name=x.name, body=x.body), x))
            if t:
                yield f"except-{n.type.id}->{other}", ln, t
        if isinstance(n, ast.Constant) and isinstance(n.value, int) and not isinstance(n.value, bool) and n.value not in (0, 1):
            t = replace_node(tree, ast.Constant, ln, col, lambda x: ast.copy_location(ast.Constant(value=x.value + 1), x))
            if t:
                yield f"{n.value}->{n.value + 1}", ln, t
        if isinstance(n, ast.If) and not n.orelse and len(n.body) >= 1:
            # the guard removed: body always runs
            t = replace_node(tree, ast.If, ln, col, lambda x: ast.copy_location(ast.If(test=ast.Constant(value=True), body=x.body, orelse=[]), x))
            if t:
                yield "if-always", ln, t
        if isinstance(n, ast.Await) and isinstance(n.value, ast.Call) and isinstance(n.value.func, ast.Name) and n.value.func.id == "sleep":
            pass
        if isinstance(n, ast.Try) and n.finalbody:
            # finally -> plain sequence (cleanup skipped when the body raises)
            t = replace_node(tree, ast.Try, ln, col,
                             lambda x: ast.copy_location(ast.Try(body=x.body + x.finalbody, handlers=x.handlers, orelse=x.orelse, finalbody=[]), x)
                             if x.handlers else ast.copy_location(ast.If(test=ast.Constant(value=True), body=x.body + x.finalbody, orelse=[]), x))
            if t:
                yield "finally-to-sequence", ln, t


def main():
    out = sys.argv[1]
    os.makedirs(out, exist_ok=True)
    index, k = [], 0
    for rel in FILES:
        path = os.path.join(REPO, "src/haiway", rel)
        tree = ast.parse(open(path).read())
        base = ast.unparse(tree)
        seen = set()
        for desc, line, t in mutants(tree):
            ast.fix_missing_locations(t)
            try:
                new = ast.unparse(t)
                compile(new, path, "exec")
            except Exception:
                continue
            if new == base or new in seen:
                continue
            seen.add(new)
            k += 1
            mid = f"N{k:04d}"
            open(os.path.join(out, mid + ".py"), "w").write(new)
            index.append(dict(id=mid, file=rel, line=line, op=desc))
    json.dump(index, open(os.path.join(out, "index.json"), "w"), indent=0)
    print(len(index), "mutants")


if __name__ == "__main__":
    main()
