"""C02 - leaving a scope restores the surrounding context on every exit path
(also hosts the clauses of C06, C07 and C08-P5 that live in the same functions; C06.py / C07.py /
C08.py re-export these scenarios with their own clause filter).

Functions under contract: context/access.py::ScopeContext.__enter__/__exit__/__aenter__/__aexit__,
context/state.py::StateContext.__enter__/__exit__, context/metrics.py::MetricsContext.__enter__/
__exit__, context/tasks.py::TaskGroupContext.__init__/__aenter__/__aexit__ (all executed inline from
the real source), with callee contracts for Disposables.__aenter__/__aexit__ (C08),
StateContext.updated (C01), ScopeMetrics._finish/.time/.log (C09, C19).

Scenario: a ScopeContext object is built, the three context variables hold arbitrary bindings
(s0, m0, g0 - possibly unset), the real __aenter__ runs; if it returns, the body is abstracted by
"anything that leaves the three variables as it found them" (induction over nested blocks) ending
with arbitrary exception details, and the real __aexit__ runs.  A CancelledError is injected at
every await of enter and exit; every callee may fail as its contract allows.
"""
from __future__ import annotations

import z3

from .common import *
from pyvc import lib as L

ACCESS = "context/access.py"


def cv_snapshot(it, var):
    return (L.cv_is_set(it, var), L.cv_value(it, var))


def cv_same(it, var, snap):
    s, v = snap
    return z3.And(L.cv_is_set(it, var) == s, z3.Implies(s, L.cv_value(it, var) == v))


class _Scope(Contract):
    props = ("C02", "C06", "C07", "C08")
    is_async = True
    trusted = ("T-CV (contextvars: get/set/reset with tokens, task-local)", "T-TG (TaskGroup.__aexit__ returns only "
               "when all members are done; aborts them on error/cancel)", "S4", "S8 (freeze() is a no-op: dunder lookup on the type)")
    assumptions = (
        "the body of the block leaves the three context variables as it found them (induction over nested blocks: "
        "this very contract for the inner blocks)",
        "callee contracts: Disposables.__aenter__/__aexit__ (C08), StateContext.updated (C01), ScopeMetrics._finish never "
        "raises (C09-P1), ScopeMetrics.log never raises (C19-P4), ScopeMetrics.time never raises (C09-P3)",
        "termination of the exit ('leaving always terminates', C06) is T-TG + tasks reacting to cancellation: assumed",
    )

    # ---------------------------------------------------------------------------------- class vars
    def class_var(self, it, info, name):
        if name == "_context" and info.name in ("StateContext", "MetricsContext", "TaskGroupContext"):
            g = it.st.ghost.setdefault("$tracked_cvs", {})
            if info.name not in g:
                new = L.sym_contextvar(it, f"cv_{info.name}")
                for other in g.values():            # three different ContextVar objects
                    it.st.assume(V.addr(new) != V.addr(other))
                g[info.name] = new
            return g[info.name]
        return None

    def cvs(self, it):
        out = {}
        for relfile, cname in (("context/state.py", "StateContext"), ("context/metrics.py", "MetricsContext"),
                               ("context/tasks.py", "TaskGroupContext")):
            info = repo_class(it, relfile, cname)
            out[cname] = it.class_attr(info, "_context", V.VCls(z3.IntVal(info.cid)))
        return out

    # ---------------------------------------------------------------------------------- callees
    def callee(self, it, fv):
        q = fv.qualname
        if q == "freeze":
            return lambda it2, fv2, ca, node: V.VNone
        if q == "Disposables.__aenter__":
            return self.disp_enter
        if q == "Disposables.__aexit__":
            return self.disp_exit
        if q == "StateContext.updated":
            return self.state_updated
        if q == "MetricsContext.scope" and getattr(self, "_mc_prebuilt", None) is not None:
            def made(it2, fv2, ca, node):
                self._mc_calls = getattr(self, "_mc_calls", 0) + 1
                return self._mc_prebuilt
            return made
        if q in ("ScopeMetrics._finish", "ScopeMetrics.log"):
            return self.metrics_never_raises
        if q == "ScopeMetrics.time":
            return lambda it2, fv2, ca, node: V.VFloat(it2.st.fresh("time", R))
        return None

    def metrics_never_raises(self, it, fv, ca, node):
        lib.used(f"callee:{fv.qualname} never raises (C09-P1 / C19-P4)")
        it.st.events.append(("metrics", fv.qualname))
        if fv.qualname.endswith("_finish"):
            it.st.put(fv.bound, "_finished", it.mk_bool(True))
        return V.VNone

    def state_updated(self, it, fv, ca, node):
        """StateContext.updated(state) -> a new, not yet entered StateContext (C01 proves its content)."""
        st = it.st
        info = repo_class(it, "context/state.py", "StateContext")
        o = st.alloc(info.cid)
        st.put(o, "_state", st.fresh_val("scope_state"))
        st.put(o, "_token", V.VNone)
        # StateContext.updated derives the new state from the state current *at the call*: remember which one that was
        var = self.cvs(it)["StateContext"]
        st.events.append(("state-updated", ca.pos[0] if ca.pos else None, cv_snapshot(it, var)))
        return o

    def disp_enter(self, it, fv, ca, node):
        return it.st.reg_fun(AwaitableV("disp-enter", {"obj": fv.bound}))

    def disp_exit(self, it, fv, ca, node):
        a = [ca.arg(0, "exc_type"), ca.arg(1, "exc_val"), ca.arg(2, "exc_tb")]
        return it.st.reg_fun(AwaitableV("disp-exit", {"obj": fv.bound, "args": a}))

    def on_await(self, it, aw, idx, node):
        st = it.st
        g = st.ghost
        if aw.kind == "disp-enter":
            g["disp_entered"] = g.get("disp_entered", 0) + 1
            st.check("C06-P3:task-group-is-current-while-disposables-are-entered(a-spawn-goes-into-this-scope's-group)",
                     self.spawns_into(it, self.the_group(it)))
            j = st.fork(f"await#{idx}:disposables-enter", [("entered", True), ("failed", True), ("cancelled", True)])
            if j == 0:
                r = st.sym_ref("disposables_state", "list")
                st.assume(st.get(r, "$lo") <= st.get(r, "$hi"))
                g["disp_state"] = r
                return r
            g["disp_enter_failed"] = True
            if j == 1:
                e = it.fresh_exception("disposables.enter.exc")
                self.raised.append(("disposables-enter", e, False))
                raise PyRaise(e, "disposables failed to enter")
            e = it.new_exc("CancelledError")
            self.raised.append(("disposables-enter", e, True))
            raise PyRaise(e, "cancelled while entering disposables")
        if aw.kind == "disp-exit":
            g["disp_exited"] = g.get("disp_exited", 0) + 1
            g["disp_exit_args"] = aw.data["args"]
            j = st.fork(f"await#{idx}:disposables-exit", [("exited", True), ("failed", True), ("cancelled", True)])
            if j == 0:
                return V.VNone
            if j == 1:
                e = it.fresh_exception("disposables.exit.exc")
                self.raised.append(("disposables-exit", e, False))
                raise PyRaise(e, "disposables cleanup failed")
            e = it.new_exc("CancelledError")
            self.raised.append(("disposables-exit", e, True))
            raise PyRaise(e, "cancelled while exiting disposables")
        if aw.kind == "tg-exit":
            # tasks spawned into this scope's group run with this scope's metrics as their innermost scope: it
            # must stay open (not finished) until the group has been awaited, else their records are dropped
            # (C10) and the scope completes while its own tasks still run (C09)
            open_ = z3.BoolVal(not any(e[0] == "metrics" and e[1].endswith("_finish") for e in st.events))
            st.check("C10-P6:the-scope's-metrics-are-not-finished-before-its-task-group-has-been-awaited", open_)
            st.check("C09-P8:the-scope-is-not-finished-before-its-task-group-has-been-awaited", open_)
            try:
                return it.engine.default_await(it, aw, idx, node)
            except PyRaise as pr:
                lab = st.labels[-1]
                foreign_cancel = lab.endswith(("cancelled-while-waiting", "cancelled-while-waiting+member-failed",
                                               "earlier-request-delivered-while-waiting"))
                self.raised.append(("taskgroup-exit", pr.val, foreign_cancel))
                raise
        return NotImplemented

    def cancel_during_taskgroup_exit(self, it) -> bool:
        return True

    def current_task(self, it):
        """The task running the block: an object with a counter of pending cancellation requests."""
        st = it.st
        t = st.ghost.get("$scope_task")
        if t is None:
            t = st.sym_ref("running_task", "Task")
            n = st.fresh("cancelling0", I)
            st.assume(n >= 0)
            st.put(t, "$cancelling", V.VInt(n))
            st.ghost["$scope_task"] = t
        return t

    # ---------------------------------------------------------------------------------- objects
    def build(self, it):
        st = it.st
        self.raised = []
        self.sinfo = repo_class(it, ACCESS, "ScopeContext")
        tg_info = repo_class(it, "context/tasks.py", "TaskGroupContext")
        m_info = repo_class(it, "context/metrics.py", "MetricsContext")
        sm_info = repo_class(it, "context/metrics.py", "ScopeMetrics")
        d_info = repo_class(it, "context/disposables.py", "Disposables")
        self.cv = self.cvs(it)
        # --- creation: the real ScopeContext.__init__ runs in whatever context `ctx.scope(...)` was called in
        mc = st.alloc(m_info.cid)
        metrics = st.sym_ref("scope_metrics", sm_info.cid)
        st.put(metrics, "_finished", it.mk_bool(False))
        st.put(mc, "_metrics", metrics)
        st.put(mc, "_token", V.VNone)
        self.mc = self._mc_prebuilt = mc
        state = sym_tuple(it, "state")
        if self.is_async and st.fork("disposables", [("none", True), ("some", True)]) == 1:
            d = st.sym_ref("disposables", d_info.cid)
            self.disp = d
        else:
            d = V.VNone
            self.disp = None
        obj = it.instantiate(self.sinfo.cid, CallArgs(kw=dict(
            trace_id=st.fresh_val("trace_id"), name=V.VStr(st.fresh("name", I)), logger=st.fresh_val("logger"),
            state=state, disposables=d, completion=st.fresh_val("completion"))))
        self.obj = obj
        # nested scopes are registered under the scope that is current when the scope *object* is made (MetricsContext.scope
        # reads the metrics variable and registers the new ScopeMetrics under what it finds, C09 Init): done by __init__ itself,
        # not put off until the block is entered - by then another scope may be current, or the intended parent left
        st.check("C09-P1:the-scopes-metrics-are-made-(registered-under-the-current-scope)-exactly-once-when-the-scope-object-is-created",
                 z3.BoolVal(getattr(self, "_mc_calls", 0) == 1), note=f"MetricsContext.scope calls during __init__: {getattr(self, '_mc_calls', 0)}")
        self.tgc = st.get(obj, "_task_group_context")
        # --- a scope object may be entered somewhere else than where it was created (prepared scopes, ctx.stream):
        # the three variables hold arbitrary other values when the block is entered
        for k, var in self.cv.items():
            st.put(var, "$cvset", V.VBool(st.fresh(f"entry_{k}_set", z3.BoolSort())))
            st.put(var, "$cvval", st.fresh_val(f"entry_{k}"))
        self.snap0 = {k: cv_snapshot(it, v) for k, v in self.cv.items()}

    def the_group(self, it):
        """The asyncio TaskGroup created for this scope (whatever object keeps it)."""
        tgs = it.st.ghost.get("$taskgroups", [])
        return tgs[0] if tgs else None

    def spawn_probe(self, it):
        """Where would ctx.spawn put a task right now?  Runs the real TaskGroupContext.run."""
        st = it.st
        tinfo = repo_class(it, "context/tasks.py", "TaskGroupContext")
        f = it.class_attr(tinfo, "run", V.VCls(z3.IntVal(tinfo.cid)))
        fn = st.reg_fun(OracleV("probe_function", is_async=True))
        n0 = len(st.ghost.get("$tasks", []))
        st.ghost["$tg_probe"] = True
        try:
            it.call(f, CallArgs([fn]))
        except PyRaise:
            return None
        finally:
            st.ghost["$tg_probe"] = False
        tasks = st.ghost.get("$tasks", [])
        if len(tasks) != n0 + 1:
            return None
        t = tasks.pop()
        return t

    def spawns_into(self, it, tg):
        t = self.spawn_probe(it)
        if t is None or tg is None or t["via"] is None:
            return z3.BoolVal(False)
        return z3.And(z3.BoolVal(t["name"] == "TaskGroup.create_task"), t["via"] == tg)

    def inside_block_checks(self, it):
        """What holds right after a scope was entered (sync or async): its state and metrics are current, and the
        scope state was built once from exactly the given state (followed by the disposables' state)."""
        st = it.st
        g = st.ghost
        st.check("C02-P0:state-and-metrics-of-the-scope-are-current-inside-the-block",
                 z3.And(L.cv_is_set(it, self.cv["StateContext"]), L.cv_is_set(it, self.cv["MetricsContext"]),
                        L.cv_value(it, self.cv["MetricsContext"]) == st.get(self.mc, "_metrics"),
                        L.cv_value(it, self.cv["StateContext"]) == st.get(st.get(self.obj, "_state_context"), "_state")))
        ev = [e for e in st.events if e[0] == "state-updated"]
        if len(ev) == 1:
            s_set, s_val = ev[0][2]
            e_set, e_val = self.snap0["StateContext"]
            st.check("C01-P6:the-scope-state-extends-the-state-current-where-the-block-is-entered(not-where-the-scope-object-was-made)",
                     z3.And(s_set == e_set, z3.Implies(e_set, s_val == e_val)))
        if self.disp is not None:
            st.check("C08-P5:state-yielded-by-disposables-becomes-scope-state", z3.BoolVal(len(ev) == 1))
        if len(ev) == 1 and ev[0][1] is not None:
            arr, lo, hi = lib.seq_view(it, ev[0][1])
            sarr, slo, shi = lib.seq_view(it, st.get(self.obj, "_state"))
            i = st.fresh("i", I)
            if self.disp is None:
                st.check("C01-P6:the-scope-state-is-built-from-exactly-the-given-state",
                         z3.And(hi - lo == shi - slo,
                                z3.Implies(z3.And(0 <= i, i < shi - slo), z3.Select(arr, lo + i) == z3.Select(sarr, slo + i))))
            else:
                darr, dlo, dhi = lib.seq_view(it, g["disp_state"])
                st.check("C01-P6:the-scope-state-is-the-given-state-followed-by-the-disposables-state(in-order)",
                         z3.And(hi - lo == (shi - slo) + (dhi - dlo),
                                z3.Implies(z3.And(0 <= i, i < shi - slo), z3.Select(arr, lo + i) == z3.Select(sarr, slo + i)),
                                z3.Implies(z3.And(0 <= i, i < dhi - dlo),
                                           z3.Select(arr, lo + (shi - slo) + i) == z3.Select(darr, dlo + i))))
        else:
            st.check("C01-P6:the-scope-state-is-built-once-from-the-given-state", z3.BoolVal(False))

    def vars_restored(self, it, tag, prop="C02"):
        for k, var in self.cv.items():
            it.st.check(f"{prop}-{tag}:{k}-variable-is-what-it-was-before-the-block", cv_same(it, var, self.snap0[k]))

    def body_exc(self, it):
        """Arbitrary outcome of the body: (None, None, None) or the details of an exception object."""
        st = it.st
        if st.fork("body", [("returns", True), ("raises", True)]) == 0:
            return V.VNone, V.VNone, V.VNone
        e = it.fresh_exception("body.exc")
        return V.VCls(V.class_of(V.addr(e))), e, lib.tb_of(e)


class AsyncScope(_Scope):
    file, func, name = ACCESS, "ScopeContext.__aexit__", "C02/access:ScopeContext.__aenter__+__aexit__"

    def run(self, it):
        st = it.st
        st.contract = self
        node, mod, chain = it.engine.repo.find(self.file, self.func)
        self.node, self.module = node, mod
        it.engine.repo.find(ACCESS, "ScopeContext.__aenter__")
        self.build(it)
        g = st.ghost
        # ------------------------------------------------------------------ enter
        try:
            it.run_function(method(it, self.sinfo, self.obj, "__aenter__"), CallArgs())
        except PyRaise as pr:
            st.labels.append("enter:raise")
            self.vars_restored(it, "P2:enter-failed")
            tg = self.the_group(it)
            entered = V.bval(st.get(tg, "$tg_entered"))
            st.check("C02-P2:enter-failed:task-group-does-not-stay-entered",
                     z3.Implies(entered, V.bval(st.get(tg, "$tg_exited"))))
            st.check("C06-P2:enter-failed:task-group-was-awaited-before-leaving",
                     z3.Implies(entered, V.bval(st.get(tg, "$tg_exited"))))
            tge0 = [e for e in st.events if e[0] == "tg-exit"]
            if any(c for _, _, c in self.raised):
                st.check("C07-P5:enter-cancelled:the-task-group-is-exited-so-spawned-tasks-are-cancelled(T-TG)",
                         z3.Implies(entered, V.bval(st.get(tg, "$tg_exited"))))
                # T-TG aborts the members only when the group is left *with an exception*
                st.check("C07-P5:enter-cancelled:the-task-group-is-left-with-the-failure(tasks-spawned-while-entering-are-cancelled,-not-awaited)",
                         z3.BoolVal(len(tge0) == 1) if len(tge0) != 1 else z3.Not(V.is_none(tge0[0][2])))
            st.check("C06-P2:enter-failed:the-task-group-is-left-with-the-failure(tasks-spawned-while-entering-do-not-keep-the-scope-open)",
                     z3.BoolVal(len(tge0) == 1) if len(tge0) != 1 else z3.Not(V.is_none(tge0[0][2])))
            st.check("C07-P2:enter:a-cancellation-is-not-swallowed",
                     z3.BoolVal(True) if not any(c for _, _, c in self.raised) else is_exc(it, pr.val, "CancelledError"))
            # the scope's metrics were registered under the enclosing scope when the object was made: a block that failed to
            # enter has been left for good, so they are finished (once) - otherwise no enclosing scope ever completes
            fin0 = [e for e in st.events if e[0] == "metrics" and e[1].endswith("_finish")]
            st.check("C09-P9:enter-failed:the-scope's-metrics-are-finished-exactly-once(the-enclosing-scopes-can-still-complete)",
                     z3.BoolVal(len(fin0) == 1))
            st.check("C08-P5:enter:disposables-entered-at-most-once", z3.BoolVal(g.get("disp_entered", 0) <= 1))
            st.check("canary", z3.BoolVal(False), kind="canary")
            return
        st.labels.append("enter:return")
        st.check("C08-P5:disposables-entered-exactly-once-before-the-body",
                 z3.BoolVal(g.get("disp_entered", 0) == (1 if self.disp is not None else 0)))
        tg = self.the_group(it)
        st.check("C06-P3:group-entered-and-current-inside-the-block(a-spawn-goes-into-this-scope's-group)",
                 z3.And(V.bval(st.get(tg, "$tg_entered")), self.spawns_into(it, tg)))
        self.inside_block_checks(it)
        # ------------------------------------------------------------------ body (abstracted), exit
        self.raised = []
        et, ev_, tb = self.body_exc(it)
        self.exc_details = (et, ev_, tb)
        try:
            ret = it.run_function(method(it, self.sinfo, self.obj, "__aexit__"), CallArgs([et, ev_, tb]))
        except PyRaise as pr:
            st.labels.append("exit:raise")
            self.after_exit(it, None, pr.val)
            st.check("canary", z3.BoolVal(False), kind="canary")
            return
        st.labels.append("exit:return")
        self.after_exit(it, ret, None)
        st.check("canary", z3.BoolVal(False), kind="canary")

    def after_exit(self, it, ret, exc):
        st = it.st
        g = st.ghost
        et, ev_, tb = self.exc_details
        self.vars_restored(it, "P1:exit")
        tg = self.the_group(it)
        st.check("C06-P2:task-group-exit-was-awaited-on-this-path", V.bval(st.get(tg, "$tg_exited")))
        tge = [e for e in st.events if e[0] == "tg-exit"]
        # the group learns how the block ended: the body's own exception details - or, when the body ended normally and the
        # task was cancelled while the disposables were exiting, that cancellation (either way T-TG aborts the members)
        dcancel = [r[1] for r in self.raised if r[0] == "disposables-exit"]       # (a cleanup may itself raise a CancelledError)
        same_as_body = z3.BoolVal(False) if len(tge) != 1 else z3.And(tge[0][2] == et, tge[0][3] == ev_, tge[0][4] == tb)
        disposing_cancel = z3.BoolVal(False) if (len(tge) != 1 or not dcancel) else \
            z3.And(V.is_none(ev_), tge[0][3] == dcancel[0], is_exc(it, dcancel[0], "CancelledError"), z3.Not(V.is_none(tge[0][2])))
        st.check("C06-P2:task-group-received-the-body-exception-details",
                 z3.BoolVal(len(tge) == 1) if len(tge) != 1 else z3.Or(same_as_body, disposing_cancel))
        if self.disp is not None:
            st.check("C08-P5:disposables-exited-exactly-once-after-the-body", z3.BoolVal(g.get("disp_exited", 0) == 1))
            a = g.get("disp_exit_args")
            st.check("C08-P5:disposables-receive-the-body-exception-details",
                     z3.BoolVal(a is not None) if a is None else z3.And(a[0] == et, a[1] == ev_, a[2] == tb))
        fin = [e for e in st.events if e[0] == "metrics" and e[1].endswith("_finish")]
        st.check("C02-P1:metrics-scope-is-finished-on-this-path", z3.BoolVal(len(fin) == 1))
        cleanup_failed = [r for r in self.raised]
        cancels = [r for r in self.raised if r[2]]
        if cancels or (it.kind(ev_) == "ref"):
            st.check("C07-P5:exit:the-task-group-is-exited-with-the-failure-so-spawned-tasks-are-cancelled(T-TG)",
                     z3.And(V.bval(st.get(tg, "$tg_exited")),
                            z3.BoolVal(len(tge) == 1) if len(tge) != 1 else
                            z3.If(V.is_none(ev_), z3.BoolVal(True), tge[0][3] == ev_)))
        if any(r[0] == "disposables-exit" and r[2] for r in self.raised):
            # the victim was cancelled while the disposables were exiting: "the tasks it spawned in those scopes are cancelled
            # too" - by T-TG the group aborts its members only when it is left with an exception
            st.check("C07-P5:exit:a-cancellation-during-disposing-leaves-the-task-group-with-a-failure(spawned-tasks-are-cancelled,-not-awaited-to-completion)",
                     z3.BoolVal(len(tge) == 1) if len(tge) != 1 else z3.Not(V.is_none(tge[0][2])))
        if exc is None:
            st.check("C02-P3:does-not-suppress-the-body-exception", z3.Not(it.truthy(ret)))
            st.check("C08-P4:a-disposable-cleanup-error-is-not-dropped-by-the-scope",
                     z3.BoolVal(not any(r[0] == "disposables-exit" for r in self.raised)))
            st.check("C07-P2:exit:a-cancellation-that-arrived-during-exit-is-not-swallowed",
                     z3.BoolVal(not cancels))
        else:
            st.check("C02-P3:exit-raises-only-when-a-cleanup-step-failed", z3.BoolVal(bool(cleanup_failed)))
            if cancels:
                st.check("C07-P2:exit:a-cancellation-that-arrived-during-exit-propagates",
                         is_exc(it, exc, "CancelledError"))


class SyncScope(_Scope):
    file, func, name = ACCESS, "ScopeContext.__exit__", "C02/access:ScopeContext.__enter__+__exit__"
    is_async = False

    def run(self, it):
        st = it.st
        st.contract = self
        node, mod, chain = it.engine.repo.find(self.file, self.func)
        self.node, self.module = node, mod
        self.build(it)
        try:
            it.run_function(method(it, self.sinfo, self.obj, "__enter__"), CallArgs())
        except PyRaise as pr:
            st.labels.append("enter:raise")
            self.vars_restored(it, "P4:enter-failed")
            st.check("C02-P4:sync-enter-fails-only-on-its-own-assertions", is_exc(it, pr.val, "AssertionError"))
            st.check("canary", z3.BoolVal(False), kind="canary")
            return
        st.labels.append("enter:return")
        st.check("C06-P4:sync-scopes-never-touch-the-task-group-variable",
                 cv_same(it, self.cv["TaskGroupContext"], self.snap0["TaskGroupContext"]))
        self.inside_block_checks(it)
        et, ev_, tb = self.body_exc(it)
        try:
            ret = it.run_function(method(it, self.sinfo, self.obj, "__exit__"), CallArgs([et, ev_, tb]))
        except PyRaise as pr:
            st.labels.append("exit:raise")
            self.vars_restored(it, "P4:exit")
            st.check("C02-P4:sync-exit-never-raises", z3.BoolVal(False))
            return
        st.labels.append("exit:return")
        self.vars_restored(it, "P4:exit")
        fin = [e for e in st.events if e[0] == "metrics" and e[1].endswith("_finish")]
        st.check("C02-P1:metrics-scope-is-finished-on-this-path", z3.BoolVal(len(fin) == 1))
        st.check("C09-P8:a-sync-scope-finishes-its-metrics-exactly-once-when-left", z3.BoolVal(len(fin) == 1))
        st.check("C02-P3:does-not-suppress-the-body-exception", z3.Not(it.truthy(ret)))
        st.check("C06-P4:sync-scopes-never-touch-the-task-group-variable",
                 cv_same(it, self.cv["TaskGroupContext"], self.snap0["TaskGroupContext"]))
        st.check("canary", z3.BoolVal(False), kind="canary")


class _ReEnter(_Scope):
    """A scope object that was entered before (left since, or still active: re-entered from inside its own block) is refused
    when entered again, and the refusal happens before anything changed: the surrounding code keeps its state, metrics scope
    and task group (C02), no task group is left installed for later spawns (C06) and no disposable is entered again (C08).
    The history is imposed on the object built by the real `__init__`: its task group(s) have been entered (T-TG: single
    use), its metrics are finished / its tokens are taken."""

    def run(self, it):
        st = it.st
        st.contract = self
        it.engine.repo.find(self.file, self.func)
        self.build(it)
        g = st.ghost
        metrics = st.get(self.mc, "_metrics")
        groups = list(g.get("$taskgroups", []))
        token = st.sym_ref("token_of_the_first_entering", "Token")
        h = st.fork("history", [("used-and-left", True), ("still-active(re-entered-from-inside)", True),
                                ("used-and-left-through-the-synchronous-protocol", True)])
        if h == 0:
            st.put(metrics, "_finished", it.mk_bool(True))
            for tg in groups:
                st.put(tg, "$tg_entered", it.mk_bool(True))
                st.put(tg, "$tg_exited", it.mk_bool(True))
        elif h == 2:
            # `with scope:` ... later `async with scope:` - the first use never touched the task group (T-TG gives no refusal)
            if self.disp is not None:
                raise PathEnd("a scope with disposables cannot have been used synchronously")
            st.put(metrics, "_finished", it.mk_bool(True))
        else:
            st.put(self.mc, "_token", token)
            for tg in groups:
                st.put(tg, "$tg_entered", it.mk_bool(True))
            tgc = st.get(self.obj, "_task_group_context")
            if it.kind(tgc) == "ref" and self.is_async:      # (a tree that builds it later has nothing to mark here)
                st.put(tgc, "_token", token)
        n_groups = len(groups)
        try:
            it.run_function(method(it, self.sinfo, self.obj, "__aenter__" if self.is_async else "__enter__"), CallArgs())
        except PyRaise as pr:
            st.labels.append("re-enter:refused")
            self.vars_restored(it, "P5:re-entering-a-used-scope-object-is-refused-before-anything-changes")
            st.check("C08-P5:re-entering-a-used-scope-object-enters-no-disposable-again", z3.BoolVal(g.get("disp_entered", 0) == 0))
            new = [tg for tg in g.get("$taskgroups", [])[n_groups:]]
            st.check("C06-P5:re-entering-a-used-scope-object-leaves-no-new-task-group-entered",
                     z3.And([z3.Implies(V.bval(st.get(tg, "$tg_entered")), V.bval(st.get(tg, "$tg_exited"))) for tg in new])
                     if new else z3.BoolVal(True))
            st.check("C06-P5:re-entering-a-used-scope-object-leaves-the-task-group-variable-alone",
                     cv_same(it, self.cv["TaskGroupContext"], self.snap0["TaskGroupContext"]))
            st.check("canary", z3.BoolVal(False), kind="canary")
            return
        st.labels.append("re-enter:accepted")
        st.check("C02-P5:a-scope-object-is-entered-at-most-once(entering-it-again-is-refused)", z3.BoolVal(False))
        st.check("canary", z3.BoolVal(False), kind="canary")


class ReEnterAsync(_ReEnter):
    file, func, name = ACCESS, "ScopeContext.__aenter__", "C02/access:ScopeContext.__aenter__(re-entering)"


class ReEnterSync(_ReEnter):
    file, func, name = ACCESS, "ScopeContext.__enter__", "C02/access:ScopeContext.__enter__(re-entering)"
    is_async = False


class StateBlock(_Scope):
    """`with ctx.updated(...)`: StateContext.__enter__ / __exit__ around an abstracted body."""
    file, func, name = "context/state.py", "StateContext.__exit__", "C02/state:StateContext.__enter__+__exit__"
    is_async = False

    def run(self, it):
        st = it.st
        st.contract = self
        node, mod, chain = it.engine.repo.find(self.file, self.func)
        self.raised = []
        self.cv = self.cvs(it)
        self.snap0 = {k: cv_snapshot(it, v) for k, v in self.cv.items()}
        info = repo_class(it, "context/state.py", "StateContext")
        scope_state = st.fresh_val("scope_state")
        obj = it.instantiate(info.cid, CallArgs(kw={"state": scope_state}))
        try:
            it.run_function(method(it, info, obj, "__enter__"), CallArgs())
            st.check("C02-P0:the-block-sees-its-own-state",
                     z3.And(L.cv_is_set(it, self.cv["StateContext"]), L.cv_value(it, self.cv["StateContext"]) == scope_state))
            et, ev_, tb = self.body_exc(it)
            ret = it.run_function(method(it, info, obj, "__exit__"), CallArgs([et, ev_, tb]))
        except PyRaise as pr:
            st.check("C02-P4:state-block-enter/exit-never-raise", z3.BoolVal(False))
            return
        self.vars_restored(it, "P4:state-block")
        st.check("C02-P3:does-not-suppress-the-body-exception", z3.Not(it.truthy(ret)))
        st.check("C06-P4:state-updates-never-touch-the-task-group-variable",
                 cv_same(it, self.cv["TaskGroupContext"], self.snap0["TaskGroupContext"]))
        st.check("canary", z3.BoolVal(False), kind="canary")


class TaskGroupExit(_Scope):
    """TaskGroupContext.__aexit__ alone: which TaskGroup outcomes are silenced (C07-P1)."""
    file, func, name = "context/tasks.py", "TaskGroupContext.__aexit__", "C02/tasks:TaskGroupContext.__aenter__+__aexit__"

    def run(self, it):
        st = it.st
        st.contract = self
        node, mod, chain = it.engine.repo.find(self.file, self.func)
        self.raised = []
        self.cv = self.cvs(it)
        self.snap0 = {k: cv_snapshot(it, v) for k, v in self.cv.items()}
        info = repo_class(it, "context/tasks.py", "TaskGroupContext")
        obj = it.instantiate(info.cid, CallArgs())
        self.tgc = obj
        try:
            it.run_function(method(it, info, obj, "__aenter__"), CallArgs())
        except PyRaise:
            st.check("C02-P2:task-group-enter-never-raises", z3.BoolVal(False))
            return
        et, ev_, tb = self.body_exc(it)
        try:
            ret = it.run_function(method(it, info, obj, "__aexit__"), CallArgs([et, ev_, tb]))
        except PyRaise as pr:
            st.labels.append("exit:raise")
            self.vars_restored(it, "P1:task-group-exit")
            st.check("C07-P1:only-a-cancellation-that-is-not-the-bodys-own-escapes-the-task-group-exit",
                     z3.And(is_exc(it, pr.val, "CancelledError"), pr.val != ev_))
            st.check("C02-P3:only-a-foreign-cancellation-escapes-the-task-group-exit(task-errors-never-replace-the-bodys-outcome)",
                     z3.And(is_exc(it, pr.val, "CancelledError"), pr.val != ev_))
            st.check("canary", z3.BoolVal(False), kind="canary")
            return
        st.labels.append("exit:return")
        self.vars_restored(it, "P1:task-group-exit")
        cancels = [r for r in self.raised if r[2]]
        st.check("C07-P1:a-cancellation-that-arrived-while-waiting-for-spawned-tasks-is-not-silenced",
                 z3.BoolVal(not cancels))
        st.check("C02-P3:does-not-suppress-the-body-exception", z3.Not(it.truthy(ret)))
        st.check("canary", z3.BoolVal(False), kind="canary")


def variant(base, prop: str, prefixes):
    """`base` re-used as a contract of `prop`, keeping the obligations whose name starts with one of `prefixes`
    (or, when `prefixes` is callable, those it accepts)."""
    keep = (lambda n, p=prefixes: p(n) or n == "canary") if callable(prefixes) else \
        (lambda n, p=prefixes: n.startswith(p) or n == "canary")
    return type(prop + base.__name__, (base,), dict(
        name=prop + "/" + base.name.split("/", 1)[1], props=(prop,), keep=staticmethod(keep)))()


C02_PREFIX = ("C02-",)
CONTRACTS = [variant(AsyncScope, "C02", C02_PREFIX), variant(SyncScope, "C02", C02_PREFIX),
             variant(StateBlock, "C02", C02_PREFIX), variant(TaskGroupExit, "C02", C02_PREFIX),
             variant(ReEnterAsync, "C02", C02_PREFIX), variant(ReEnterSync, "C02", C02_PREFIX)]


def _metrics_exit_never_raises(prop):
    """Every scope scenario treats `ScopeMetrics._finish` (called when a block is left) as a callee that never raises - an
    exception there would replace the body's outcome and skip the restoring of the state variable.  That is the completion
    protocol of C09 (a finished scope completes exactly when all scopes nested under it, at any depth, are completed; an
    ancestor is completed at most once): its contracts are re-checked under every property that leans on it."""
    from .C09 import CompleteIfAble, Finish, Init
    # (Init: a scope made under an already completed scope is detached from it - otherwise its exit notifies a completed parent)
    return [variant(CompleteIfAble, prop, ("",)), variant(Finish, prop, ("",)), variant(Init, prop, ("",))]


def extra_contracts():
    """Borrowed late (contracts/C08.py imports this module): the scope scenarios treat `Disposables.__aenter__` as a callee
    that leaves the caller's context variables alone - which holds because every disposable is entered in a gather child, a
    task with its own copy of the context (T-GATHER, T-CV)."""
    from .C08 import Enter, Exit
    from .C01 import Lookup, Updated
    # ... and `Disposables.__aexit__` as a callee that returns nothing truthy (it can never make the scope swallow the body's
    # exception): its own clause P4
    # ... and the scope state object as immutable: a block that supplies nothing shares the very ScopeState object of the code
    # around it (`ScopeState.updated` returns `self` for an empty update), and resetting a token restores the *object* - what
    # the surrounding code sees afterwards is what that object holds then.  Lookups and updates must not write to it.
    return [variant(Enter, "C02", ("P6:",)), variant(Exit, "C02", ("P4:never-suppresses",)),
            variant(Lookup, "C02", lambda n: "(frame" in n), variant(Updated, "C02", lambda n: "(frame" in n)] + \
        _metrics_exit_never_raises("C02")
