"""C06 - structured concurrency: spawned tasks never outlive their scope.

C06-P1  context/tasks.py::TaskGroupContext.run and context/access.py::ctx.spawn: inside a scope the
        task is created by the *current group's* create_task (so T-TG makes the scope wait for it /
        cancel it); outside any scope (LookupError) it is created detached by the event loop.
C06-P2/P3/P4 live in the scope scenarios of C02.py (task group awaited on every exit path with the
        body's exception details; group current inside the block and while disposables are entered;
        sync scopes and state updates never touch the group variable).
Termination of the exit is T-TG + "tasks react to cancellation": assumed, not proved.
"""
from __future__ import annotations

import z3

from .common import *
from .C02 import AsyncScope, SyncScope, StateBlock, TaskGroupExit, variant, _Scope
from pyvc import lib as L


class Run(_Scope):
    file, func, name = "context/tasks.py", "TaskGroupContext.run", "C06/tasks:TaskGroupContext.run"
    props = ("C06", "C03")
    via_ctx = False

    def run(self, it):
        st = it.st
        st.contract = self
        node, mod, chain = it.engine.repo.find(self.file, self.func)
        self.raised = []
        self.cv = self.cvs(it)
        tinfo = repo_class(it, "context/tasks.py", "TaskGroupContext")
        var = self.cv["TaskGroupContext"]
        grp = L.cv_value(it, var)
        in_scope = st.fork("where", [("inside-a-scope", L.cv_is_set(it, var)), ("outside-any-scope", z3.Not(L.cv_is_set(it, var)))]) == 0
        if in_scope:
            st.assume(z3.And(V.is_ref(grp), V.addr(grp) >= 0, V.addr(grp) < 1_000_000))
            st.declare_class(grp, "TaskGroup")
        fn = st.reg_fun(OracleV("function", is_async=True))
        args, kwargs = sym_tuple(it, "args"), st.sym_ref("kwargs", "dict")
        try:
            if self.via_ctx:
                cinfo = repo_class(it, "context/access.py", "ctx")
                f = it.class_attr(cinfo, "spawn", V.VCls(z3.IntVal(cinfo.cid)))
                ret = it.call(f, CallArgs([fn], star=args, starstar=kwargs))
            else:
                f = it.class_attr(tinfo, "run", V.VCls(z3.IntVal(tinfo.cid)))
                ret = it.call(f, CallArgs([fn], star=args, starstar=kwargs))
        except PyRaise as pr:
            refused = st.ghost.get("$tg_refused", 0)
            st.check("C06-P1:spawning-fails-only-when-the-current-group-refuses-the-task",
                     z3.And(z3.BoolVal(in_scope and refused == 1), is_exc(it, pr.val, "RuntimeError")))
            st.check("C06-P1:a-refused-spawn-creates-no-task-outside-the-group",
                     z3.BoolVal(not st.ghost.get("$tasks", [])))
            st.check("canary", z3.BoolVal(False), kind="canary")
            return
        tasks = st.ghost.get("$tasks", [])
        st.check("C06-P1:exactly-one-task-is-created-and-returned",
                 z3.BoolVal(len(tasks) == 1) if len(tasks) != 1 else ret == tasks[0]["task"])
        if len(tasks) != 1:
            return
        t = tasks[0]
        coro = st.fun_of(t["coro"]) if t["coro"] is not None else None
        ok = isinstance(coro, AwaitableV) and coro.kind == "oracle" and coro.data["fterm"].eq(fn)
        if ok:
            ca = coro.data["cargs"]
            ok = ca.star is not None and ca.star.eq(args) and ca.starstar is not None and ca.starstar.eq(kwargs) \
                and not ca.pos and not ca.kw
        st.check("C06-P1:the-task-runs-the-given-function-with-the-given-arguments", z3.BoolVal(bool(ok)))
        if in_scope:
            st.check("C06-P1:inside-a-scope-the-task-belongs-to-the-current-task-group",
                     z3.BoolVal(t["name"] == "TaskGroup.create_task") if t["via"] is None else
                     z3.And(z3.BoolVal(t["name"] == "TaskGroup.create_task"), t["via"] == grp))
        else:
            st.check("C06-P1:outside-any-scope-the-task-is-detached-on-the-event-loop",
                     z3.BoolVal(t["name"] == "EventLoop.create_task"))
        # C03-P1: the task starts from a snapshot of the spawner's context taken at the spawn point
        ctxs = [e for e in st.events if e[0] == "copy_context"]
        given = t["context"]
        st.check("C03-P1:task-context-is-a-snapshot-taken-at-the-spawn-point",
                 z3.BoolVal(True) if (given is None or it.kind(given) == "none") else
                 z3.BoolVal(bool(ctxs) and any(given.eq(c[1]) for c in ctxs)))
        st.check("canary", z3.BoolVal(False), kind="canary")


class Spawn(Run):
    file, func, name = "context/access.py", "ctx.spawn", "C06/access:ctx.spawn"
    via_ctx = True


P = ("C06-",)
# where a spawn goes is decided by the task-group variable: after a block - however it ended - it is the enclosing scope's group
# again (or unset outside every scope, where a spawn yields a detached task)
_c06 = lambda n: n.startswith("C06-") or "TaskGroupContext-variable-is-what-it-was" in n      # noqa: E731
from .C02 import TaskGroupExit as _TaskGroupExit, ReEnterAsync as _ReEnterAsync      # noqa: E402

CONTRACTS = [variant(Run, "C06", P), variant(Spawn, "C06", P), variant(AsyncScope, "C06", _c06),
             variant(SyncScope, "C06", _c06), variant(StateBlock, "C06", _c06), variant(_TaskGroupExit, "C06", _c06),
             variant(_ReEnterAsync, "C06", _c06)]


def extra_contracts():
    """A context stream is an asynchronous scope too: what its source spawns must belong to the stream's own task group."""
    from .C11 import StreamBody
    from .C08 import Exit
    # ... and "if the body fails or is cancelled the remaining spawned tasks are cancelled rather than awaited indefinitely"
    # also when the cancellation arrives while the disposables are exiting: the scope recognises it by its class, so the
    # disposables' exit must answer it with CancelledError itself, not with a group wrapping it
    # ... and "cancelled rather than awaited indefinitely" for tasks blocked on the library's own suspension primitive, the
    # AsyncQueue: a cancelled receive ends cancelled (C17-P2), it never returns normally
    from .C17 import Next
    return [variant(StreamBody, "C06", ("C06-P6",)), variant(Exit, "C06", ("P4:a-cancelled-exit-raises-CancelledError",)),
            variant(Next, "C06", ("P2:a-cancelled-receive", "P2:cancelled-receive"))]
