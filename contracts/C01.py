"""C01 - scope state lookup follows lexical nesting (innermost supplier wins).

Functions under contract: context/state.py::ScopeState.__init__/state/updated,
StateContext.current/updated, context/access.py::ctx.state/ctx.updated; the order in which
ScopeContext.__aenter__ merges (*state, *disposables' state) is clause C01-P6 of the scope scenario
in C02.py.

Ghost: view(s) = the dict of a ScopeState read as the partial map Type -> Instance of *supplied*
state; last_of(xs, T) = the last element of xs whose exact type is T (witnessed by an index).
Object invariant of ScopeState: every stored value's exact type is its key.
The nesting statement is the fold of P2 (`updated` = parent view overridden by last_of(new, .)) over
the enclosing blocks; P5 (C02) restores the previous level on exit.
"""
from __future__ import annotations

import z3

from .common import *
from .C02 import _Scope, AsyncScope, SyncScope, variant
from pyvc.state import QFact
from pyvc.lib import dict_parts
from pyvc import lib as L

FILE = "context/state.py"


def tyof(it, v):
    return V.VCls(V.type_of(v, it.ct))


class _S(Contract):
    props = ("C01", "C03")
    trusted = ("T-COLL (dict / dict comprehension: a later equal key replaces the value; `in`, [], values())", "T-CV",
               "S8 (freeze() is a no-op)")
    assumptions = (
        "state types are classes; default construction T() either returns an instance whose exact type is T or raises an Exception",
        "object invariant of ScopeState (proved for __init__ and preserved since nothing else writes): "
        "every stored value is a State instance (an object, never None) whose exact type is its key",
    )

    def callee(self, it, fv):
        if fv.qualname == "freeze":
            return lambda it2, fv2, ca, node: V.VNone
        return None

    def sym_scope_state(self, it, name="self"):
        st = it.st
        info = repo_class(it, FILE, "ScopeState")
        self.ssinfo = info
        o = st.sym_ref(name, info.cid)
        d = st.get(o, "_state")
        st.assume(z3.And(V.is_ref(d), V.addr(d) >= 0, V.addr(d) < 1_000_000))
        st.declare_class(d, "dict")
        p = dict_parts(it, d)
        st.assume(p["lo"] <= p["hi"])
        st.assume(QFact(lambda k: z3.Implies(z3.Select(p["has"], k),
                                             z3.And(p["lo"] <= z3.Select(p["pos"], k), z3.Select(p["pos"], k) < p["hi"],
                                                    z3.Select(p["keys"], z3.Select(p["pos"], k)) == k,
                                                    V.is_cls(k), V.is_ref(z3.Select(p["val"], k)),
                                                    tyof(it, z3.Select(p["val"], k)) == k)),
                        sort=Val, pattern=lambda k: z3.Select(p["has"], k), name="ss1"))
        st.assume(QFact(lambda i: z3.Implies(z3.And(p["lo"] <= i, i < p["hi"]),
                                             z3.And(z3.Select(p["has"], z3.Select(p["keys"], i)),
                                                    z3.Select(p["pos"], z3.Select(p["keys"], i)) == i)),
                        pattern=lambda i: z3.Select(p["keys"], i), name="ss2"))
        st.hints += [p["lo"] == 0, p["hi"] <= 2]
        return o, d, p


class Init(_S):
    file, func, name = FILE, "ScopeState.__init__", "C01/state:ScopeState.__init__"

    def setup(self, it, env):
        st = it.st
        info = repo_class(it, FILE, "ScopeState")
        self.obj = st.alloc(info.cid)
        self.xs, self.arr, self.lo, self.hi = sym_seq(it, "state", "list")
        st.ghost["$in_init"] = True
        return method(it, info, self.obj, "__init__"), CallArgs([self.xs])

    def on_return(self, it, ret):
        st = it.st
        dcs = st.ghost.get("$dictcomps", [])
        d = st.get(self.obj, "_state")
        st.check("C01-P1:the-view-is-built-by-one-pass-over-the-given-state",
                 z3.BoolVal(len(dcs) == 1) if len(dcs) != 1 else
                 z3.And(d == dcs[0]["result"], dcs[0]["src"][0] == self.arr, dcs[0]["src"][1] == self.lo,
                        dcs[0]["src"][2] == self.hi))
        if len(dcs) == 1:
            t = st.fresh_val("element")
            st.check("C01-P1:each-instance-is-stored-under-its-exact-type(later-instances-of-a-type-win)",
                     z3.And(dcs[0]["K"](t) == tyof(it, t), dcs[0]["V"](t) == t))

    def on_raise(self, it, exc):
        it.st.check("C01-P1:construction-never-raises", z3.BoolVal(False))


class Lookup(_S):
    file, func, name = FILE, "ScopeState.state", "C01/state:ScopeState.state"

    def setup(self, it, env):
        st = it.st
        o, d, p = self.sym_scope_state(it)
        self.d, self.p0 = d, p
        c = st.fresh("T", I)
        self.T = V.VCls(c)
        self.default = st.fresh_val("default")
        st.assume(z3.Or(V.is_none(self.default), z3.And(V.is_ref(self.default), V.addr(self.default) >= 0,
                                                         V.addr(self.default) < 1_000_000)))
        self.constructed = None
        self.ctor_failed = None
        st.instantiate_at(self.T)
        return method(it, self.ssinfo, o, "state"), CallArgs([self.T], {"default": self.default})

    def call_unknown(self, it, f, cargs, node):
        st = it.st
        if f.eq(self.T):
            if cargs.pos or cargs.kw or cargs.star is not None:
                raise Unsupported("default construction with arguments")
            if st.fork("T()", [("constructs", True), ("raises", True)]) == 0:
                r = st.alloc_symbolic = None
                a = st.fresh("constructed", I)
                st.assume(z3.And(a >= 3_000_000, a < 4_000_000, V.class_of(a) == V.cid(self.T)))
                self.constructed = V.VRef(a)
                return self.constructed
            e = it.fresh_exception("ctor.exc")
            st.assume(V.subclass(V.class_of(V.addr(e)), it.ct.id("Exception")))
            self.ctor_failed = e
            raise PyRaise(e, "default construction failed")
        return None

    def frame(self, it):
        p = dict_parts(it, self.d)
        p0 = self.p0
        return z3.And(p["has"] == p0["has"], p["val"] == p0["val"], p["lo"] == p0["lo"], p["hi"] == p0["hi"],
                      p["keys"] == p0["keys"])

    def on_return(self, it, ret):
        st = it.st
        p0 = self.p0
        sup = z3.Select(p0["has"], self.T)
        st.meta.update(supplied=sup, default=self.default)
        st.check("C01-P3:a-supplied-type-is-answered-with-the-supplied-instance",
                 z3.Implies(sup, ret == z3.Select(p0["val"], self.T)))
        st.check("C01-P3:otherwise-the-explicit-default",
                 z3.Implies(z3.And(z3.Not(sup), z3.Not(V.is_none(self.default))), ret == self.default))
        st.check("C01-P3:otherwise-a-default-constructed-instance",
                 z3.Implies(z3.And(z3.Not(sup), V.is_none(self.default)),
                            z3.BoolVal(self.constructed is not None) if self.constructed is None else ret == self.constructed))
        st.check("C01-P3f:a-lookup-never-changes-what-the-scope-supplies(frame)", self.frame(it))

    def on_raise(self, it, exc):
        st = it.st
        p0 = self.p0
        sup = z3.Select(p0["has"], self.T)
        st.check("C01-P3:fails-only-when-nothing-was-supplied-no-default-given-and-construction-failed",
                 z3.And(z3.Not(sup), V.is_none(self.default), z3.BoolVal(self.ctor_failed is not None)))
        minfo = repo_class(it, "context/types.py", "MissingState")
        st.check("C01-P3:fails-with-a-missing-state-error", V.class_of(V.addr(exc)) == minfo.cid)
        st.check("C01-P3f:a-lookup-never-changes-what-the-scope-supplies(frame)", self.frame(it))


class Updated(_S):
    file, func, name = FILE, "ScopeState.updated", "C01/state:ScopeState.updated"

    def setup(self, it, env):
        st = it.st
        o, d, p = self.sym_scope_state(it)
        self.obj, self.d, self.p0 = o, d, p
        self.new = sym_tuple(it, "new_state")
        self.narr, self.nlo, self.nhi = lib.seq_view(it, self.new)
        st.hints += [self.nhi <= 2]
        return method(it, self.ssinfo, o, "updated"), CallArgs(kw={"state": self.new})

    def on_return(self, it, ret):
        st = it.st
        p0 = self.p0
        pself = dict_parts(it, self.d)
        st.check("C01-P2:the-receiver-is-left-untouched(frame,copy-on-update)",
                 z3.And(pself["has"] == p0["has"], pself["val"] == p0["val"], pself["hi"] == p0["hi"], pself["lo"] == p0["lo"]))
        n_new = self.nhi - self.nlo
        dcs = st.ghost.get("$dictcomps", [])
        if not dcs:
            st.check("C03-P3:without-new-state-the-same-scope-state-is-returned", z3.And(n_new == 0, ret == self.obj))
            return
        st.check("C03-P3:with-new-state-a-new-scope-state-object-is-returned", z3.And(n_new > 0, ret != self.obj))
        dc = dcs[-1]
        rd = st.get(ret, "_state")
        st.check("C01-P2:result-view-is-built-in-one-pass", rd == dc["result"])
        has1, val1, last = dc["has"], dc["val"], dc["last"]
        arr, lo, hi = dc["src"]
        n_old = p0["hi"] - p0["lo"]
        st.check("C01-P2:merged-sequence-is-the-old-values-followed-by-the-new-state", hi - lo == n_old + n_new)
        i = st.fresh("i", I)
        st.assume(z3.And(0 <= i, i < n_new))
        st.instantiate_at(st.simp(lo + n_old + i))
        st.check("C01-P2:new-state-comes-last-in-the-given-order",
                 z3.Select(arr, lo + n_old + i) == z3.Select(self.narr, self.nlo + i))
        T = V.VCls(st.fresh("T", I))
        st.instantiate_at(T)
        ti = z3.Select(last, T)
        st.instantiate_at(st.simp(ti))
        old_has = z3.Select(p0["has"], T)
        # position of T's value among the old values
        st.instantiate_at(st.simp(lo + (z3.Select(p0["pos"], T) - p0["lo"])))
        st.check("C01-P2:every-newly-supplied-type-is-in-the-result", z3.Select(has1, tyof(it, z3.Select(self.narr, self.nlo + i))))
        st.check("C01-P2:every-inherited-type-stays-in-the-result", z3.Implies(old_has, z3.Select(has1, T)))
        in_new = ti >= lo + n_old
        st.check("C01-P2:nothing-else-is-in-the-result", z3.Implies(z3.Select(has1, T), z3.Or(old_has, in_new)))
        st.check("C01-P2:a-type-supplied-anew-maps-to-its-last-new-instance(innermost-wins)",
                 z3.Implies(z3.And(z3.Select(has1, T), in_new),
                            z3.And(z3.Select(val1, T) == z3.Select(self.narr, self.nlo + (ti - lo - n_old)),
                                   tyof(it, z3.Select(val1, T)) == T)))
        j = st.fresh("j", I)
        st.assume(z3.And(0 <= j, j < n_new))
        st.instantiate_at(st.simp(lo + n_old + j))
        st.check("C01-P2:no-later-new-instance-of-that-type-exists",
                 z3.Implies(z3.And(z3.Select(has1, T), tyof(it, z3.Select(self.narr, self.nlo + j)) == T),
                            z3.And(in_new, j <= ti - lo - n_old)))
        st.check("C01-P2:a-type-not-supplied-anew-keeps-the-inherited-instance",
                 z3.Implies(z3.And(z3.Select(has1, T), z3.Not(in_new)),
                            z3.And(old_has, z3.Select(val1, T) == z3.Select(p0["val"], T))))

    def on_raise(self, it, exc):
        it.st.check("C01-P2:updating-never-raises", z3.BoolVal(False))


class Current(_Scope):
    """StateContext.current / ctx.state and StateContext.updated / ctx.updated: pass-through to the
    current ScopeState; LookupError of the context variable becomes MissingContext / a fresh scope."""
    file, func, name = FILE, "StateContext.current", "C01/state:StateContext.current(+ctx.state)"
    props = ("C01",)
    via_ctx = False

    def callee(self, it, fv):
        if fv.qualname == "ScopeState.state":
            def spec(it2, fv2, ca, node):
                self.calls.append((fv2.bound, ca))
                j = it2.st.fork("ScopeState.state", [("returns", True), ("raises-missing-state", True)])
                if j == 0:
                    self.inner_ret = it2.st.fresh_val("found")
                    return self.inner_ret
                minfo = repo_class(it2, "context/types.py", "MissingState")
                e = it2.st.alloc(minfo.cid)
                self.inner_exc = e
                raise PyRaise(e, "missing state")
            return spec
        return super().callee(it, fv)

    def run(self, it):
        st = it.st
        st.contract = self
        it.engine.repo.find(self.file, self.func)
        self.raised, self.calls, self.inner_ret, self.inner_exc = [], [], None, None
        self.cv = self.cvs(it)
        var = self.cv["StateContext"]
        inside = st.fork("where", [("inside-a-scope", L.cv_is_set(it, var)), ("outside-every-scope", z3.Not(L.cv_is_set(it, var)))]) == 0
        cur = L.cv_value(it, var)
        if inside:
            ssinfo = repo_class(it, FILE, "ScopeState")
            st.assume(z3.And(V.is_ref(cur), V.addr(cur) >= 0, V.addr(cur) < 1_000_000))
            st.declare_class(cur, ssinfo.cid)
        T = V.VCls(st.fresh("T", I))
        default = st.fresh_val("default")
        if self.via_ctx:
            cinfo = repo_class(it, "context/access.py", "ctx")
            f = it.class_attr(cinfo, "state", V.VCls(z3.IntVal(cinfo.cid)))
        else:
            sinfo = repo_class(it, FILE, "StateContext")
            f = it.class_attr(sinfo, "current", V.VCls(z3.IntVal(sinfo.cid)))
        try:
            ret = it.call(f, CallArgs([T], {"default": default}))
        except PyRaise as pr:
            if inside:
                st.check("C01-P4:inside-a-scope-only-the-lookup's-own-missing-state-error-escapes",
                         z3.BoolVal(self.inner_exc is not None) if self.inner_exc is None else pr.val == self.inner_exc)
            else:
                cinfo = repo_class(it, "context/types.py", "MissingContext")
                st.check("C01-P4:outside-every-scope-the-request-fails-with-a-missing-context-error",
                         V.class_of(V.addr(pr.val)) == cinfo.cid)
            st.check("canary", z3.BoolVal(False), kind="canary")
            return
        st.check("C01-P4:outside-every-scope-the-request-fails", z3.BoolVal(inside))
        ok = len(self.calls) == 1
        st.check("C01-P4:the-lookup-is-answered-by-the-current-scope-state-with-the-callers-type-and-default",
                 z3.BoolVal(ok) if not ok else
                 (lambda a: z3.BoolVal(False) if (a["state"] is None or a["default"] is None or a["$extra"])
                  else z3.And(self.calls[0][0] == cur, a["state"] == T, a["default"] == default, ret == self.inner_ret))(
                     named_args(self.calls[0][1], "state", "default")))
        st.check("canary", z3.BoolVal(False), kind="canary")


class CtxState(Current):
    file, func, name = "context/access.py", "ctx.state", "C01/access:ctx.state"
    via_ctx = True


class UpdatedCtx(_Scope):
    file, func, name = FILE, "StateContext.updated", "C01/state:StateContext.updated(+ctx.updated)"
    props = ("C01",)

    def callee(self, it, fv):
        if fv.qualname == "ScopeState.updated":
            def spec(it2, fv2, ca, node):
                self.calls.append((fv2.bound, ca))
                self.inner_ret = it2.st.fresh_val("child_state")
                return self.inner_ret
            return spec
        if fv.qualname == "StateContext.updated":
            return None
        return super().callee(it, fv)

    def instantiate(self, it, info, cargs, node):
        if info.name == "ScopeState":
            self.fresh_scope_args = cargs
            self.fresh_scope = it.st.alloc(info.cid)
            return self.fresh_scope
        return None

    def run(self, it):
        st = it.st
        st.contract = self
        it.engine.repo.find(self.file, self.func)
        self.raised, self.calls, self.inner_ret, self.fresh_scope = [], [], None, None
        self.cv = self.cvs(it)
        var = self.cv["StateContext"]
        inside = st.fork("where", [("inside-a-scope", L.cv_is_set(it, var)), ("outside-every-scope", z3.Not(L.cv_is_set(it, var)))]) == 0
        cur = L.cv_value(it, var)
        if inside:
            ssinfo = repo_class(it, FILE, "ScopeState")
            st.assume(z3.And(V.is_ref(cur), V.addr(cur) >= 0, V.addr(cur) < 1_000_000))
            st.declare_class(cur, ssinfo.cid)
        new = sym_tuple(it, "state")
        cinfo = repo_class(it, "context/access.py", "ctx")
        f = it.class_attr(cinfo, "updated", V.VCls(z3.IntVal(cinfo.cid)))
        snap = (L.cv_is_set(it, var), L.cv_value(it, var))
        try:
            ret = it.call(f, CallArgs(star=new))
        except PyRaise:
            st.check("C01-P5:building-a-state-update-never-raises", z3.BoolVal(False))
            return
        child = st.get(ret, "_state")
        st.check("C01-P5:the-update-is-not-entered-yet", z3.And(V.is_none(st.get(ret, "_token")),
                                                                 L.cv_is_set(it, var) == snap[0]))
        if inside:
            ok = len(self.calls) == 1
            st.check("C01-P5:inside-a-scope-the-new-state-extends-the-current-scope-state",
                     z3.BoolVal(ok) if not ok else
                     z3.And(self.calls[0][0] == cur, child == self.inner_ret))
            if ok:
                arg = named_args(self.calls[0][1], "state")["state"]
                a1, l1, h1 = lib.seq_view(it, arg)
                a2, l2, h2 = lib.seq_view(it, new)
                i = z3.Int("i!u")
                st.check("C01-P5:the-given-state-is-passed-in-order",
                         z3.And(h1 - l1 == h2 - l2, z3.ForAll([i], z3.Implies(z3.And(0 <= i, i < h1 - l1),
                                                                              z3.Select(a1, l1 + i) == z3.Select(a2, l2 + i)))))
        else:
            st.check("C01-P5:outside-every-scope-a-fresh-scope-state-of-just-the-given-state-is-used",
                     z3.BoolVal(self.fresh_scope is not None) if self.fresh_scope is None else child == self.fresh_scope)
        st.check("canary", z3.BoolVal(False), kind="canary")


def _from_c08(base, prefixes):
    """State supplied *through disposables* (statement of C01): the part of the Disposables contracts (C08)
    that says which state objects a scope receives from them, re-used as obligations of C01."""
    return type("C01" + base.__name__, (base,), dict(
        name=base.name.replace("C08/", "C01/"), props=("C01",),
        keep=staticmethod(lambda n, p=prefixes: n.startswith(p) or n == "canary")))()


from .C08 import Initialize as _C08Initialize, Enter as _C08Enter      # noqa: E402

P = ("C01-",)
# lookups *after* a block (and outside every scope) see what was there before it: the state variable is restored on every
# way out of a scope, and inside the block the scope's own state is current
_c01 = lambda n: n.startswith(("C01-", "C02-P0")) or "StateContext-variable-is-what-it-was" in n      # noqa: E731
_DISP = [_from_c08(_C08Initialize, ("P1:returns-none",)),
         _from_c08(_C08Enter, ("P1:one-_initialize-per-disposable", "P1:result-is-the-in-order-concatenation"))]
CONTRACTS = _DISP + [variant(Init, "C01", P), variant(Lookup, "C01", P), variant(Updated, "C01", P), Current(), CtxState(), UpdatedCtx(),
             variant(AsyncScope, "C01", _c01), variant(SyncScope, "C01", _c01)]
