"""C07 - cancellation is never swallowed by scopes; the cancellation check reports it.

Clauses living in the scope functions (ScopeContext.__aenter__/__aexit__, TaskGroupContext.__aexit__)
are the C07-* obligations of the scenarios of C02.py.  Here: ctx.check_cancellation and ctx.cancel.
"""
from __future__ import annotations

import z3

from .common import *
from .C02 import AsyncScope, TaskGroupExit, variant
from pyvc.lib import F_PENDING

ACCESS = "context/access.py"


class _Task(Contract):
    props = ("C07",)
    trusted = ("T-FUT: current_task() is None outside a task; the running task is never done() - so cancelled() is False "
               "for it; Task.cancelling() is the number of pending cancellation requests; Task.cancel() requests one",)
    assumptions = ("that the tasks spawned in the cancelled scopes are cancelled too is T-TG (TaskGroup aborts its members "
                   "when its parent is cancelled) applied to C06-P2/C07-P1: assumed, not proved",)

    def current_task(self, it):
        return self.task

    def mk_task(self, it):
        st = it.st
        if st.fork("current-task", [("inside-a-task", True), ("outside-any-task", True)]) == 1:
            self.task = V.VNone
            return
        t = st.sym_ref("task", "Task")
        st.put(t, "$fstate", V.VInt(z3.IntVal(F_PENDING)))       # the running task is not done
        n = st.fresh("cancelling", I)
        st.assume(n >= 0)
        st.put(t, "$cancelling", V.VInt(n))
        self.task, self.n = t, n
        st.meta.update(cancel_requests=n)


class CheckCancellation(_Task):
    file, func, name = ACCESS, "ctx.check_cancellation", "C07/access:ctx.check_cancellation"

    def setup(self, it, env):
        self.mk_task(it)
        return None, CallArgs()

    def on_return(self, it, ret):
        st = it.st
        if it.kind(self.task) == "none":
            return
        st.check("C07-P3:check-returns-only-when-no-cancellation-was-requested", self.n == 0)

    def on_raise(self, it, exc):
        st = it.st
        st.check("C07-P3:check-raises-CancelledError", is_exc(it, exc, "CancelledError"))
        st.check("C07-P3:check-raises-only-inside-a-task-that-was-asked-to-cancel",
                 z3.BoolVal(False) if it.kind(self.task) == "none" else self.n > 0)


class Cancel(_Task):
    file, func, name = ACCESS, "ctx.cancel", "C07/access:ctx.cancel"

    def setup(self, it, env):
        self.mk_task(it)
        return None, CallArgs()

    def on_return(self, it, ret):
        st = it.st
        reqs = st.ghost.get("$cancel_requests", [])
        st.check("C07-P4:cancel-requests-cancellation-of-the-current-task",
                 z3.BoolVal(it.kind(self.task) != "none" and len(reqs) == 1 and reqs[0].eq(self.task)))

    def on_raise(self, it, exc):
        st = it.st
        st.check("C07-P4:cancel-fails-only-outside-a-task", z3.BoolVal(it.kind(self.task) == "none"))
        st.check("C07-P4:cancel-outside-a-task-raises-RuntimeError", is_exc(it, exc, "RuntimeError"))


P = ("C07-",)
# "the tasks it spawned in those scopes are cancelled too" holds because a task spawned inside a scope is a member of that
# scope's task group - also when the group is already aborting (it then refuses the task) - never a detached task: the
# C06-P1 clauses of TaskGroupContext.run / ctx.spawn are obligations of C07 as well
from .C06 import Run as _Run, Spawn as _Spawn      # noqa: E402

CONTRACTS = [variant(AsyncScope, "C07", P), variant(TaskGroupExit, "C07", P), CheckCancellation(), Cancel(),
             variant(_Run, "C07", ("C06-P1",)), variant(_Spawn, "C07", ("C06-P1",))]


from .C02 import _metrics_exit_never_raises      # noqa: E402


def extra_contracts():
    """Borrowed late (contracts/C08.py imports C02, which this module imports too): the scope treats `Disposables.__aexit__` as a
    callee that answers a cancellation delivered while the cleanups run with CancelledError itself - not with a group that
    wraps it, which the scope's `except CancelledError` would not recognise (the spawned tasks would then be awaited instead
    of cancelled and the task would not end cancelled)."""
    from .C08 import Exit
    from .C11 import StreamBody
    # ... and a context stream is a scope as well: "the tasks it spawned in those scopes are cancelled too" needs the stream's
    # scope to own a task group (entered with the asynchronous protocol)
    return [variant(Exit, "C07", ("P4:a-cancelled-exit-raises-CancelledError",)), variant(StreamBody, "C07", ("C06-P6",))] + \
        _metrics_exit_never_raises("C07")
