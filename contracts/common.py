"""Helpers shared by the sidecar contracts."""
from __future__ import annotations

import z3

from pyvc import vals as V
from pyvc import lib
from pyvc.vals import Val, I, B, R
from pyvc.engine import Contract, Lemma
from pyvc.interp import Env, FuncV, LibV, OracleV, AwaitableV, CallArgs
from pyvc.state import Unsupported, PathEnd, PyRaise, PyReturn


def cls_of_exc(e):
    return V.class_of(V.addr(e))


def is_exc(it, e, name: str):
    return V.subclass(cls_of_exc(e), it.ct.id(name))


def log_never_raises(it, fv, cargs, node):
    """Callee contract of ctx.log_* / MetricsContext.log_*: returns None, never raises, touches no
    state of the caller.  Proved as C19 (clause P4) from the real logging code + T-LOG."""
    lib.used("callee:ctx.log_*(never raises; C19-P4)")
    it.st.events.append(("log", fv.qualname, cargs))
    return V.VNone


LOG_CALLEES = {"ctx.log_error", "ctx.log_warning", "ctx.log_info", "ctx.log_debug",
               "MetricsContext.log_error", "MetricsContext.log_warning", "MetricsContext.log_info",
               "MetricsContext.log_debug"}


def sym_seq(it, name: str, cls: str):
    """A pre-existing sequence object of unknown length; returns (ref, arr, lo, hi)."""
    st = it.st
    r = st.sym_ref(name, cls)
    arr, lo, hi = st.get(r, "$arr"), st.get(r, "$lo"), st.get(r, "$hi")
    st.assume(lo <= hi)
    return r, arr, lo, hi


def sym_tuple(it, name: str):
    st = it.st
    l = st.fresh(name, V.Lst)
    return V.VTup(l)
