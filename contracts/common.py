"""Helpers shared by the sidecar contracts."""
from __future__ import annotations

import z3

from pyvc import vals as V
from pyvc import lib
from pyvc.vals import Val, I, B, R
from pyvc.engine import Contract, Lemma
from pyvc.interp import Env, FuncV, LibV, OracleV, AwaitableV, CallArgs
from pyvc.state import Unsupported, PathEnd, PyRaise, PyReturn


def cls_of_exc(e):
    return V.class_of(V.addr(e))


def is_exc(it, e, name: str):
    return V.subclass(cls_of_exc(e), it.ct.id(name))


def log_never_raises(it, fv, cargs, node):
    """Callee contract of ctx.log_* / MetricsContext.log_*: returns None, never raises, touches no
    state of the caller.  Proved as C19 (clause P4) from the real logging code + T-LOG."""
    lib.used("callee:ctx.log_*(never raises; C19-P4)")
    it.st.events.append(("log", fv.qualname, cargs))
    return V.VNone


LOG_CALLEES = {"ctx.log_error", "ctx.log_warning", "ctx.log_info", "ctx.log_debug",
               "MetricsContext.log_error", "MetricsContext.log_warning", "MetricsContext.log_info",
               "MetricsContext.log_debug"}


def sym_seq(it, name: str, cls: str):
    """A pre-existing sequence object of unknown length; returns (ref, arr, lo, hi)."""
    st = it.st
    r = st.sym_ref(name, cls)
    arr, lo, hi = st.get(r, "$arr"), st.get(r, "$lo"), st.get(r, "$hi")
    st.assume(lo <= hi)
    return r, arr, lo, hi


def sym_tuple(it, name: str):
    st = it.st
    l = st.fresh(name, V.Lst)
    return V.VTup(l)


def repo_class(it, relfile: str, name: str):
    """Register (if needed) and return the RepoClass info of a class of the repository."""
    mod = it.engine.repo.module_for_file(relfile)
    v = it.module_symbol(mod, name)
    c = it.st.simp(V.cid(v)).as_long()
    return it.ct.info[c]


def sym_instance(it, relfile: str, clsname: str, name: str = "self"):
    info = repo_class(it, relfile, clsname)
    return it.st.sym_ref(name, info.cid), info


def method(it, info, obj, name: str) -> FuncV:
    m = info.find_method(name)
    if m is None:
        from pyvc.repo import FunctionNotFound
        raise FunctionNotFound(f"{info.name}.{name}")
    return it.bind_method(info, m, obj)


def is_instance_of(it, v, clsname: str):
    return z3.And(V.is_ref(v), V.class_of(V.addr(v)) == it.ct.id(clsname))


def fresh_input_ref(it, name: str):
    """An unknown pre-existing heap object (address in the input range)."""
    st = it.st
    a = st.fresh(name, I)
    st.assume(z3.And(a >= 0, a < 1_000_000))
    return V.VRef(a)


def forall(vs, body, patterns=None):
    """ForAll with explicit patterns when z3 accepts them (patterns over lambda/ite terms are
    rejected: fall back to automatic pattern inference / MBQI)."""
    if patterns and all(_pattern_ok(p) for p in patterns):
        try:
            return z3.ForAll(vs, body, patterns=patterns)
        except z3.Z3Exception:
            pass
    return z3.ForAll(vs, body)


def _pattern_ok(t) -> bool:
    todo = [t]
    while todo:
        x = todo.pop()
        if z3.is_quantifier(x):
            return False
        if z3.is_app(x) and x.decl().kind() in (z3.Z3_OP_ITE, z3.Z3_OP_AND, z3.Z3_OP_OR, z3.Z3_OP_NOT,
                                                z3.Z3_OP_EQ, z3.Z3_OP_IMPLIES):
            return False
        todo.extend(x.children())
    return True


def mimic_variants(prop: str):
    """The wrapper objects of the helper decorators keep their state (`_function`, `_entries`, `_cached`, `_timeout` ...) in
    their instance dict and call `mimic_function(function, within=self)` last in `__init__`: that their state survives is
    the frame clause of mimic (C18-P4), re-exported under every property whose wrapper relies on it."""
    from .C02 import variant
    from .C18 import MimicSync
    keep = lambda n: "not-overwritten" in n or "wrapper-itself-is-returned" in n or "never-raises" in n      # noqa: E731
    return [variant(MimicSync, prop, keep)]


def attr_write_mark(it) -> int:
    """position in the log of attribute stores (Interp.set_attr): stores made later are the ones a frame clause inspects"""
    return len(it.st.ghost.get("$attr_writes", []))


def wrapper_frame(it, obj, mark: int, what: str = "call") -> None:
    """Frame clause shared by the helper wrappers: one wrapper object serves every call of the decorated function, also
    overlapping ones (several tasks, recursion through the wrapper, several event loops one after another).  A call that
    stores into an attribute of that shared object makes the calls depend on each other, which none of the per-call
    contracts accounts for (they assume the wrapper's attributes are what `__init__` left).  Kind `frame`: a failure
    is *undecided* and the native stand-in (which runs overlapping calls through one wrapper) decides."""
    writes = sorted({n for (o, n) in it.st.ghost.get("$attr_writes", [])[mark:] if o.eq(obj)})
    it.st.check(f"frame:a-{what}-stores-into-no-attribute-of-the-shared-wrapper-object(overlapping-calls-through-one-wrapper-"
                "are-independent)", z3.BoolVal(not writes), kind="frame", note="attributes written: " + ", ".join(writes))


def exception_untouched(it, exc, mark: int, clause: str) -> None:
    """An exception that passes through a wrapper is the caller's to inspect: its cause chain (`__cause__`,
    `__suppress_context__`, set by `raise e from c`), its `args` and any other attribute are what the function left.
    Checked over the log of attribute stores since `mark` (stores by `raise ... from ...` included)."""
    writes = sorted({n for (o, n) in it.st.ghost.get("$attr_writes", [])[mark:] if o.eq(exc)})
    it.st.check(clause, z3.BoolVal(not writes), note="attributes of the exception written: " + ", ".join(writes))


def named_args(cargs, *names):
    """The arguments of an intercepted call by parameter name, whether the caller passed them positionally or by keyword
    (a refactoring may switch between the two for positional-or-keyword parameters): names in declaration order."""
    out = {}
    for i, n in enumerate(names):
        out[n] = cargs.pos[i] if i < len(cargs.pos) else cargs.kw.get(n)
    out["$extra"] = len(cargs.pos) > len(names) or any(k not in names for k in cargs.kw)
    return out


def inside_some_scope(it) -> None:
    """The call under contract may be made inside an asynchronous scope: the task-group variable then holds that scope's
    (entered) group.  Helpers are verified for both situations - code that consults the context (ctx.spawn) behaves
    differently in the two."""
    st = it.st
    info = repo_class(it, "context/tasks.py", "TaskGroupContext")
    var = it.class_attr(info, "_context", V.VCls(z3.IntVal(info.cid)))
    if st.fork("caller", [("outside-any-scope", True), ("inside-an-async-scope", True)]) == 1:
        group = lib.LIB["new:TaskGroup"](it, None, CallArgs(), None)
        st.put(group, "$tg_entered", it.mk_bool(True))
        st.put(var, "$cvset", it.mk_bool(True))
        st.put(var, "$cvval", group)
    else:
        st.put(var, "$cvset", it.mk_bool(False))


class DecoratorShape(Contract):
    """The outer function of a helper decorator - `deco(function=None, *, ...)` - returns the wrapper built for the function when
    one is given (`@deco`), and the wrapping closure itself when none is (`@deco(...)`).  The closure (`_wrap` / `wrap`) has its
    own contract; here it is a callee that answers with a marker."""
    inner = "_wrap"
    closure_kw = None            # name of the keyword the closure takes its function through, when not positional

    def callee(self, it, fv):
        if fv.qualname.endswith("." + self.inner) or fv.qualname == self.inner:
            def spec(it2, fv2, ca, node):
                self.calls.append(ca)
                return self.marker
            return spec
        return None

    def setup(self, it, env):
        st = it.st
        self.calls = []
        self.marker = st.sym_ref("wrapper_built_by_the_closure", "object")
        self.fn = st.reg_fun(OracleV("function"))
        self.given = st.fork("usage", [("@deco(function)", True), ("@deco(...)-without-a-function", True)]) == 0
        return None, (CallArgs([self.fn]) if self.given else CallArgs())

    def on_return(self, it, ret):
        st = it.st
        if self.given:
            arg = None
            if len(self.calls) == 1:
                ca = self.calls[0]
                arg = ca.pos[0] if ca.pos else (ca.kw.get(self.closure_kw) if self.closure_kw else next(iter(ca.kw.values()), None))
            st.check("P7:given-a-function-the-decorator-returns-the-wrapper-built-for-exactly-that-function",
                     z3.BoolVal(False) if arg is None else z3.And(arg == self.fn, ret == self.marker))
        else:
            fv = st.fun_of(ret) if it.kind(ret) == "function" else None
            st.check("P7:without-a-function-the-decorator-returns-the-wrapping-closure(to-be-applied-to-the-function)",
                     z3.BoolVal(isinstance(fv, FuncV) and fv.qualname.split(".")[-1] == self.inner and not self.calls))

    def on_raise(self, it, exc):
        it.st.check("P7:applying-the-decorator-never-raises", z3.BoolVal(False))
