"""C09 - scope completion fires exactly once, after the whole subtree has been left.

Functions under contract: context/metrics.py::ScopeMetrics.__init__/_finish/_complete_if_able/
is_completed/time and MetricsContext.scope/__enter__/__exit__.

The scope tree is unbounded: ScopeMetrics objects are symbolic heap references, their fields are
the heap's field maps, and the invariant quantifies over all of them:
  I0 shape: _completed is a Future, _nested a list, _finished a bool, _parent None or a scope; futures
     and lists are not shared between scopes
  I1 completed(s) => finished(s)
  I2 completed(s) => every scope in s._nested is completed
  I3 finished(s) and not completed(s) => some scope in s._nested is not completed        (eagerness)
  I4 every element of s._nested is a scope whose _parent is s; a scope with a parent is in that
     parent's _nested list
completed(s) := s._completed.done().  Lemma L-TREE (induction step by SMT, induction principle =
"children are created after their parent", stated) gives is_completed(s) <=> completed(s) and
"completed(s) => every descendant is finished".  _complete_if_able is recursive up the tree: the
recursive call is checked against this same contract (I3 may be broken at exactly the callee).
"""
from __future__ import annotations

import ast

import z3

from .common import *
from .C02 import _Scope
from pyvc.lib import fstate, F_PENDING, F_RESULT
from pyvc import lib as L

FILE = "context/metrics.py"


class _Tree(_Scope):
    props = ("C09",)
    trusted = ("T-FUT (set_result on a pending future; done callbacks run exactly once after completion)", "S1/S7", "S4",
               "L-TREE induction principle: a scope is created after its parent, so the parent chain is well founded")
    assumptions = (
        "MetricsContext discipline: a scope is finished only by the __exit__ of the MetricsContext created for it, "
        "after its __enter__ (re-entering a finished scope is rejected by the source's own assert)",
        "completion callbacks are invoked by the completion future's done-callback (T-FUT: once, after completion); "
        "a raising user callback is reported by the event loop, not by the scope",
    )

    # ---------------------------------------------------------------------------------- model
    def init_model(self, it):
        st = it.st
        self.info = repo_class(it, FILE, "ScopeMetrics")
        self.cid = self.info.cid

    def F(self, it, name):
        return it.st.field_array(name)

    def terms(self, it):
        st = it.st
        cid = self.cid
        Fd = lambda n: st.field_array(n)
        limit = 1_000_000 + st.alloc_n         # objects allocated so far live below this address
        self.limit = limit
        scope = lambda a: z3.And(V.class_of(a) == cid, a >= 0, a < limit)
        futv = lambda a: z3.Select(Fd("_completed"), a)
        fut = lambda a: V.addr(futv(a))
        comp = lambda a: V.ival(z3.Select(Fd("$fstate"), fut(a))) != F_PENDING
        finv = lambda a: z3.Select(Fd("_finished"), a)
        fin = lambda a: V.bval(finv(a))
        nv = lambda a: z3.Select(Fd("_nested"), a)
        N = lambda a: V.addr(nv(a))
        A = lambda a, i: z3.Select(z3.Select(Fd("$arr"), N(a)), i)
        lo = lambda a: z3.Select(Fd("$lo"), N(a))
        hi = lambda a: z3.Select(Fd("$hi"), N(a))
        par = lambda a: z3.Select(Fd("_parent"), a)
        return dict(scope=scope, futv=futv, fut=fut, comp=comp, finv=finv, fin=fin, nv=nv, N=N, A=A, lo=lo, hi=hi, par=par)

    def inv(self, it, hole=None, only=None):
        """List of (name, formula).  `hole`: address at which I3 is allowed to be broken."""
        t = self.terms(it)
        scope, comp, fin, A, lo, hi, par = t["scope"], t["comp"], t["fin"], t["A"], t["lo"], t["hi"], t["par"]
        s, u, i, j = z3.Ints("s!i u!i i!i j!i")
        fs = lambda a: z3.Select(it.st.field_array("$fstate"), t["fut"](a))
        co = V.class_of

        def FA(vs, body, pats):
            try:
                return z3.ForAll(vs, body, patterns=pats)
            except z3.Z3Exception:
                return z3.ForAll(vs, body)
        out = [
            ("I0:shape",
             FA([s], z3.Implies(scope(s), z3.And(
                 V.is_ref(t["futv"](s)), V.class_of(t["fut"](s)) == it.ct.id("Future"), V.is_int(fs(s)),
                 t["fut"](s) >= 0, t["fut"](s) < self.limit, t["N"](s) >= 0, t["N"](s) < self.limit,
                 V.ival(fs(s)) >= 0, V.ival(fs(s)) <= 3,
                 V.is_ref(t["nv"](s)), V.class_of(t["N"](s)) == it.ct.id("list"), lo(s) <= hi(s),
                 V.is_bool(t["finv"](s)),
                 z3.Or(V.is_none(par(s)), z3.And(V.is_ref(par(s)), scope(V.addr(par(s))))))), [co(s)])),
            ("I0:futures-and-lists-are-not-shared",
             FA([s, u], z3.Implies(z3.And(scope(s), scope(u), s != u),
                                   z3.And(t["fut"](s) != t["fut"](u), t["N"](s) != t["N"](u))),
                [z3.MultiPattern(co(s), co(u))])),
            ("I1:completed-implies-finished", FA([s], z3.Implies(z3.And(scope(s), comp(s)), fin(s)), [co(s)])),
            ("I2:completed-implies-every-nested-scope-completed",
             FA([s, i], z3.Implies(z3.And(scope(s), comp(s), lo(s) <= i, i < hi(s)), comp(V.addr(A(s, i)))),
                [z3.MultiPattern(co(s), A(s, i))])),
            ("I3:finished-and-all-nested-completed-implies-completed(eager)",
             FA([s], z3.Implies(z3.And(scope(s), fin(s), z3.Not(comp(s)), *([s != hole] if hole is not None else [])),
                                z3.Exists([i], z3.And(lo(s) <= i, i < hi(s), z3.Not(comp(V.addr(A(s, i))))))), [co(s)])),
            ("I4:nested-scopes-point-back-to-their-parent",
             FA([s, i], z3.Implies(z3.And(scope(s), lo(s) <= i, i < hi(s)),
                                   z3.And(V.is_ref(A(s, i)), scope(V.addr(A(s, i))), par(V.addr(A(s, i))) == V.VRef(s))),
                [z3.MultiPattern(co(s), A(s, i))])),
            ("I4:a-scope-with-a-parent-is-registered-in-it",
             FA([s], z3.Implies(z3.And(scope(s), z3.Not(V.is_none(par(s)))),
                                z3.Exists([i], z3.And(lo(V.addr(par(s))) <= i, i < hi(V.addr(par(s))),
                                                      A(V.addr(par(s)), i) == V.VRef(s)))), [co(s)])),
        ]
        if only:
            out = [x for x in out if x[0].startswith(only)]
        return out

    def assume_inv(self, it, hole=None):
        for _, f in self.inv(it, hole):
            it.st.assume(f)

    def check_inv(self, it, tag, hole=None):
        for nm, f in self.inv(it, hole):
            it.st.check(f"{tag}:{nm}", f, kind="property" if nm.startswith(("I1", "I2", "I3")) else "aux")

    def sym_scope(self, it, name="self"):
        st = it.st
        s = st.sym_ref(name, self.cid)
        return s

    def focus(self, it, s):
        """Ground instances of I0 for one scope (the path solver ignores quantified facts)."""
        st = it.st
        t = self.terms(it)
        a = V.addr(s)
        fv, nv, pv = t["futv"](a), t["nv"](a), t["par"](a)
        st.assume(z3.And(V.is_ref(fv), V.is_ref(nv), V.is_bool(t["finv"](a)), t["lo"](a) <= t["hi"](a)))
        st.declare_class(fv, "Future")
        st.declare_class(nv, "list")
        st.assume(V.is_int(z3.Select(st.field_array("$fstate"), V.addr(fv))))
        st.assume(V.is_float(z3.Select(st.field_array("_timestamp"), a)))
        st.assume(z3.Or(V.is_none(pv), z3.And(V.is_ref(pv), V.class_of(V.addr(pv)) == self.cid)))
        # a ScopeMetrics object is truthy: the class defines neither __bool__ nor __len__ (checked on the source)
        no_bool = self.info.find_method("__bool__") is None and self.info.find_method("__len__") is None
        st.check("frame:ScopeMetrics-defines-no-__bool__/__len__(instances-are-truthy)", z3.BoolVal(no_bool), kind="frame")
        if no_bool:
            st.assume(z3.Implies(V.is_ref(pv), lib.truthy_ref(V.addr(pv))))

    def attr(self, it, obj, name, node):
        if name == "is_completed":          # element of a _nested list inside a summarised comprehension
            if getattr(self, "inside", False):
                return V.VBool(self.isc(V.addr(obj)))
            lib.used("lemma:L-TREE (is_completed(s) <=> completed(s) under I2)")
            return V.VBool(self.terms(it)["comp"](V.addr(obj)))
        if name == "_finished":             # the plain field of a nested scope (element of a _nested list)
            return self.terms(it)["finv"](V.addr(obj))
        return None

    def snapshot(self, it):
        t = self.terms(it)
        self.old = dict(heap=it.st.snapshot_heap())
        self.old_terms = t
        self.old_limit = 1_000_000 + it.st.alloc_n

    def frame_monotone(self, it, tag, changed_comp_only_on=None):
        """comp only grows; finished/parent/nested/futures unchanged (except where the function says)."""
        st = it.st
        old = self.old["heap"]
        s, i = z3.Ints("s!f i!f")
        t = self.terms(it)
        cid = self.cid
        scope = lambda a: z3.And(V.class_of(a) == cid, a >= 0, a < self.old_limit)
        oldF = lambda n: old.get(n, st.heap0.get(n, st.field_array(n)))
        ocomp = lambda a: V.ival(z3.Select(oldF("$fstate"), V.addr(z3.Select(oldF("_completed"), a)))) != F_PENDING
        st.check(f"{tag}:completion-is-never-undone", z3.ForAll([s], z3.Implies(z3.And(scope(s), ocomp(s)), t["comp"](s))))
        st.check(f"{tag}:tree-structure-untouched",
                 z3.ForAll([s], z3.Implies(scope(s), z3.And(t["par"](s) == z3.Select(oldF("_parent"), s),
                                                           t["nv"](s) == z3.Select(oldF("_nested"), s),
                                                           t["futv"](s) == z3.Select(oldF("_completed"), s)))), kind="frame")

    # ---------------------------------------------------------------------------------- callees
    def callee(self, it, fv):
        q = fv.qualname
        if q == "freeze":
            return lambda it2, fv2, ca, node: V.VNone
        if q == "ScopeMetrics.is_completed":
            return self.is_completed_spec
        if q == "ScopeMetrics._complete_if_able":
            return self.complete_if_able_spec
        if q == "ScopeMetrics.log":
            return lambda it2, fv2, ca, node: V.VNone
        return None

    def is_completed_spec(self, it, fv, ca, node):
        """L-TREE: under I2, is_completed(s) <=> s._completed.done()."""
        lib.used("lemma:L-TREE (is_completed(s) <=> completed(s) under I2)")
        t = self.terms(it)
        return V.VBool(t["comp"](V.addr(fv.bound)))

    def complete_if_able_spec(self, it, fv, ca, node):
        """Call of _complete_if_able on another scope (the parent): use its contract."""
        st = it.st
        p = V.addr(fv.bound)
        t = self.terms(it)
        st.check("call:_complete_if_able:requires:callee-not-yet-completed", z3.Not(t["comp"](p)), kind="assert")
        for nm, f in self.inv(it, hole=p):
            st.check(f"call:_complete_if_able:requires:{nm}", f, kind="aux")
        old = st.snapshot_heap()
        oldcomp = t["comp"]
        oF = dict(old)
        for f in ("$fstate", "$fval"):
            st.havoc_field(f)
        t2 = self.terms(it)
        s = z3.Int("s!c")
        ocomp = lambda a: V.ival(z3.Select(oF["$fstate"], V.addr(z3.Select(st.field_array("_completed"), a)))) != F_PENDING
        st.assume(z3.ForAll([s], z3.Implies(z3.And(t2["scope"](s), ocomp(s)), t2["comp"](s))))
        for _, f in self.inv(it):
            st.assume(f)
        st.ghost["upward_calls"] = st.ghost.get("upward_calls", 0) + 1
        return V.VNone


# -------------------------------------------------------------------------------------------------
class CompleteIfAble(_Tree):
    file, func, name = FILE, "ScopeMetrics._complete_if_able", "C09/metrics:ScopeMetrics._complete_if_able"

    def setup(self, it, env):
        st = it.st
        self.init_model(it)
        self.s = self.sym_scope(it)
        a = V.addr(self.s)
        self.assume_inv(it, hole=a)
        t = self.terms(it)
        st.assume(z3.Not(t["comp"](a)))                 # requires (the source's own assert)
        self.focus(it, self.s)
        self.snapshot(it)
        self.sets = 0
        st.hints += [t["hi"](a) - t["lo"](a) <= 2, t["lo"](a) == 0]
        return method(it, self.info, self.s, "_complete_if_able"), CallArgs()

    def assert_mode(self, it, node):
        return "check"

    def on_future_done(self, it, fut, state, val):
        self.sets += 1
        t = self.terms(it)
        it.st.check("P2:only-its-own-completion-future-is-completed", fut == t["futv"](V.addr(self.s)))
        it.st.check("P2:completes-with-a-result(the-measured-time)", z3.BoolVal(state == F_RESULT))

    def on_return(self, it, ret):
        st = it.st
        self.check_inv(it, "post")
        st.check("P2:set_result-at-most-once", z3.BoolVal(self.sets <= 1))
        self.frame_monotone(it, "post")
        t = self.terms(it)
        a = V.addr(self.s)
        st.check("P2:completes-exactly-when-finished-and-every-nested-scope-completed",
                 t["comp"](a) == z3.BoolVal(self.sets == 1))

    def on_raise(self, it, exc):
        it.st.check("P1:completion-bookkeeping-never-raises", z3.BoolVal(False))


class Finish(_Tree):
    file, func, name = FILE, "ScopeMetrics._finish", "C09/metrics:ScopeMetrics._finish"

    def setup(self, it, env):
        st = it.st
        self.init_model(it)
        self.s = self.sym_scope(it)
        a = V.addr(self.s)
        self.assume_inv(it)
        t = self.terms(it)
        st.assume(z3.Not(t["fin"](a)))      # requires: called once, by the exit of the MetricsContext of this scope
        self.focus(it, self.s)
        self.snapshot(it)
        return method(it, self.info, self.s, "_finish"), CallArgs()

    def assert_mode(self, it, node):
        return "check"

    def on_return(self, it, ret):
        st = it.st
        t = self.terms(it)
        self.check_inv(it, "post")
        st.check("P1:the-scope-is-finished-afterwards", t["fin"](V.addr(self.s)))
        self.frame_monotone(it, "post")

    def on_raise(self, it, exc):
        it.st.check("P1:leaving-a-scope-never-fails-because-of-completion-bookkeeping", z3.BoolVal(False))


class Init(_Tree):
    file, func, name = FILE, "ScopeMetrics.__init__", "C09/metrics:ScopeMetrics.__init__"
    loop_may_be_absent = True

    def setup(self, it, env):
        st = it.st
        self.init_model(it)
        self.assume_inv(it)
        self.obj = st.alloc(self.cid)
        self.parent = st.fresh_val("parent")
        if st.fork("parent", [("root-scope", V.is_none(self.parent)), ("nested-scope", z3.Not(V.is_none(self.parent)))]) == 1:
            st.assume(z3.And(V.is_ref(self.parent), V.addr(self.parent) >= 0, V.addr(self.parent) < 1_000_000))
            st.declare_class(self.parent, self.cid)
            self.focus(it, self.parent)
        self.completion = st.fresh_val("completion")
        st.assume(z3.Or(V.is_none(self.completion), V.is_fun(self.completion)))
        self.snapshot(it)
        st.ghost["$in_init"] = True
        # objects allocated later must not already look like scopes of the pre-state
        # trace id / name / logger variations are covered by C19; fixed here to keep the tree proof small
        lg = st.sym_ref("logger", "Logger")
        return method(it, self.info, self.obj, "__init__"), CallArgs(kw={
            "trace_id": it.mk_str("trace"), "scope": it.mk_str("scope"), "logger": lg,
            "parent": self.parent, "completion": self.completion})

    def truthy_hint(self):
        return None

    def on_return(self, it, ret):
        st = it.st
        t = self.terms(it)
        a = V.addr(self.obj)
        self.check_inv(it, "post")
        st.check("P2:a-new-scope-is-neither-finished-nor-completed", z3.And(z3.Not(t["fin"](a)), z3.Not(t["comp"](a))))
        if it.kind(self.parent) == "ref":
            pa = V.addr(self.parent)
            old = self.old["heap"]
            oF = lambda n: old.get(n, st.heap0.get(n, st.field_array(n)))
            ocomp = V.ival(z3.Select(oF("$fstate"), V.addr(z3.Select(oF("_completed"), pa)))) != F_PENDING
            ohi = z3.Select(oF("$hi"), V.addr(z3.Select(oF("_nested"), pa)))
            st.check("P2:a-new-scope-is-registered-under-the-scope-it-was-created-in-unless-that-scope-already-completed",
                     z3.Implies(z3.Not(ocomp), z3.And(t["par"](a) == self.parent, t["hi"](pa) == ohi + 1,
                                                      t["A"](pa, ohi) == self.obj)))
            st.check("P2:a-scope-created-under-a-completed-scope-is-detached(not-registered)",
                     z3.Implies(ocomp, z3.And(V.is_none(t["par"](a)), t["hi"](pa) == ohi)))
        else:
            st.check("P2:an-outermost-scope-has-no-parent", V.is_none(t["par"](a)))
        cbs = st.ghost.get("$done_callbacks", [])
        mine = [cb for (o, cb) in cbs if o.eq(st.get(self.obj, "_completed"))]
        st.check("P4:the-completion-callback-is-attached-to-the-completion-future-exactly-once-iff-given",
                 z3.If(V.is_none(self.completion), z3.BoolVal(len(cbs) == 0), z3.BoolVal(len(mine) == 1 and len(cbs) == 1)))

    def on_raise(self, it, exc):
        st = it.st
        # the one legitimate failure: no event loop in the creating thread (a worker thread inherits the caller's context and
        # with it the current scope).  "Leaving a scope never fails because of completion bookkeeping": the scope that was
        # current must then be left exactly as it was - a half-built scope registered under it would break its completion.
        st.check("P1:creating-a-scope-fails-only-for-want-of-an-event-loop", z3.BoolVal(bool(st.ghost.get("$no_loop"))))
        if it.kind(self.parent) == "ref":
            t = self.terms(it)
            pa = V.addr(self.parent)
            old = self.old["heap"]
            oF = lambda n: old.get(n, st.heap0.get(n, st.field_array(n)))      # noqa: E731
            ohi = z3.Select(oF("$hi"), V.addr(z3.Select(oF("_nested"), pa)))
            st.check("P1:a-scope-whose-creation-failed-is-not-registered-under-the-scope-it-was-created-in",
                     t["hi"](pa) == ohi)


class Time(_Tree):
    file, func, name = FILE, "ScopeMetrics.time", "C09/metrics:ScopeMetrics.time"

    def setup(self, it, env):
        st = it.st
        self.init_model(it)
        self.s = self.sym_scope(it)
        self.assume_inv(it)
        self.focus(it, self.s)
        ts = st.get(self.s, "_timestamp")
        st.assume(V.is_float(ts))
        t = self.terms(it)
        fut = t["futv"](V.addr(self.s))
        st.assume(z3.Or(fstate(it, fut) == F_PENDING, fstate(it, fut) == F_RESULT))   # only set_result is ever used (P2)
        self.h0 = st.snapshot_heap()
        return method(it, self.info, self.s, "time"), CallArgs()

    def on_return(self, it, ret):
        st = it.st
        t = self.terms(it)
        a = V.addr(self.s)
        fut = t["futv"](a)
        st.check("P3:after-completion-the-measured-time-is-the-stored-constant",
                 z3.Implies(t["comp"](a), ret == L.fval(it, fut)))
        st.check("P3:reading-the-time-changes-nothing",
                 z3.BoolVal(all(v.eq(self.h0.get(k, st.heap0.get(k))) for k, v in st.heap.items())))

    def on_raise(self, it, exc):
        it.st.check("P3:reading-the-time-never-raises", z3.BoolVal(False))


class Wait(_Tree):
    """ScopeMetrics.wait(): lets others wait for completion without giving them a handle that completes the scope.
    gather cancels its children when the waiting task is cancelled (T-GATHER): the completion future itself must therefore
    never be a child of that gather - only a shield of it."""
    file, func, name = FILE, "ScopeMetrics.wait", "C09/metrics:ScopeMetrics.wait"
    nested_wait = z3.Function("C09.nested_wait", Val, Val)

    def setup(self, it, env):
        st = it.st
        self.init_model(it)
        self.s = self.sym_scope(it)
        self.assume_inv(it)
        self.focus(it, self.s)
        self.gathered = []
        return method(it, self.info, self.s, "wait"), CallArgs()

    def attr(self, it, obj, name, node):
        if name == "wait":
            return self.nested_wait(obj)
        return super().attr(it, obj, name, node)

    def call_unknown(self, it, f, cargs, node):
        t = it.st.simp(f)
        if z3.is_app(t) and t.decl().name() == "C09.nested_wait":
            return t                                    # the awaitable of a nested scope's own wait()
        return None

    def gather(self, it, aw, idx, node):
        self.gathered.append(aw)
        st = it.st
        fut = self.terms(it)["futv"](V.addr(self.s))
        bare = [p for p in aw.data["pos"] if st.entails(p == fut)]
        shields = [p for p in aw.data["pos"] if it.kind(p) == "function" and isinstance(st.fun_of(p), AwaitableV)
                   and st.fun_of(p).kind == "shield" and st.entails(st.fun_of(p).data["inner"] == fut)]
        st.check("P4:the-completion-future-is-awaited-only-behind-a-shield(cancelling-a-waiter-never-completes-the-scope)",
                 z3.BoolVal(not bare and len(shields) == 1))
        if st.fork(f"await#{idx}:gather", [("all-completed", True), ("waiter-cancelled", True)]) == 0:
            return lib.new_list(it, [])
        raise PyRaise(it.new_exc("CancelledError"), "the waiting task was cancelled")

    def on_return(self, it, ret):
        it.st.check("P4:wait-awaits-the-scope-and-its-nested-scopes-in-one-gather", z3.BoolVal(len(self.gathered) == 1))

    def on_raise(self, it, exc):
        st = it.st
        st.check("P4:wait-fails-only-by-cancellation-of-the-waiter", is_exc(it, exc, "CancelledError"))
        t = self.terms(it)
        st.check("P4:a-cancelled-waiter-leaves-the-scope-as-it-was",
                 z3.BoolVal(all(v.eq(st.heap0.get(k, v)) or k.startswith("$") for k, v in st.heap.items())))


class IsCompletedLemma(Lemma):
    """L-TREE, induction step: assume the claim for every nested scope of s; then it holds for s."""
    name = "C09/lemma:L-TREE"
    props = ("C09",)

    def prove(self, it):
        st = it.st
        n = st.fresh("n", I)
        child_comp = st.fresh("child_comp", V.ArrIB)          # completed(child i)
        child_isc = st.fresh("child_is_completed", V.ArrIB)   # is_completed(child i)  (recursive property)
        child_desc_fin = st.fresh("child_desc_finished", V.ArrIB)   # every descendant of child i (incl. itself) finished
        child_fin = st.fresh("child_fin", V.ArrIB)
        comp, fin = st.fresh("comp", B), st.fresh("fin", B)
        i = z3.Int("i")
        rng = z3.And(0 <= i, i < n)
        st.assume(n >= 0)
        # definition of the recursive property at s (the source of is_completed)
        isc = z3.And(comp, z3.ForAll([i], z3.Implies(rng, z3.Select(child_isc, i))))
        # invariants at s and its children
        st.assume(z3.Implies(comp, z3.ForAll([i], z3.Implies(rng, z3.Select(child_comp, i)))))      # I2 at s
        st.assume(z3.Implies(comp, fin))                                                           # I1 at s
        # induction hypotheses for the children
        st.assume(z3.ForAll([i], z3.Implies(rng, z3.Select(child_isc, i) == z3.Select(child_comp, i))))
        st.assume(z3.ForAll([i], z3.Implies(z3.And(rng, z3.Select(child_comp, i)), z3.Select(child_desc_fin, i))))
        st.check("L-TREE:is_completed(s)<=>completed(s)", isc == comp, kind="lemma")
        st.check("L-TREE:completed(s)=>s-and-every-descendant-finished",
                 z3.Implies(comp, z3.And(fin, z3.ForAll([i], z3.Implies(rng, z3.Select(child_desc_fin, i))))), kind="lemma")


class IsCompletedCode(_Tree):
    """The source of is_completed is exactly the recursive definition used by L-TREE."""
    file, func, name = FILE, "ScopeMetrics.is_completed", "C09/metrics:ScopeMetrics.is_completed"

    def callee(self, it, fv):
        if fv.qualname == "ScopeMetrics.is_completed" and getattr(self, "inside", False):
            def spec(it2, fv2, ca, node):
                return V.VBool(self.isc(V.addr(fv2.bound)))
            return spec
        return super().callee(it, fv) if fv.qualname != "ScopeMetrics.is_completed" else None

    def setup(self, it, env):
        st = it.st
        self.init_model(it)
        self.s = self.sym_scope(it)
        self.assume_inv(it)
        self.focus(it, self.s)
        self.isc = z3.Function("C09.is_completed", I, B)
        self.inside = True
        return method(it, self.info, self.s, "is_completed"), CallArgs()

    def on_return(self, it, ret):
        st = it.st
        t = self.terms(it)
        a = V.addr(self.s)
        i = z3.Int("i!d")
        st.check("P3:is_completed-is-done-and-all-nested-is_completed",
                 V.bval(ret) == z3.And(t["comp"](a), z3.ForAll([i], z3.Implies(z3.And(t["lo"](a) <= i, i < t["hi"](a)),
                                                                                self.isc(V.addr(t["A"](a, i)))))))

    def on_raise(self, it, exc):
        it.st.check("P3:is_completed-never-raises", z3.BoolVal(False))


CONTRACTS = [CompleteIfAble(), Finish(), Init(), Time(), Wait(), IsCompletedLemma(), IsCompletedCode()]


# ------------------------------------------------------------------------------------------------
class MetricsBlock(_Tree):
    """MetricsContext.__enter__ + abstracted body + __exit__: the precondition of _finish (scope not
    yet finished) holds at the only place that calls it, and leaving never raises."""
    file, func, name = FILE, "MetricsContext.__exit__", "C09/metrics:MetricsContext.__enter__+__exit__"

    def callee(self, it, fv):
        if fv.qualname == "ScopeMetrics._finish":
            def spec(it2, fv2, ca, node):
                st = it2.st
                st.check("P1:_finish-is-reached-with-its-precondition(scope-not-finished-yet)",
                         z3.Not(V.bval(st.get(fv2.bound, "_finished"))))
                st.check("P1:_finish-is-called-on-the-scope-of-this-context", fv2.bound == self.metrics)
                st.put(fv2.bound, "_finished", it2.mk_bool(True))
                self.finished += 1
                return V.VNone
            return spec
        if fv.qualname == "ScopeMetrics.time":
            return lambda it2, fv2, ca, node: V.VFloat(it2.st.fresh("time", R))
        return super().callee(it, fv)

    def run(self, it):
        st = it.st
        st.contract = self
        it.engine.repo.find(self.file, self.func)
        self.init_model(it)
        self.raised, self.finished = [], 0
        self.cv = self.cvs(it)
        minfo = repo_class(it, FILE, "MetricsContext")
        self.metrics = st.sym_ref("metrics", self.cid)
        st.assume(V.is_bool(st.get(self.metrics, "_finished")))
        obj = it.instantiate(minfo.cid, CallArgs([self.metrics]))
        try:
            it.run_function(method(it, minfo, obj, "__enter__"), CallArgs())
        except PyRaise as pr:
            st.check("P1:entering-fails-only-by-the-reentrance-guard", is_exc(it, pr.val, "AssertionError"))
            st.check("canary", z3.BoolVal(False), kind="canary")
            return
        # body: nobody else finishes this scope (frame audit: _finish is only called by this context's exit)
        et, ev_, tb = self.body_exc(it)
        try:
            it.run_function(method(it, minfo, obj, "__exit__"), CallArgs([et, ev_, tb]))
        except PyRaise:
            st.check("P1:leaving-a-scope-never-fails-because-of-completion-bookkeeping", z3.BoolVal(False))
            return
        st.check("P1:the-scope-is-finished-exactly-once-by-its-exit", z3.BoolVal(self.finished == 1))
        st.check("P1:a-second-exit-is-impossible(token-cleared)", V.is_none(st.get(obj, "_token")))
        st.check("canary", z3.BoolVal(False), kind="canary")


class FrameAudit(Lemma):
    """Who may finish / complete a scope: syntactic audit of context/metrics.py and its users."""
    file, func, name = FILE, "ScopeMetrics", "C09/metrics:frame-audit"
    props = ("C09",)

    def prove(self, it):
        calls = {"_finish": [], "_complete_if_able": [], "set_result": []}
        writes = []
        for rel in ("context/metrics.py", "context/access.py", "context/state.py", "context/tasks.py",
                    "context/disposables.py", "helpers/tracing.py"):
            mod = it.engine.repo.module_for_file(rel)
            for cls in [n for n in ast.walk(mod.tree) if isinstance(n, ast.ClassDef)]:
                for fn in [n for n in cls.body if isinstance(n, (ast.FunctionDef, ast.AsyncFunctionDef))]:
                    for n in ast.walk(fn):
                        if isinstance(n, ast.Call) and isinstance(n.func, ast.Attribute) and n.func.attr in calls:
                            calls[n.func.attr].append(f"{cls.name}.{fn.name}")
                        if isinstance(n, ast.Attribute) and isinstance(n.ctx, ast.Store) and n.attr in ("_finished", "_completed", "_parent", "_nested"):
                            writes.append((cls.name, fn.name, n.attr))
        st = it.st
        # ... and by the rollback of a scope that failed to enter (its MetricsContext is then never entered, hence never exited)
        st.check("frame:_finish-is-only-called-by-MetricsContext.__exit__", z3.BoolVal(
            sorted(calls["_finish"]) in (["MetricsContext.__exit__"], ["MetricsContext.__exit__", "ScopeContext.__aenter__"])),
                 kind="frame", note=str(calls["_finish"]))
        st.check("frame:_complete_if_able-is-only-called-by-_finish-and-itself",
                 z3.BoolVal(sorted(calls["_complete_if_able"]) == ["ScopeMetrics._complete_if_able", "ScopeMetrics._finish"]),
                 kind="frame", note=str(calls["_complete_if_able"]))
        st.check("frame:completion-future-is-only-completed-by-_complete_if_able",
                 z3.BoolVal(calls["set_result"] == ["ScopeMetrics._complete_if_able"]), kind="frame", note=str(calls["set_result"]))
        ok = sorted(set(writes)) == sorted({("ScopeMetrics", "__init__", "_finished"), ("ScopeMetrics", "__init__", "_completed"),
                                            ("ScopeMetrics", "__init__", "_parent"), ("ScopeMetrics", "__init__", "_nested"),
                                            ("ScopeMetrics", "_finish", "_finished")})
        st.check("frame:tree-fields-are-written-only-by-__init__-and-_finish", z3.BoolVal(ok), kind="frame", note=str(sorted(set(writes))))


from .C19 import ScopeFactory as _SF  # noqa: E402

CONTRACTS = CONTRACTS + [MetricsBlock(), FrameAudit(),
                         type("C09ScopeFactory", (_SF,), dict(name="C09/metrics:MetricsContext.scope", props=("C09",),
                                                              keep=staticmethod(lambda n: n.startswith("C09-") or n == "canary")))()]

from .C02 import AsyncScope as _AsyncScope, SyncScope as _SyncScope, variant as _variant      # noqa: E402

# nested scopes register under the scope that is *current* when they are made: after a block the metrics variable is the enclosing
# scope again, however the block was left
_c09 = lambda n: n.startswith("C09-") or "MetricsContext-variable-is-what-it-was" in n      # noqa: E731
CONTRACTS = CONTRACTS + [_variant(_AsyncScope, "C09", _c09), _variant(_SyncScope, "C09", _c09)]

# "... every scope nested under it (including those running in spawned or inherited-context tasks)": a task spawned inside a
# scope - also while that scope is already waiting for its tasks - belongs to the scope's task group (the scope is left only
# after it), and it starts from a snapshot of the spawn point's context, so the scopes it enters register under that scope
from .C06 import Run as _Run, Spawn as _Spawn      # noqa: E402
_c09s = ("C06-P1:inside-a-scope-the-task-belongs-to-the-current-task-group", "C06-P1:spawning-fails-only", "C03-P1")
CONTRACTS = CONTRACTS + [_variant(_Run, "C09", _c09s), _variant(_Spawn, "C09", _c09s)]
