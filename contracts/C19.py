"""C19 - context log lines go to the scope's logger tagged with an inherited trace id.

Functions under contract: context/metrics.py::ScopeMetrics.__init__ (trace id, identifier, prefix,
logger), ScopeMetrics.log, MetricsContext.scope, MetricsContext.log_error/log_warning/log_info/
log_debug (and ctx.log_* pass-through).

Strings are opaque values here: concatenation (f-strings) is an uninterpreted constructor, so "the
text contains trace id, name and identifier" is a statement about which parts the prefix term is
built from.  Format safety (P5) is structural: whenever %-formatting will be applied by the logging
module (args non-empty) the scope prefix reaches the format string only through
str.replace("%", "%%") (T-FMT: a string in which every % is doubled contributes no conversion
specifier and renders as the original), and the message itself is appended unchanged.
"""
from __future__ import annotations

import z3

from .common import *
from .C02 import _Scope
from pyvc import lib as L

FILE = "context/metrics.py"
LEVELS = {"log_error": 40, "log_warning": 30, "log_info": 20, "log_debug": 10}


def parts_of(term):
    """Leaves of a str_concat / str_of term."""
    t = z3.simplify(term)
    if z3.is_app(t) and t.decl().name() == "str_concat":
        return parts_of(t.arg(0)) + parts_of(t.arg(1))
    if z3.is_app(t) and t.decl().name() == "str_of":        # rendering a str inside an f-string is the identity
        return parts_of(t.arg(0))
    return [t]


class _Log(_Scope):
    props = ("C19",)
    trusted = ("T-LOG (Logger.log never raises; emits to that logger at the given level; msg % args applied only when "
               "args is non-empty)", "T-FMT (%% renders as a literal %)", "T-CV")
    assumptions = ("strings are opaque: f-string rendering and concatenation are uninterpreted constructors",)

    def callee(self, it, fv):
        if fv.qualname == "freeze":
            return lambda it2, fv2, ca, node: V.VNone
        return None


class InitTags(_Log):
    """ScopeMetrics.__init__: trace id (given or fresh), unique identifier, prefix parts, logger."""
    file, func, name = FILE, "ScopeMetrics.__init__", "C19/metrics:ScopeMetrics.__init__"

    def setup(self, it, env):
        st = it.st
        info = repo_class(it, FILE, "ScopeMetrics")
        self.info = info
        self.obj = st.alloc(info.cid)
        self.trace = st.fresh_val("trace_id")
        st.assume(z3.Or(V.is_none(self.trace), V.is_str(self.trace)))
        self.scope_name = V.VStr(st.fresh("scope_name", I))
        self.logger = st.fresh_val("logger")
        st.assume(z3.Or(V.is_none(self.logger), z3.And(V.is_ref(self.logger), V.addr(self.logger) >= 0,
                                                        V.addr(self.logger) < 1_000_000)))
        if st.fork("logger-argument", [("none", V.is_none(self.logger)), ("given", V.is_ref(self.logger))]) == 1:
            st.declare_class(self.logger, "Logger")
        st.ghost["$in_init"] = True
        return method(it, info, self.obj, "__init__"), CallArgs(kw={
            "trace_id": self.trace, "scope": self.scope_name, "logger": self.logger, "parent": V.VNone,
            "completion": V.VNone})

    def on_return(self, it, ret):
        st = it.st
        o = self.obj
        tid, ident = st.get(o, "trace_id"), st.get(o, "identifier")
        uu = st.ghost.get("$uuids", [])
        given = z3.And(V.is_str(self.trace), L.str_len(V.sid(self.trace)) > 0)
        st.check("P1:a-given-trace-id-is-used", z3.Implies(given, tid == self.trace))
        st.check("P1:without-one-a-fresh-id-is-generated",
                 z3.Implies(z3.Not(given), z3.BoolVal(len(uu) == 2) if len(uu) != 2 else tid == uu[0]))
        st.check("P2:the-identifier-is-fresh-and-unique-per-scope", z3.BoolVal(bool(uu)) if not uu else ident == uu[-1])
        pre = st.get(o, "_logger_prefix")
        ps = parts_of(V.sid(pre))
        has = lambda v: any(p.eq(z3.simplify(V.sid(v))) or p.eq(z3.simplify(L.render(v))) for p in ps)
        st.check("P2:the-prefix-carries-the-trace-id-and-the-identifier", z3.BoolVal(has(tid) and has(ident)))
        st.check("P2:the-prefix-carries-the-scope-name-when-there-is-one",
                 z3.Implies(L.str_len(V.sid(self.scope_name)) > 0, z3.BoolVal(has(self.scope_name))))
        lg = st.get(o, "_logger")
        st.check("P1:a-given-logger-is-used", z3.Implies(V.is_ref(self.logger), lg == self.logger))
        named = st.ghost.get("$loggers", {})
        st.check("P1:without-one-the-logger-is-named-after-the-scope",
                 z3.Implies(V.is_none(self.logger),
                            z3.BoolVal(len(named) == 1) if len(named) != 1 else
                            z3.And(lg == list(named.values())[0], st.get(lg, "name") == self.scope_name)))

    def on_raise(self, it, exc):
        it.st.check("P4:creating-a-scope-never-raises", z3.BoolVal(False))


class ScopeLog(_Log):
    file, func, name = FILE, "ScopeMetrics.log", "C19/metrics:ScopeMetrics.log"

    def setup(self, it, env):
        st = it.st
        info = repo_class(it, FILE, "ScopeMetrics")
        self.obj = st.sym_ref("self", info.cid)
        lg = st.get(self.obj, "_logger")
        st.assume(z3.And(V.is_ref(lg), V.addr(lg) >= 0, V.addr(lg) < 1_000_000))
        st.declare_class(lg, "Logger")
        self.lg = lg
        self.prefix = st.get(self.obj, "_logger_prefix")
        st.assume(V.is_str(self.prefix))
        for f in ("label", "trace_id", "identifier"):          # declared `str` attributes (type invariant of the input)
            st.assume(V.is_str(st.get(self.obj, f)))
        # the scope may be in any stage of its life: running, left, completed (a task that outlives its scope still logs
        # through it - helpers such as retry do, between attempts)
        fut = st.get(self.obj, "_completed")
        st.assume(z3.And(V.is_ref(fut), V.addr(fut) >= 0, V.addr(fut) < 1_000_000, V.addr(fut) != V.addr(lg)))
        st.declare_class(fut, "Future")
        st.assume(V.is_int(st.get(fut, "$fstate")))
        st.assume(V.is_bool(st.get(self.obj, "_finished")))
        self.level = V.VInt(st.fresh("level", I))
        self.message = V.VStr(st.fresh("message", I))
        self.args = sym_tuple(it, "args")
        self.exception = st.fresh_val("exception")
        return method(it, info, self.obj, "log"), CallArgs([self.level, self.message], star=self.args,
                                                         kw={"exception": self.exception})

    def on_return(self, it, ret):
        st = it.st
        logs = [e for e in st.events if e[0] == "log"]
        st.check("P2:exactly-one-record-is-emitted", z3.BoolVal(len(logs) == 1))
        if len(logs) != 1:
            return
        _, logger, ca = logs[0]
        st.check("P2:to-the-scope's-logger-at-the-requested-level",
                 z3.And(logger == self.lg, z3.BoolVal(len(ca.pos) >= 2) if len(ca.pos) < 2 else ca.pos[0] == self.level))
        st.check("P2:with-the-exception-attached", z3.BoolVal("exc_info" in ca.kw) if "exc_info" not in ca.kw
                 else ca.kw["exc_info"] == self.exception)
        fmt = ca.pos[1]
        ps = parts_of(V.sid(fmt))
        raw = z3.simplify(V.sid(self.prefix))
        esc = z3.simplify(L.replace_term(it, V.sid(self.prefix), V.sid(it.mk_str("%")), V.sid(it.mk_str("%%"))))
        msg_leaf = [p for p in ps if p.eq(z3.simplify(V.sid(self.message)))]
        st.check("P2:the-text-is-the-scope-prefix-followed-by-the-message",
                 z3.BoolVal(len(ps) == 3 and len(msg_leaf) == 1 and ps[2].eq(msg_leaf[0])))
        no_args = st.entails(V.is_nil(V.items(self.args)))
        st.check("P3:the-callers-format-arguments-are-passed-unchanged",
                 z3.BoolVal(len(ca.pos) == 2 and ((ca.star is not None and ca.star.eq(self.args)) or (ca.star is None and no_args))))
        formatting = z3.Not(V.is_nil(V.items(self.args)))        # logging applies msg % args only when args is non-empty
        if len(ps) == 3:
            lead = ps[0]
            st.meta.update(formatting=formatting)
            # semantic, not structural: a path on which the prefix provably holds no "%" may use it verbatim
            st.check("P5:when-%-formatting-applies-the-prefix-contributes-no-conversion-specifier",
                     z3.Implies(formatting, lead == esc))
            st.check("P5:when-no-formatting-applies-the-prefix-is-shown-verbatim",
                     z3.Implies(z3.Not(formatting), lead == raw))

    def on_raise(self, it, exc):
        it.st.check("P4:logging-never-raises", z3.BoolVal(False))


class ScopeFactory(_Log):
    """MetricsContext.scope: parent, trace id and logger inheritance (also C09: registration under the
    current scope at creation time; a fresh ScopeMetrics per MetricsContext)."""
    file, func, name = FILE, "MetricsContext.scope", "C19/metrics:MetricsContext.scope"
    props = ("C19", "C09")

    def instantiate(self, it, info, cargs, node):
        if info.name == "ScopeMetrics":
            self.made.append(cargs)
            o = it.st.alloc(info.cid)
            self.made_objs.append(o)
            return o
        return None

    def run(self, it):
        st = it.st
        st.contract = self
        it.engine.repo.find(self.file, self.func)
        self.raised, self.made, self.made_objs = [], [], []
        self.cv = self.cvs(it)
        var = self.cv["MetricsContext"]
        inside = st.fork("where", [("inside-a-scope", L.cv_is_set(it, var)), ("outermost", z3.Not(L.cv_is_set(it, var)))]) == 0
        cur = L.cv_value(it, var)
        sm = repo_class(it, FILE, "ScopeMetrics")
        if inside:
            st.assume(z3.And(V.is_ref(cur), V.addr(cur) >= 0, V.addr(cur) < 1_000_000))
            st.declare_class(cur, sm.cid)
            cl = st.get(cur, "_logger")
            st.assume(z3.And(V.is_ref(cl), V.addr(cl) >= 0, V.addr(cl) < 1_000_000))
            st.declare_class(cl, "Logger")
            ct_ = st.get(cur, "trace_id")
            st.assume(z3.And(V.is_str(ct_), L.str_len(V.sid(ct_)) > 0))
        name = V.VStr(st.fresh("name", I))
        trace = st.fresh_val("trace_id")
        st.assume(z3.Or(V.is_none(trace), z3.And(V.is_str(trace), L.str_len(V.sid(trace)) > 0)))
        logger = st.fresh_val("logger")
        st.assume(z3.Or(V.is_none(logger), z3.And(V.is_ref(logger), V.addr(logger) >= 0, V.addr(logger) < 1_000_000)))
        if st.fork("logger-argument", [("none", V.is_none(logger)), ("given", V.is_ref(logger))]) == 1:
            st.declare_class(logger, "Logger")
        completion = st.fresh_val("completion")
        minfo = repo_class(it, FILE, "MetricsContext")
        f = it.class_attr(minfo, "scope", V.VCls(z3.IntVal(minfo.cid)))
        try:
            ret = it.call(f, CallArgs([name], {"trace_id": trace, "logger": logger, "completion": completion}))
        except PyRaise:
            st.check("C19-P4:building-a-metrics-scope-never-raises", z3.BoolVal(False))
            return
        ok = len(self.made) == 1
        st.check("C09-P0:every-metrics-context-gets-its-own-newly-created-scope",
                 z3.BoolVal(ok) if not ok else z3.And(st.get(ret, "_metrics") == self.made_objs[0], V.is_none(st.get(ret, "_token"))))
        if not ok:
            return
        ca = self.made[0]
        st.check("C19-P2:the-scope-is-named-as-requested", ca.kw.get("scope") == name)
        st.check("C09-P0:the-completion-callback-is-passed-on", ca.kw.get("completion") == completion)
        if inside:
            st.check("C09-P0:the-new-scope-is-registered-under-the-scope-current-at-creation", ca.kw.get("parent") == cur)
            st.check("C19-P1:nested:own-trace-id-else-the-enclosing-one",
                     ca.kw.get("trace_id") == z3.If(V.is_none(trace), st.get(cur, "trace_id"), trace))
            st.check("C19-P1:nested:own-logger-else-the-enclosing-one",
                     ca.kw.get("logger") == z3.If(V.is_none(logger), st.get(cur, "_logger"), logger))
        else:
            st.check("C09-P0:an-outermost-scope-has-no-parent", V.is_none(ca.kw.get("parent")))
            st.check("C19-P1:outermost:the-given-trace-id-and-logger-are-passed-on(fresh/named-ones-are-made-by-__init__)",
                     z3.And(ca.kw.get("trace_id") == trace, ca.kw.get("logger") == logger))
        st.check("canary", z3.BoolVal(False), kind="canary")


class ContextLog(_Log):
    """MetricsContext.log_<level> (+ ctx.log_<level>): inside a scope -> that scope's log with the
    level; outside -> root logger, message and arguments unchanged; never raises."""
    level_fn = "log_error"
    via_ctx = False

    def callee(self, it, fv):
        if fv.qualname == "ScopeMetrics.log":
            def spec(it2, fv2, ca, node):
                self.scope_logs.append((fv2.bound, ca))
                return V.VNone
            return spec
        return super().callee(it, fv)

    def run(self, it):
        st = it.st
        st.contract = self
        it.engine.repo.find(self.file, self.func)
        self.raised, self.scope_logs = [], []
        self.cv = self.cvs(it)
        var = self.cv["MetricsContext"]
        inside = st.fork("where", [("inside-a-scope", L.cv_is_set(it, var)), ("outside-any-scope", z3.Not(L.cv_is_set(it, var)))]) == 0
        cur = L.cv_value(it, var)
        sm = repo_class(it, FILE, "ScopeMetrics")
        if inside:
            st.assume(z3.And(V.is_ref(cur), V.addr(cur) >= 0, V.addr(cur) < 1_000_000))
            st.declare_class(cur, sm.cid)
        message = V.VStr(st.fresh("message", I))
        args = sym_tuple(it, "args")
        exception = st.fresh_val("exception")
        has_exc = self.level_fn != "log_info"
        kw = {"exception": exception} if has_exc else {}
        if self.via_ctx:
            cinfo = repo_class(it, "context/access.py", "ctx")
            f = it.class_attr(cinfo, self.level_fn, V.VCls(z3.IntVal(cinfo.cid)))
        else:
            minfo = repo_class(it, FILE, "MetricsContext")
            f = it.class_attr(minfo, self.level_fn, V.VCls(z3.IntVal(minfo.cid)))
        try:
            it.call(f, CallArgs([message], star=args, kw=kw))
        except PyRaise:
            st.check("C19-P4:logging-through-the-context-never-raises", z3.BoolVal(False))
            return
        lvl = LEVELS[self.level_fn]
        if inside:
            ok = len(self.scope_logs) == 1
            st.check("C19-P2:inside-a-scope-the-line-goes-to-the-current-scope", z3.BoolVal(ok) if not ok else self.scope_logs[0][0] == cur)
            if ok:
                ca = self.scope_logs[0][1]
                shape = len(ca.pos) == 2 and ca.star is not None and ca.star.eq(args)
                st.check("C19-P2:at-the-requested-level-with-message-and-arguments-unchanged",
                         z3.BoolVal(shape) if not shape else z3.And(ca.pos[0] == V.VInt(z3.IntVal(lvl)), ca.pos[1] == message))
                if has_exc:
                    st.check("C19-P2:with-the-exception-attached", z3.BoolVal("exception" in ca.kw) if "exception" not in ca.kw
                             else ca.kw["exception"] == exception)
            st.check("C19-P3:nothing-goes-to-the-root-logger", z3.BoolVal(not [e for e in st.events if e[0] == "log"]))
        else:
            logs = [e for e in st.events if e[0] == "log"]
            ok = len(logs) == 1 and not self.scope_logs
            st.check("C19-P3:outside-any-scope-one-untagged-line-goes-to-the-root-logger", z3.BoolVal(ok))
            if ok:
                _, logger, ca = logs[0]
                root = st.ghost.get("$loggers", {}).get("root")
                shape = len(ca.pos) == 2 and ca.star is not None and ca.star.eq(args)
                st.check("C19-P3:root-logger-level-message-and-arguments-unchanged",
                         z3.BoolVal(shape and root is not None) if not (shape and root is not None) else
                         z3.And(logger == root, ca.pos[0] == V.VInt(z3.IntVal(lvl)), ca.pos[1] == message))
        st.check("canary", z3.BoolVal(False), kind="canary")


def _mk(level, via_ctx):
    f = ("context/access.py", f"ctx.{level}") if via_ctx else (FILE, f"MetricsContext.{level}")
    return type(f"Log_{level}_{'ctx' if via_ctx else 'mc'}", (ContextLog,), dict(
        file=f[0], func=f[1], name=f"C19/{'access' if via_ctx else 'metrics'}:{f[1]}", level_fn=level, via_ctx=via_ctx))()


C19P = ("C19-", "P1:", "P2:", "P3:", "P4:", "P5:")
CONTRACTS = [InitTags(), ScopeLog(),
             type("C19ScopeFactory", (ScopeFactory,), dict(keep=staticmethod(lambda n: n.startswith("C19-") or n == "canary")))()] + \
            [_mk(lv, v) for lv in LEVELS for v in (False, True)]

# "outside any scope messages go untagged to the root logger", "an outermost scope without one gets a fresh id / a logger named after
# it": which scope counts as current is the metrics variable - restored (or cleared) on every way out of a block
from .C02 import AsyncScope as _AsyncScope, SyncScope as _SyncScope, variant as _variant      # noqa: E402

_c19 = lambda n: n.startswith("C02-P0") or "MetricsContext-variable-is-what-it-was" in n      # noqa: E731
CONTRACTS = CONTRACTS + [_variant(_AsyncScope, "C19", _c19), _variant(_SyncScope, "C19", _c19)]

# "... in the creating task and in spawned tasks": a spawned task logs through the scope that was current where it was spawned -
# it runs in a snapshot of the context taken at the spawn point, its own copy (C03-P1 of TaskGroupContext.run / ctx.spawn)
from .C06 import Run as _Run, Spawn as _Spawn      # noqa: E402
CONTRACTS = CONTRACTS + [_variant(_Run, "C19", ("C03-P1",)), _variant(_Spawn, "C19", ("C03-P1",))]
