"""C13 - async cache shares one in-flight call; cancelling a waiter harms no one else.

The scenario is the one of C12 for helpers/caching.py::_AsyncCache.__call__/__method_call__; the
clauses reported here are:
  C13-P1 on a miss exactly one invocation is started (loop.create_task(function(...))) and stored
         under the key before the first suspension (atomic segment, S4) - so a concurrent caller
         with the same key finds it;
  C13-P2 every caller waits on shield(<the cached task>) - the entry's task on a hit, the new task
         on a miss - and returns / raises that task's outcome; a cancelled waiter raises
         CancelledError and (T-SHIELD) leaves the task untouched;
  C13-P3 no path calls cancel() on a cached task: expiry and eviction only drop the entry.
With T-SHIELD and T-FUT these give the statement; the schedule quantifier is carried by S4 and
T-SHIELD, i.e. assumed - the proof is of the call shapes on every path of the real code.
"""
from .C12 import AsyncCall, AsyncMethod, KeyAdequacy, c13_variant


def _ka13(base, nm):
    """"callers ... with the same key share a single invocation": which calls *have* the same key is part of the statement -
    equal, type-identical arguments and, for methods, the same receiver instance (the key-adequacy lemmas of C12)."""
    return type(nm, (KeyAdequacy,), dict(file=base.file, func=base.func, cls=base.cls, meth=base.meth, is_async=True,
                                         is_method=base.is_method, props=("C13",),
                                         name=base.name.replace("C12/", "C13/") + "(key-adequacy)"))()


CONTRACTS = [c13_variant(AsyncCall), c13_variant(AsyncMethod), _ka13(AsyncCall, "KA13Async"), _ka13(AsyncMethod, "KA13AsyncMethod")]


def extra_contracts():
    from .common import mimic_variants
    from .C02 import _metrics_exit_never_raises
    # "cancelling any caller never ... disturbs the other callers": the shared invocation runs in a copy of the first caller's
    # context; when that caller is cancelled and its scope completes, scopes the invocation opens afterwards are made under a
    # completed scope and must detach cleanly (C09's completion protocol) - otherwise the invocation fails for everybody
    return mimic_variants("C13") + _metrics_exit_never_raises("C13")
