"""C13 - async cache shares one in-flight call; cancelling a waiter harms no one else.

The scenario is the one of C12 for helpers/caching.py::_AsyncCache.__call__/__method_call__; the
clauses reported here are:
  C13-P1 on a miss exactly one invocation is started (loop.create_task(function(...))) and stored
         under the key before the first suspension (atomic segment, S4) - so a concurrent caller
         with the same key finds it;
  C13-P2 every caller waits on shield(<the cached task>) - the entry's task on a hit, the new task
         on a miss - and returns / raises that task's outcome; a cancelled waiter raises
         CancelledError and (T-SHIELD) leaves the task untouched;
  C13-P3 no path calls cancel() on a cached task: expiry and eviction only drop the entry.
With T-SHIELD and T-FUT these give the statement; the schedule quantifier is carried by S4 and
T-SHIELD, i.e. assumed - the proof is of the call shapes on every path of the real code.
"""
from .C12 import AsyncCall, AsyncMethod, c13_variant

CONTRACTS = [c13_variant(AsyncCall), c13_variant(AsyncMethod)]


def extra_contracts():
    from .common import mimic_variants
    return mimic_variants("C13")
