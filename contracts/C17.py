"""C17 - AsyncQueue delivers every element exactly once, in order, then the finish reason.

Functions under contract: utils/queue.py::AsyncQueue.__init__/enqueue/finish/cancel/__anext__.

Ghost: ENQ = (enq_arr, enq_n) every element accepted so far (history variable, only grows);
       DEL = the first del_n elements of ENQ are exactly the elements delivered so far, in order.
Object invariant  ENQ = DEL ++ inflight(W) ++ buffer,  W the waiter future of the single consumer.
Every atomic segment (enqueue, finish, cancel, __init__, __anext__ up to its await, __anext__ from
every possible resumption of the await to its exit) preserves the invariant; interference of the
producers at the await is the havoc of the shared fields up to the invariant (rely), which each
producer operation guarantees.  "For every interleaving" follows by induction over atomic segments
(S4: single event loop).
"""
from __future__ import annotations

import ast

import z3

from .common import *
from pyvc.lib import fstate, fval, F_PENDING, F_RESULT, F_EXC, F_CANCELLED

FILE = "utils/queue.py"


class _Q(Contract):
    props = ("C17",)
    trusted = ("S4 (atomic segments between awaits, single event loop)", "T-FUT", "T-COLL(deque)")
    assumptions = (
        "requires: single consumer (the source's own assert `self._waiting is None` on entry of __anext__)",
        "exception objects are truthy (define neither __bool__ nor __len__)",
        "the rely used at the await of __anext__ is exactly the guarantee proved for enqueue/finish/cancel",
    )

    # ---------------------------------------------------------------------------------- state
    def mk_self(self, it):
        st = it.st
        self.obj, self.info = sym_instance(it, FILE, "AsyncQueue")
        o = self.obj
        q = st.get(o, "_queue")
        st.assume(V.is_ref(q))
        st.declare_class(q, "deque")
        loop = st.get(o, "_loop")
        st.assume(V.is_ref(loop))
        st.declare_class(loop, "EventLoop")
        w = st.get(o, "_waiting")
        st.assume(z3.Or(V.is_none(w), z3.And(V.is_ref(w), V.addr(w) >= 0, V.addr(w) < 1_000_000)))
        g = st.ghost
        g["enq_arr"] = st.fresh("ENQ", V.ArrIV)
        g["enq_n"] = st.fresh("enq_n", I)
        g["del_n"] = st.fresh("del_n", I)
        st.hints += [g["enq_n"] <= 3, st.get(q, "$lo") == 0]
        return o

    def W(self, it):
        return it.st.get(self.obj, "_waiting")

    def FR(self, it):
        return it.st.get(self.obj, "_finish_reason")

    def qview(self, it):
        st = it.st
        q = st.get(self.obj, "_queue")
        return st.get(q, "$arr"), st.get(q, "$lo"), st.get(q, "$hi")

    def declare_waiter(self, it):
        """Tell the engine that a non-None waiter is a Future (class hint for attribute dispatch)."""
        w = self.W(it)
        if it.kind(w) == "ref":
            it.st.declare_class(w, "Future")

    def inv(self, it, ghost=None):
        st = it.st
        g = ghost or st.ghost
        w, fr = self.W(it), self.FR(it)
        qarr, qlo, qhi = self.qview(it)
        wf = z3.Not(V.is_none(w))
        ws = V.ival(st.get(w, "$fstate"))
        wv = st.get(w, "$fval")
        infl = z3.If(z3.And(wf, ws == F_RESULT), 1, 0)
        i, j = z3.Ints("i!inv j!inv")
        enq, n, d = g["enq_arr"], g["enq_n"], g["del_n"]
        return [
            ("waiter-is-none-or-future", z3.Or(V.is_none(w), z3.And(V.is_ref(w), V.class_of(V.addr(w)) == it.ct.id("Future"),
                                                                     ws >= 0, ws <= 3, V.is_int(st.get(w, "$fstate"))))),
            ("count", z3.And(d >= 0, qlo <= qhi, d + infl + (qhi - qlo) == n)),
            ("inflight-is-next", z3.Implies(infl == 1, wv == z3.Select(enq, d))),
            ("buffer-is-rest-in-order",
             forall([j], z3.Implies(z3.And(qlo <= j, j < qhi),
                                    z3.Select(qarr, j) == z3.Select(enq, d + infl + (j - qlo))),
                    patterns=[z3.Select(qarr, j)])),
            ("waiter-fails-only-with-finish-reason",
             z3.Implies(z3.And(wf, ws == F_EXC), z3.And(z3.Not(V.is_none(fr)), wv == fr))),
            ("failed-waiter-means-empty-buffer", z3.Implies(z3.And(wf, ws == F_EXC), qhi == qlo)),
            ("pending-waiter-means-empty-unfinished",
             z3.Implies(z3.And(wf, ws == F_PENDING), z3.And(qhi == qlo, V.is_none(fr)))),
            ("finish-reason-is-none-or-exception",
             z3.Or(V.is_none(fr), z3.And(V.is_ref(fr), V.subclass(V.class_of(V.addr(fr)), it.ct.id("BaseException"))))),
        ]

    def assume_inv(self, it):
        for _, f in self.inv(it):
            it.st.assume(f)
        self.declare_waiter(it)

    def check_inv(self, it, tag: str, kind="property"):
        for nm, f in self.inv(it):
            it.st.check(f"{tag}:inv:{nm}", f, kind=kind)

    def snapshot(self, it):
        st = it.st
        self.h0 = st.snapshot_heap()
        self.w0, self.fr0 = self.W(it), self.FR(it)
        self.q0 = self.qview(it)
        self.g0 = dict(st.ghost)
        self.ws0 = V.ival(st.get(self.w0, "$fstate"))
        self.wv0 = st.get(self.w0, "$fval")

    def guarantee(self, it, tag: str):
        """What producer operations promise to the suspended consumer (its rely)."""
        st = it.st
        w = self.W(it)
        st.check(f"{tag}:G:_waiting-not-written", w == self.w0, kind="frame")
        ws = V.ival(st.get(self.w0, "$fstate"))
        st.check(f"{tag}:G:waiter-state-only-leaves-pending",
                 z3.Implies(z3.And(z3.Not(V.is_none(self.w0)), self.ws0 != F_PENDING),
                            z3.And(ws == self.ws0, st.get(self.w0, "$fval") == self.wv0)), kind="frame")
        st.check(f"{tag}:G:waiter-never-cancelled-by-producers",
                 z3.Implies(z3.Not(V.is_none(self.w0)), z3.Or(ws == self.ws0, ws == F_RESULT, ws == F_EXC)), kind="frame")
        st.check(f"{tag}:G:delivered-count-unchanged", st.ghost["del_n"] == self.g0["del_n"], kind="frame")
        fr = self.FR(it)
        st.check(f"{tag}:G:finish-reason-set-at-most-once",
                 z3.Implies(z3.Not(V.is_none(self.fr0)), fr == self.fr0), kind="frame")

    def extend_enq(self, it, elems: list, star=None):
        """ENQ' = ENQ ++ elems ++ star   (the witness for the history variable)."""
        st = it.st
        g = st.ghost
        arr, n = g["enq_arr"], g["enq_n"]
        for e in elems:
            arr = z3.Store(arr, n, e)
            n = st.simp(n + 1)
        if star is not None:
            sarr, slo, shi = lib.seq_view(it, star)
            k = z3.Int("k!enq")
            ln = shi - slo
            arr = z3.Lambda([k], z3.If(z3.And(k >= n, k < n + ln), z3.Select(sarr, slo + (k - n)), z3.Select(arr, k)))
            n = st.simp(n + ln)
        g["enq_arr"], g["enq_n"] = arr, n


# -------------------------------------------------------------------------------------------------
class Init(_Q):
    file, func, name = FILE, "AsyncQueue.__init__", "C17/queue:AsyncQueue.__init__"

    def setup(self, it, env):
        st = it.st
        info = repo_class(it, FILE, "AsyncQueue")
        self.info = info
        self.obj = st.alloc(info.cid)
        self.elements = sym_tuple(it, "elements")
        st.ghost["$in_init"] = True
        loop = st.fresh_val("loop_arg")
        st.assume(z3.Or(V.is_none(loop), is_instance_of(it, loop, "EventLoop")))
        st.hints += [lib.tup_len(V.items(self.elements)) <= 2]
        return method(it, info, self.obj, "__init__"), CallArgs(star=self.elements, kw={"loop": loop})

    def on_return(self, it, ret):
        st = it.st
        g = st.ghost
        arr, lo, hi = lib.seq_view(it, self.elements)
        g["enq_arr"], g["enq_n"], g["del_n"] = arr, st.simp(hi - lo), z3.IntVal(0)
        self.check_inv(it, "P3:init")
        st.check("P3:init:not-finished", V.is_none(self.FR(it)))

    def on_raise(self, it, exc):
        it.st.check("P3:init-never-raises", z3.BoolVal(False))


class Enqueue(_Q):
    file, func, name = FILE, "AsyncQueue.enqueue", "C17/queue:AsyncQueue.enqueue"

    def setup(self, it, env):
        st = it.st
        o = self.mk_self(it)
        self.assume_inv(it)
        self.snapshot(it)
        self.element = st.fresh_val("element")
        self.elements = sym_tuple(it, "elements")
        st.hints += [lib.tup_len(V.items(self.elements)) <= 2]
        return method(it, self.info, o, "enqueue"), CallArgs([self.element], star=self.elements)

    def on_return(self, it, ret):
        st = it.st
        st.check("P3:accepts-only-when-not-finished", V.is_none(self.fr0))
        self.extend_enq(it, [self.element], self.elements)
        self.check_inv(it, "P1:enqueue")
        self.guarantee(it, "enqueue")

    def on_raise(self, it, exc):
        st = it.st
        st.check("P3:enqueue-fails-only-after-finish", z3.Not(V.is_none(self.fr0)))
        st.check("P3:enqueue-after-finish-raises-RuntimeError", is_exc(it, exc, "RuntimeError"))
        self.check_inv(it, "P3:enqueue-after-finish-changes-nothing")
        qarr, qlo, qhi = self.qview(it)
        st.check("P3:enqueue-after-finish-buffer-untouched",
                 z3.And(qlo == self.q0[1], qhi == self.q0[2]))
        self.guarantee(it, "enqueue-failed")


class Finish(_Q):
    file, func, name = FILE, "AsyncQueue.finish", "C17/queue:AsyncQueue.finish"

    def setup(self, it, env):
        st = it.st
        o = self.mk_self(it)
        self.assume_inv(it)
        self.snapshot(it)
        self.exception = st.fresh_val("exception")
        st.assume(z3.Or(V.is_none(self.exception),
                        z3.And(V.is_ref(self.exception), V.addr(self.exception) >= 0, V.addr(self.exception) < 1_000_000,
                               V.subclass(V.class_of(V.addr(self.exception)), it.ct.id("BaseException")))))
        return method(it, self.info, o, "finish"), CallArgs(kw={"exception": self.exception})

    def on_return(self, it, ret):
        st = it.st
        fr = self.FR(it)
        self.check_inv(it, "P1:finish")
        self.guarantee(it, "finish")
        st.check("P3:finish-is-idempotent", z3.Implies(z3.Not(V.is_none(self.fr0)), fr == self.fr0))
        st.check("P3:finish-sets-the-given-reason",
                 z3.Implies(z3.And(V.is_none(self.fr0), z3.Not(V.is_none(self.exception))), fr == self.exception))
        st.check("P3:finish-without-reason-means-end-of-iteration",
                 z3.Implies(z3.And(V.is_none(self.fr0), V.is_none(self.exception)),
                            z3.And(V.is_ref(fr), V.class_of(V.addr(fr)) == it.ct.id("StopAsyncIteration"))))
        st.check("P3:finish-keeps-the-buffer",
                 z3.And(self.qview(it)[1] == self.q0[1], self.qview(it)[2] == self.q0[2]))
        st.check("P3:finished-afterwards", z3.Not(V.is_none(fr)))

    def on_raise(self, it, exc):
        it.st.check("P3:finish-never-raises", z3.BoolVal(False))


class Cancel(Finish):
    file, func, name = FILE, "AsyncQueue.cancel", "C17/queue:AsyncQueue.cancel"

    def setup(self, it, env):
        st = it.st
        o = self.mk_self(it)
        self.assume_inv(it)
        self.snapshot(it)
        self.exception = V.VNone
        return method(it, self.info, o, "cancel"), CallArgs()

    def on_return(self, it, ret):
        st = it.st
        fr = self.FR(it)
        self.check_inv(it, "P1:cancel")
        self.guarantee(it, "cancel")
        st.check("P3:cancel-finishes-with-CancelledError",
                 z3.If(V.is_none(self.fr0),
                       z3.And(V.is_ref(fr), V.class_of(V.addr(fr)) == it.ct.id("CancelledError")),
                       fr == self.fr0))


class Next(_Q):
    file, func, name = FILE, "AsyncQueue.__anext__", "C17/queue:AsyncQueue.__anext__"

    def setup(self, it, env):
        st = it.st
        o = self.mk_self(it)
        self.assume_inv(it)
        self.snapshot(it)
        self.suspended = False
        return method(it, self.info, o, "__anext__"), CallArgs()

    def assert_mode(self, it, node):
        # the leading assert is the single-consumer precondition of the statement
        return "assume"

    # -- the await: end of segment 1, interference by the producers, resumption --------------------
    def segment_end(self, it, aw, idx):
        st = it.st
        self.suspended = True
        w = self.W(it)
        st.check("P2:waits-only-when-buffer-empty-and-not-finished",
                 z3.And(self.q0[1] == self.q0[2], V.is_none(self.fr0)))
        st.check("P2:awaits-its-own-waiter", z3.BoolVal(bool(aw.kind == "future" and aw.data["fut"].eq(w))))
        self.check_inv(it, "P1:anext-suspends")
        self.w_susp = w

    def interfere(self, it, aw, idx):
        st = it.st
        g = st.ghost
        old_arr, old_n = g["enq_arr"], g["enq_n"]
        for f in ("$arr", "$lo", "$hi", "_finish_reason", "$fstate", "$fval"):
            st.havoc_field(f)
        q = st.get(self.obj, "_queue")
        g["enq_arr"] = st.fresh("ENQ.i", V.ArrIV)
        g["enq_n"] = st.fresh("enq_n.i", I)
        k = z3.Int("k!pre")
        st.assume(g["enq_n"] >= old_n)
        st.assume(forall([k], z3.Implies(z3.And(0 <= k, k < old_n), z3.Select(g["enq_arr"], k) == z3.Select(old_arr, k)),
                            patterns=[z3.Select(g["enq_arr"], k)]))
        st.hints += [g["enq_n"] <= 3, st.get(q, "$lo") == 0]
        for _, f in self.inv(it):
            st.assume(f)
        # rely: producers never cancel the waiter (guarantee G:waiter-never-cancelled-by-producers)
        st.assume(fstate(it, self.w_susp) != F_CANCELLED)

    def cancel_awaiting_task(self, it, aw, idx):
        return True

    # -- exits -------------------------------------------------------------------------------------
    def on_return(self, it, ret):
        st = it.st
        g = st.ghost
        cancelled = any(l.endswith(("task-cancelled-while-pending", "task-cancelled-after-result",
                                    "task-cancelled-after-exception")) for l in st.labels)
        # a cancellation delivered to the receiving task at its suspension point is never swallowed - also when an element had
        # already been handed over (the element goes back to the front of the buffer): a consumer that returned normally here
        # would go on as if nobody had asked it to stop (a scope waiting for it would wait for ever)
        st.check("P2:a-cancelled-receive-never-returns-normally(the-cancellation-is-not-swallowed)", z3.BoolVal(not cancelled))
        st.check("P1:returns-the-next-undelivered-element", ret == z3.Select(g["enq_arr"], g["del_n"]))
        st.check("P1:something-was-enqueued", g["del_n"] < g["enq_n"])
        g["del_n"] = st.simp(g["del_n"] + 1)
        self.check_inv(it, "P1:anext-returns")
        st.check("P1:waiter-cleared", V.is_none(self.W(it)))

    def on_raise(self, it, exc):
        st = it.st
        self.check_inv(it, "P1:anext-raises")
        st.check("P1:waiter-cleared", V.is_none(self.W(it)))
        fr = self.FR(it)
        cancelled = any(l.endswith(("task-cancelled-while-pending", "task-cancelled-after-result",
                                    "task-cancelled-after-exception")) for l in st.labels)
        if not cancelled:
            st.check("P2:a-receive-fails-only-with-the-finish-reason",
                     z3.And(z3.Not(V.is_none(fr)), exc == fr))
            qarr, qlo, qhi = self.qview(it)
            st.check("P2:finish-reason-only-after-the-buffer-is-drained", qlo == qhi)
        else:
            st.check("P2:cancelled-receive-raises-CancelledError", is_exc(it, exc, "CancelledError"))


CONTRACTS = [Init(), Enqueue(), Finish(), Cancel(), Next()]
