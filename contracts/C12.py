"""C12 - cache returns only right-key, unexpired results and retains the LRU `limit`.
C13 clauses for the async variants live in C13.py and reuse the scenario defined here.

Functions under contract: helpers/caching.py::_SyncCache.__init__/__call__/__method_call__ and
::_AsyncCache.__init__/__call__/__method_call__ (the constructors are executed symbolically to build
the receiver, so `_next_expire_time`, `_limit` and the empty `_cached` come from the real code).

Ghost: for every cached key k:  EV[k] the stored value (sync: the result; async: the Task),
EE[k] its expiry stamp, INS[k] the clock reading at insertion, and the relation
produced[k, v] = "the wrapped function was invoked by a call whose key was k and delivered v"
(async: "task v runs the function for a call whose key was k").
Object invariant: the OrderedDict is well formed, holds at most `limit` keys, and every entry is
(EV[k], EE[k]) with produced[k, EV[k]] and EE[k] = INS[k] + expiration (None without expiration).
Key adequacy (P4) is a relational obligation on the real key expression: two calls build equal keys
iff their arguments have equal typed keys (T-KEY) - and, for methods, only if the receiver is the
same object.
"""
from __future__ import annotations

import z3

from .common import *
from pyvc.state import QFact
from pyvc.lib import fstate, fval, F_PENDING, F_RESULT, F_EXC, F_CANCELLED, dict_parts, dict_wf

FILE = "helpers/caching.py"
PROD = z3.ArraySort(Val, Val, B)


class _StopAtKey(Exception):
    pass


class _CacheBase(Contract):
    props = ("C12", "C13")
    cls = "_SyncCache"
    meth = "__call__"
    is_async = False
    is_method = False
    trusted = ("S1/S7 (real-valued monotonic clock)", "S4", "T-COLL(OrderedDict: insertion order, move_to_end, "
               "popitem(last=False))", "T-KEY (functools._make_key(typed=True): keys equal iff arguments pairwise "
               "equal with identical types)", "T-WREF", "T-ID", "T-SHIELD", "T-FUT")
    assumptions = (
        "requires (property configurations): limit >= 1; expiration is None or a positive number",
        "the wrapped function does not re-enter the same cache object while it runs (sync variants)",
        "LRU completeness (P5) is proved in step form: a key leaves the cache only through its own expiry or as "
        "the least recently used key when a new key overflows `limit`; the closed form over whole histories "
        "is exercised natively by the bounded replay harness only",
        "callee contract: mimic_function returns `within` (C18-P4)",
    )

    def attr(self, it, obj, name, node):
        # cache entries are `_CacheEntry(value, expire)` named tuples: field access by name is item access by position
        if name in ("value", "expire") and it.kind(obj) == "tuple":
            return lib.getitem(it, obj, V.VInt(z3.IntVal(0 if name == "value" else 1)), node)
        return None

    # ---------------------------------------------------------------------------------- scenario
    def callee(self, it, fv):
        if fv.qualname == "mimic_function":
            return lambda it2, fv2, cargs, node: cargs.arg(1, "within", V.VNone)
        return None

    def build(self, it):
        st = it.st
        g = st.ghost
        info = repo_class(it, FILE, self.cls)
        self.info = info
        self.fn = st.reg_fun(OracleV("function", spec=self.fn_spec, is_async=self.is_async))
        limit = st.fresh("limit", I)
        st.assume(limit >= 1)
        self.limit = limit
        exp = st.fresh_val("expiration")
        if st.fork("expiration", [("none", V.is_none(exp)), ("positive", z3.Or(V.is_float(exp), V.is_int(exp)))]) == 0:
            self.exp = None
        else:
            self.exp = z3.If(V.is_float(exp), V.rval(exp), z3.ToReal(V.ival(exp)))
            st.assume(self.exp > 0)
        self.obj = it.instantiate(info.cid, CallArgs([self.fn], {"limit": V.VInt(limit), "expiration": exp}))
        self.cached = st.get(self.obj, "_cached")
        p = dict_parts(it, self.cached)
        st.check("init:cache-starts-empty", p["hi"] == p["lo"], kind="aux")
        st.check("init:limit-stored", st.get(self.obj, "_limit") == V.VInt(limit), kind="aux")
        st.meta.update(limit=limit)
        st.hints += [limit <= 2]

    def havoc_to_inv(self, it):
        st = it.st
        g = st.ghost
        for f in ("$dhas", "$dval", "$dpos", "$arr", "$lo", "$hi"):
            st.havoc_field(f)
        for f in ("$fstate", "$fval"):
            st.havoc_field(f)
        g["EV"] = st.fresh("EV", V.ArrVV)
        g["EE"] = st.fresh("EE", V.ArrVV)
        g["INS"] = st.fresh("INS", z3.ArraySort(Val, R))
        g["produced"] = st.fresh("produced", PROD)
        if st.clock is None:
            st.clock = st.fresh("clock0", R)
            st.assume(st.clock >= 0)
        for _, f in self.inv(it):
            st.assume(f)
        p = dict_parts(it, self.cached)
        st.hints += [p["lo"] == 0, p["hi"] <= 2]

    def entry_fact(self, it, p, g, k):
        st = it.st
        ev, ee = z3.Select(g["EV"], k), z3.Select(g["EE"], k)
        facts = [z3.Select(p["val"], k) == V.tup(ev, ee), z3.Select(g["produced"], k, ev)]
        if self.exp is None:
            facts.append(V.is_none(ee))
        else:
            facts.append(z3.And(V.is_float(ee), V.rval(ee) == z3.Select(g["INS"], k) + self.exp,
                                z3.Select(g["INS"], k) <= st.clock, z3.Select(g["INS"], k) >= 0))
        if self.is_async:
            facts.append(z3.And(V.is_ref(ev), V.class_of(V.addr(ev)) == it.ct.id("Task"),
                                V.addr(ev) >= 0))
        return z3.Implies(z3.Select(p["has"], k), z3.And(facts))

    def inv(self, it):
        st = it.st
        g = st.ghost
        p = dict_parts(it, self.cached)
        out = [("dict-wf-bounds", p["lo"] <= p["hi"]),
               ("dict-wf-keys", QFact(lambda k: z3.Implies(z3.Select(p["has"], k),
                                                           z3.And(p["lo"] <= z3.Select(p["pos"], k),
                                                                  z3.Select(p["pos"], k) < p["hi"],
                                                                  z3.Select(p["keys"], z3.Select(p["pos"], k)) == k)),
                                      sort=Val, pattern=lambda k: z3.Select(p["has"], k), name="wk")),
               ("dict-wf-order", QFact(lambda i: z3.Implies(z3.And(p["lo"] <= i, i < p["hi"]),
                                                            z3.And(z3.Select(p["has"], z3.Select(p["keys"], i)),
                                                                   z3.Select(p["pos"], z3.Select(p["keys"], i)) == i)),
                                       pattern=lambda i: z3.Select(p["keys"], i), name="wo")),
               ("P5:never-more-than-limit-entries", p["hi"] - p["lo"] <= self.limit),
               ("entries-are-produced-values-with-their-expiry",
                QFact(lambda k: self.entry_fact(it, p, g, k), sort=Val,
                      pattern=lambda k: z3.Select(p["has"], k), name="en"))]
        return out

    def setup(self, it, env):
        st = it.st
        self.build(it)
        self.havoc_to_inv(it)
        if self.is_async:
            inside_some_scope(it)
        self.mark = attr_write_mark(it)
        self.p0 = dict_parts(it, self.cached)
        self.g0 = dict(st.ghost)
        self.args = sym_tuple(it, "args")
        self.kwargs = st.sym_ref("kwargs", "dict")
        self.key = None
        self.invoked = 0
        ca = CallArgs(star=self.args, starstar=self.kwargs)
        if self.is_method:
            self.recv = fresh_input_ref(it, "method_self")
            ca = CallArgs([self.recv], star=self.args, starstar=self.kwargs)
        return method(it, self.info, self.obj, self.meth), ca

    # ---------------------------------------------------------------------------------- hooks
    def on_dict_get(self, it, d, k):
        if self.key is None and d.eq(self.cached):
            self.key = k
            st = it.st
            p = self.p0
            st.meta.update(key=k, present=z3.Select(p["has"], k))
            if getattr(self, "stop_at_key", False):
                raise _StopAtKey()

    def check_call_shape(self, it, cargs):
        ok = cargs.star is not None and cargs.star.eq(self.args) and cargs.starstar is not None \
            and cargs.starstar.eq(self.kwargs) and not cargs.kw
        if self.is_method:
            ok = ok and len(cargs.pos) == 1 and cargs.pos[0].eq(self.recv)
        else:
            ok = ok and not cargs.pos
        it.st.check("P1:function-invoked-with-the-callers-receiver-and-arguments", z3.BoolVal(bool(ok)))

    def fn_spec(self, it, ov, cargs, node):
        """Sync variants: the wrapped function runs now."""
        st = it.st
        g = st.ghost
        self.invoked += 1
        self.check_call_shape(it, cargs)
        st.check("P4:key-computed-before-the-function-is-invoked", z3.BoolVal(self.key is not None))
        if self.key is None:
            raise PathEnd("no key")
        if st.fork("function", [("returns", True), ("raises", True)]) == 0:
            r = st.fresh_val("result")
            g["produced"] = z3.Store(g["produced"], self.key, r, True)
            self.result = r
            return r
        e = it.fresh_exception("function.exc")
        self.fn_exc = e
        raise PyRaise(e, "wrapped function raised")

    def on_create_task(self, it, task, coro, ca, lv):
        """Async variants: create_task(function(...)) starts the invocation."""
        st = it.st
        g = st.ghost
        aw = st.fun_of(coro) if coro is not None else None
        ok = isinstance(aw, AwaitableV) and aw.kind == "oracle" and aw.data["fterm"].eq(self.fn)
        st.check("P1:the-task-runs-the-wrapped-function", z3.BoolVal(bool(ok)))
        if not ok:
            raise PathEnd("unexpected task")
        # the shared invocation belongs to the cache, not to the scope of whoever happened to call first: as a member of that
        # caller's task group it would be awaited / cancelled with that scope and its failure would abort the group
        st.check("C13-P3:the-shared-invocation-is-a-plain-task-of-the-loop(not-a-member-of-the-first-callers-task-group)",
                 z3.BoolVal(getattr(lv, "name", "") != "TaskGroup.create_task"))
        self.invoked += 1
        self.check_call_shape(it, aw.data["cargs"])
        st.check("P4:key-computed-before-the-function-is-invoked", z3.BoolVal(self.key is not None))
        if self.key is None:
            raise PathEnd("no key")
        g["produced"] = z3.Store(g["produced"], self.key, task, True)
        self.result = task
        self.new_task = task
        self.suspended_before_store = getattr(self, "suspended", False)

    # -- await (async variants) --------------------------------------------------------------------
    def segment_end(self, it, aw, idx):
        st = it.st
        if aw.kind == "oracle":
            st.check("C13-P1:function-only-runs-inside-a-cached-task", z3.BoolVal(False))
            return
        if not getattr(self, "suspended", False):
            self.suspended = True
            # first suspension: the atomic segment ends here
            self.at_first_suspension(it, aw)

    def at_first_suspension(self, it, aw):
        st = it.st
        ok = aw.kind == "shield"
        st.check("C13-P2:callers-wait-on-shield(task)-never-on-the-bare-task", z3.BoolVal(bool(ok)))
        if not ok:
            raise PathEnd("not a shield")
        self.awaited = aw.data["inner"]
        p = dict_parts(it, self.cached)
        # the entries are touched by callers only (this is what the interference model of the other clauses assumes): nothing is
        # registered to run when an invocation completes - such a callback would act on whatever entry then sits under the key
        cbs = st.ghost.get("$done_callbacks", [])
        st.check("C13-P3:nothing-acts-on-the-cache-when-an-invocation-completes(no-done-callbacks-on-the-invocation-task)",
                 z3.BoolVal(not cbs), kind="frame", note="a done-callback is registered on the invocation task")
        if self.invoked:
            st.check("C13-P1:one-invocation-started-and-cached-under-the-key-before-the-first-suspension",
                     z3.And(z3.BoolVal(self.invoked == 1), z3.Select(p["has"], self.key),
                            V.hd(V.items(z3.Select(p["val"], self.key))) == self.new_task))
            st.check("C13-P2:a-missing-caller-waits-for-the-invocation-it-started", self.awaited == self.new_task)
        else:
            st.check("C13-P2:a-hitting-caller-waits-for-the-cached-invocation",
                     self.awaited == z3.Select(self.g0["EV"], self.key))
        self.check_exit_state(it, "first-suspension")

    def interfere(self, it, aw, idx):
        st = it.st
        if aw.kind != "shield":
            return
        # other callers / the invocation itself run: cache contents change up to the invariant,
        # task states evolve (rely: nobody cancels a cached task - C13-P3 of every segment)
        awaited = self.awaited
        key, produced_before = self.key, st.ghost["produced"]
        self.havoc_to_inv(it)
        g = st.ghost
        st.assume(z3.Select(g["produced"], key, awaited))     # history: still the invocation for this key
        st.assume(V.is_int(st.get(awaited, "$fstate")))
        st.assume(z3.And(fstate(it, awaited) >= 0, fstate(it, awaited) <= 3))

    def cancel_awaiting_task(self, it, aw, idx):
        return True

    def on_cancel_call(self, it, fut, node):
        it.st.check("C13-P3:cached-tasks-are-never-cancelled-by-the-cache", z3.BoolVal(False))
        return None

    # ---------------------------------------------------------------------------------- exits
    def expired_term(self, it):
        """Was the entry found under the key expired at the moment it was examined?"""
        st = it.st
        g0 = self.g0
        if self.exp is None:
            return z3.BoolVal(False)
        now = getattr(self, "now_at_check", None)
        if now is None:
            return None
        return V.rval(z3.Select(g0["EE"], self.key)) < now

    def check_exit_state(self, it, tag):
        """Clauses over the cache state at the end of the atomic segment (sync: at exit)."""
        st = it.st
        g = st.ghost
        p0, p = self.p0, dict_parts(it, self.cached)
        key = self.key
        st.check("P4:a-key-was-computed", z3.BoolVal(key is not None))
        if key is None:
            return
        present0 = z3.Select(p0["has"], key)
        clock_reads = [e[1] for e in st.events if e[0] == "clock"]
        # the first clock reading after the lookup is the expiry check of the code (if it made one)
        e0 = z3.Select(self.g0["EE"], key)
        fresh0 = z3.BoolVal(True) if self.exp is None else (
            V.rval(e0) >= clock_reads[0] if clock_reads else z3.BoolVal(True))
        unexpired_now = z3.BoolVal(True) if self.exp is None else V.rval(e0) >= st.clock
        hit = z3.And(present0, fresh0)
        st.meta.update(hit=hit, invoked=z3.IntVal(self.invoked))
        if self.invoked == 0:
            st.check("P2:answers-from-the-cache-only-for-a-present-unexpired-key", hit)
            if self.exp is not None:
                st.check("P2:expiry-is-checked-against-the-clock", z3.BoolVal(bool(clock_reads)))
            st.check("P1:a-cached-answer-is-never-older-than-its-expiration",
                     z3.BoolVal(True) if self.exp is None else
                     (clock_reads[0] - z3.Select(self.g0["INS"], key) <= self.exp if clock_reads else z3.BoolVal(False)))
            # LRU step: hit => key moved to the end, nothing removed, nothing else reordered
            x, y = z3.Consts("x!s y!s", Val)
            st.check("P3:hit-keeps-every-entry", z3.ForAll([x], z3.Select(p["has"], x) == z3.Select(p0["has"], x)))
            st.check("P3:hit-keeps-every-value", z3.ForAll([x], z3.Implies(z3.Select(p0["has"], x),
                                                                           z3.Select(p["val"], x) == z3.Select(p0["val"], x))))
            st.check("P3:hit-makes-the-key-most-recently-used", z3.Select(p["pos"], key) == p["hi"] - 1)
            st.check("P3:hit-keeps-the-relative-order-of-the-others",
                     z3.ForAll([x, y], z3.Implies(z3.And(z3.Select(p0["has"], x), z3.Select(p0["has"], y), x != key, y != key,
                                                         z3.Select(p0["pos"], x) < z3.Select(p0["pos"], y)),
                                                  z3.Select(p["pos"], x) < z3.Select(p["pos"], y))))
        else:
            st.check("P2:function-invoked-exactly-once", z3.BoolVal(self.invoked == 1))
            st.check("P2:function-invoked-only-when-the-key-is-absent-or-expired", z3.Not(hit))
            if getattr(self, "fn_exc", None) is None:
                self.check_miss_step(it, p0, p, key)
        if getattr(self, "fn_exc", None) is None:
            # ghost witnesses for the new entry
            if self.invoked:
                g["EV"] = z3.Store(g["EV"], key, self.result)
                g["EE"] = z3.Store(g["EE"], key, z3.Select(V.hd(V.tl(V.items(z3.Select(p["val"], key)))), 0)
                                   if False else V.hd(V.tl(V.items(z3.Select(p["val"], key)))))
                ins = clock_reads[-1] if (clock_reads and self.exp is not None) else st.clock
                g["INS"] = z3.Store(g["INS"], key, ins)
        for nm, f in self.inv(it):
            st.check(f"{tag}:inv:{nm}", f, kind="property" if nm.startswith("P") else "aux")

    def check_miss_step(self, it, p0, p, key):
        """P3/P5 in step form for a miss: old entry under the key replaced, key most recent, and the
        only other key that may disappear is the least recently used one, only on overflow."""
        st = it.st
        x, y = z3.Consts("x!m y!m", Val)
        present0 = z3.Select(p0["has"], key)
        n0 = p0["hi"] - p0["lo"]
        base = n0 - z3.If(present0, 1, 0)                 # entries other than the key
        overflow = base + 1 > self.limit
        first0 = z3.Select(p0["keys"], p0["lo"])
        oldest = z3.If(first0 == key, z3.Select(p0["keys"], p0["lo"] + 1), first0)
        st.check("P3:miss-stores-the-new-result-under-the-key",
                 z3.Or(z3.And(z3.Select(p["has"], key), V.hd(V.items(z3.Select(p["val"], key))) == self.result),
                       z3.And(overflow, base == 0)))
        st.check("P3:miss-makes-the-key-most-recently-used",
                 z3.Implies(z3.Select(p["has"], key), z3.Select(p["pos"], key) == p["hi"] - 1))
        st.check("P5:only-the-least-recently-used-key-is-evicted-and-only-on-overflow",
                 z3.ForAll([x], z3.Implies(z3.And(z3.Select(p0["has"], x), x != key),
                                           z3.Select(p["has"], x) == z3.Not(z3.And(overflow, x == oldest)))))
        st.check("P3:miss-adds-no-other-key",
                 z3.ForAll([x], z3.Implies(z3.And(z3.Select(p["has"], x), x != key), z3.Select(p0["has"], x))))
        st.check("P3:miss-keeps-the-other-values",
                 z3.ForAll([x], z3.Implies(z3.And(z3.Select(p["has"], x), x != key),
                                           z3.Select(p["val"], x) == z3.Select(p0["val"], x))))
        st.check("P3:miss-keeps-the-relative-order-of-the-others",
                 z3.ForAll([x, y], z3.Implies(z3.And(z3.Select(p["has"], x), z3.Select(p["has"], y), x != key, y != key,
                                                     z3.Select(p0["pos"], x) < z3.Select(p0["pos"], y)),
                                              z3.Select(p["pos"], x) < z3.Select(p["pos"], y))))
        if self.exp is not None:
            ee = V.hd(V.tl(V.items(z3.Select(p["val"], key))))
            st.check("P1:new-entry-expires-expiration-after-its-insertion",
                     z3.Implies(z3.Select(p["has"], key), z3.And(V.is_float(ee), V.rval(ee) == st.clock + self.exp)))
        else:
            ee = V.hd(V.tl(V.items(z3.Select(p["val"], key))))
            st.check("P1:without-expiration-entries-never-expire", z3.Implies(z3.Select(p["has"], key), V.is_none(ee)))

    def on_return(self, it, ret):
        st = it.st
        g = st.ghost
        if hasattr(self, "mark"):
            wrapper_frame(it, self.obj, self.mark)
        if self.is_async:
            st.check("C13-P2:returns-the-outcome-of-the-shared-invocation",
                     z3.And(fstate(it, self.awaited) == F_RESULT, ret == fval(it, self.awaited)))
            st.check("P1:the-awaited-task-runs-the-function-for-this-key",
                     z3.Select(g["produced"], self.key, self.awaited))
            return
        self.check_exit_state(it, "exit")
        st.check("P1:returns-a-value-the-function-produced-for-this-key", z3.Select(g["produced"], self.key, ret))

    def on_raise(self, it, exc):
        st = it.st
        g = st.ghost
        if self.is_async:
            if not getattr(self, "suspended", False):
                st.check("P1:no-failure-before-the-first-suspension", z3.BoolVal(False))
                return
            cancelled = any("waiter-cancelled" in l for l in st.labels)
            if cancelled:
                st.check("C13-P2:a-cancelled-waiter-sees-CancelledError", is_exc(it, exc, "CancelledError"))
            else:
                st.check("C13-P2:raises-the-outcome-of-the-shared-invocation",
                         z3.Or(z3.And(fstate(it, self.awaited) == F_EXC, exc == fval(it, self.awaited)),
                               z3.And(fstate(it, self.awaited) == F_CANCELLED, is_exc(it, exc, "CancelledError"))))
            return
        fe = getattr(self, "fn_exc", None)
        st.check("P1:only-the-functions-own-error-escapes", z3.BoolVal(fe is not None) if fe is None else exc == fe)
        self.check_exit_state(it, "exit-raise")


class SyncCall(_CacheBase):
    file, func, name = FILE, "_SyncCache.__call__", "C12/caching:_SyncCache.__call__"


class SyncMethod(_CacheBase):
    file, func, name = FILE, "_SyncCache.__method_call__", "C12/caching:_SyncCache.__method_call__"
    meth, is_method = "__method_call__", True


class AsyncCall(_CacheBase):
    file, func, name = FILE, "_AsyncCache.__call__", "C12/caching:_AsyncCache.__call__"
    cls, is_async = "_AsyncCache", True


class AsyncMethod(_CacheBase):
    file, func, name = FILE, "_AsyncCache.__method_call__", "C12/caching:_AsyncCache.__method_call__"
    cls, meth, is_async, is_method = "_AsyncCache", "__method_call__", True, True


# -------------------------------------------------------------------------------------------------
class KeyAdequacy(_CacheBase):
    """P4 (relational): run the real function twice, each time up to its cache lookup, on two
    independent calls; the two keys are equal iff the calls have T-KEY-equal arguments, and - for
    methods - equal keys require the very same receiver object."""

    def run(self, it):
        st = it.st
        st.contract = self
        node, mod, chain = it.engine.repo.find(self.file, self.func)
        self.node, self.module, self.chain = node, mod, chain
        self.build(it)
        self.havoc_to_inv(it)
        self.p0 = dict_parts(it, self.cached)
        self.g0 = dict(st.ghost)
        self.stop_at_key = True
        keys, calls = [], []
        for n in (1, 2):
            self.key = None
            self.args = sym_tuple(it, f"args{n}")
            self.kwargs = st.sym_ref(f"kwargs{n}", "dict")
            ca = CallArgs(star=self.args, starstar=self.kwargs)
            recv = None
            if self.is_method:
                recv = fresh_input_ref(it, f"method_self{n}")
                ca = CallArgs([recv], star=self.args, starstar=self.kwargs)
            try:
                it.run_function(method(it, self.info, self.obj, self.meth), ca)
            except _StopAtKey:
                pass
            except PyRaise:
                raise Unsupported("exception before the cache lookup")
            st.check(f"P4:call-{n}-looks-the-cache-up-before-anything-else", z3.BoolVal(self.key is not None))
            if self.key is None:
                return
            keys.append(self.key)
            calls.append((recv, self.args, self.kwargs))
            if n == 1 and self.is_method and \
                    st.fork("receiver-1", [("still-alive-at-call-2", True), ("collected-before-call-2", True)]) == 1:
                # the entry outlives its receiver: T-ID gives nothing across lifetimes (the address may be reused), T-WREF makes
                # the dead reference unequal to every other reference
                st.ghost.setdefault("$collected", []).append(recv)
                self.dead_receiver = recv
        (r1, a1, k1), (r2, a2, k2) = calls
        if getattr(self, "dead_receiver", None) is not None:
            st.assume(z3.And(r1 != r2, lib.wref(r1) != lib.wref(r2)))
        typed_eq = lib.make_key(a1, k1) == lib.make_key(a2, k2)
        same_key = keys[0] == keys[1]
        st.meta.update(key1=keys[0], key2=keys[1])
        st.check("P4:equal-keys-only-for-equal-type-identical-arguments", z3.Implies(same_key, typed_eq))
        if self.is_method:
            st.meta.update(receiver1=r1, receiver2=r2)
            st.check("P4:equal-keys-only-for-the-same-receiver-instance", z3.Implies(same_key, r1 == r2))
            st.check("P4:same-receiver-and-equal-arguments-give-the-same-key",
                     z3.Implies(z3.And(typed_eq, r1 == r2), same_key))
        else:
            st.check("P4:equal-arguments-give-the-same-key", z3.Implies(typed_eq, same_key))
        st.check("canary", z3.BoolVal(False), kind="canary")


def _ka(base, nm):
    return type(nm, (KeyAdequacy,), dict(file=base.file, func=base.func, cls=base.cls, meth=base.meth,
                                         is_async=base.is_async, is_method=base.is_method,
                                         name=base.name + "(key-adequacy)"))()


def c13_variant(base):
    """The same scenario, reported under C13 with only the in-flight sharing clauses kept."""
    return type("C13" + base.__name__, (base,), dict(
        name=base.name.replace("C12/", "C13/"), props=("C13",),
        keep=staticmethod(lambda n: n.startswith(("C13-", "P1:", "P4:", "first-suspension:inv", "canary")))))()


CONTRACTS = [SyncCall(), SyncMethod(), AsyncCall(), AsyncMethod(),
             _ka(SyncCall, "KASync"), _ka(SyncMethod, "KASyncMethod"), _ka(AsyncCall, "KAAsync"),
             _ka(AsyncMethod, "KAAsyncMethod")]


class CacheFactory(Contract):
    """cache._wrap: limit / expiration reach the right cache class; async functions get the async cache."""
    file, func, name = FILE, "cache._wrap", "C12/caching:cache._wrap"
    props = ("C12", "C13")

    def instantiate(self, it, info, cargs, node):
        if info.name in ("_SyncCache", "_AsyncCache"):
            self.made.append((info.name, cargs))
            return it.st.alloc(info.cid)
        return None

    def setup(self, it, env):
        st = it.st
        self.made = []
        self.is_async = st.fork("function-kind", [("sync", True), ("async", True)]) == 1
        self.fn = st.reg_fun(OracleV("function", is_async=self.is_async))
        self.limit, self.expiration = V.VInt(st.fresh("limit", I)), st.fresh_val("expiration")
        env.vars.update(limit=self.limit, expiration=self.expiration)
        return None, CallArgs([self.fn])

    def on_return(self, it, ret):
        st = it.st
        ok = len(self.made) == 1
        st.check("P6:exactly-one-cache-object-is-built", z3.BoolVal(ok))
        if not ok:
            return
        name, ca = self.made[0]
        st.check("P6:async-functions-get-the-task-cache-sync-functions-the-value-cache",
                 z3.BoolVal(name == ("_AsyncCache" if self.is_async else "_SyncCache")))
        st.check("P6:function-limit-and-expiration-are-passed-unchanged",
                 (lambda a: z3.BoolVal(False) if (a["function"] is None or a["limit"] is None or a["expiration"] is None or a["$extra"])
                  else z3.And(a["function"] == self.fn, a["limit"] == self.limit, a["expiration"] == self.expiration))(
                     named_args(ca, "function", "limit", "expiration")))

    def on_raise(self, it, exc):
        it.st.check("P6:building-the-cache-never-raises", z3.BoolVal(False))


class CacheGet(_CacheBase):
    """__get__: access through an instance binds that instance to the method path."""
    file, func, name = FILE, "_SyncCache.__get__", "C12/caching:_SyncCache.__get__"

    def setup(self, it, env):
        st = it.st
        self.build(it)
        self.instance = st.fresh_val("instance")
        st.assume(z3.Or(V.is_none(self.instance), z3.And(V.is_ref(self.instance), V.addr(self.instance) >= 0,
                                                           V.addr(self.instance) < 1_000_000)))
        self.owner = st.fresh_val("owner")
        st.assume(z3.Or(V.is_none(self.owner), V.is_cls(self.owner)))
        return method(it, self.info, self.obj, "__get__"), CallArgs([self.instance, self.owner])

    def callee(self, it, fv):
        if fv.qualname == "mimic_function":
            def spec(it2, fv2, cargs, node):
                self.mimicked = cargs
                return cargs.arg(1, "within", V.VNone)
            return spec
        return None

    def on_return(self, it, ret):
        st = it.st
        bound = z3.And(z3.Not(V.is_none(self.instance)), z3.Not(V.is_none(self.owner)))
        if it.kind(ret) == "ref" and st.class_id_of(ret) == it.ct.id("partial"):
            pv = st.ghost.get("$partials", {}).get(str(st.simp(V.addr(ret))))
            fv = st.fun_of(pv.func) if pv is not None else None
            ok = pv is not None and isinstance(fv, FuncV) and fv.qualname.endswith("__method_call__") and \
                fv.bound is not None and fv.bound.eq(self.obj) and len(pv.args) == 1 and pv.args[0].eq(self.instance)
            st.check("P6:access-through-an-instance-binds-exactly-that-instance-to-the-method-path",
                     z3.And(bound, z3.BoolVal(bool(ok))))
        else:
            st.check("P6:access-through-the-class-returns-the-cache-itself", z3.And(z3.Not(bound), ret == self.obj))

    def on_raise(self, it, exc):
        it.st.check("P6:attribute-access-never-raises", z3.BoolVal(False))


class AsyncCacheGet(CacheGet):
    file, func, name = FILE, "_AsyncCache.__get__", "C12/caching:_AsyncCache.__get__"
    cls = "_AsyncCache"
    is_async = True


CONTRACTS = CONTRACTS + [CacheFactory(), CacheGet(), AsyncCacheGet()]


def extra_contracts():
    return mimic_variants("C12")


class CacheShape(DecoratorShape):
    file, func, name = FILE, "cache", "C12/caching:cache(decorator-shape)"
    props = ("C12", "C13")


CONTRACTS = CONTRACTS + [CacheShape()]
