"""C18 - asynchronous, wrap_async, traced are transparent and carry the caller context.

Functions under contract: helpers/asynchrony.py::_ExecutorWrapper.__call__/__method_call__/__get__,
wrap_async(.async_function), _mimic_async; helpers/tracing.py::_traced_sync.traced,
_traced_async.traced; utils/mimic.py::mimic_function.mimic; plus a syntactic audit that each of the
seven decorators passes its wrapper through mimic.

P1 executor paths (function *and* bound method): the callable handed to run_in_executor is
   <ctx>.run for ctx = copy_context() taken in the caller, applied to partial(function,
   [receiver,] *args, **kwargs); the outcome is forwarded unchanged (T-EXEC).  Changes made inside
   the copy never reach the caller (T-CV: the copy is private).
P2 wrap_async: an async function is returned as is; otherwise the wrapper returns / raises exactly
   what function(*args, **kwargs) does.
P3 traced: exactly one scope named after the function around the call; arguments recorded before,
   outcome recorded after; the function's value is returned / the same exception object re-raised.
P4 mimic: __name__, __doc__ of the wrapper equal the original's and __wrapped__ is the original.
"That it runs off the event-loop thread and the loop keeps serving other tasks" is T-EXEC: assumed.
"""
from __future__ import annotations

import ast

import z3

from .common import *
from pyvc.lib import dict_parts
from pyvc.state import QFact
from pyvc import lib as L

ASYNC = "helpers/asynchrony.py"
TRACE = "helpers/tracing.py"
MIMIC = "utils/mimic.py"


class _Exec(Contract):
    props = ("C18",)
    is_method = False
    trusted = ("T-EXEC (run_in_executor(e, f, *a) runs f(*a) on another thread and delivers its result or exception)",
               "T-CV (copy_context() is a private snapshot; Context.run(f) runs f inside it)", "functools.partial")
    assumptions = ("callee contract: _mimic_async / mimic_function return `within` (clause P4 of this property)",)

    def callee(self, it, fv):
        if fv.qualname in ("mimic_function", "_mimic_async"):
            return lambda it2, fv2, ca, node: ca.arg(1, "within", V.VNone)
        return None

    def setup(self, it, env):
        st = it.st
        info = repo_class(it, ASYNC, "_ExecutorWrapper")
        self.info = info
        self.fn = st.reg_fun(OracleV("function"))
        loop = st.fresh_val("loop")
        if st.fork("loop-argument", [("none", V.is_none(loop)), ("given", V.is_ref(loop))]) == 1:
            st.assume(z3.And(V.addr(loop) >= 0, V.addr(loop) < 1_000_000))
            st.declare_class(loop, "EventLoop")
        self.executor = st.fresh_val("executor")
        self.obj = it.instantiate(info.cid, CallArgs([self.fn], {"loop": loop, "executor": self.executor}))
        self.args = sym_tuple(it, "args")
        self.kwargs = st.sym_ref("kwargs", "dict")
        self.outcome = None
        self.mark = attr_write_mark(it)
        if self.is_method:
            self.recv = fresh_input_ref(it, "method_self")
            return method(it, info, self.obj, "__method_call__"), CallArgs([self.recv], star=self.args, starstar=self.kwargs)
        return method(it, info, self.obj, "__call__"), CallArgs(star=self.args, starstar=self.kwargs)

    def executor_outcome(self, it, aw, idx, node):
        st = it.st
        d = aw.data
        st.check("P1:the-configured-executor-is-used", d["executor"] == self.executor)
        fn = st.fun_of(d["fn"]) if it.kind(d["fn"]) == "function" else None
        ctxs = [e[1] for e in st.events if e[0] == "copy_context"]
        in_copy = isinstance(fn, LibV) and fn.name == "Context.run" and any(fn.bound.eq(c) for c in ctxs)
        st.check("P1:the-function-runs-inside-a-copy-of-the-callers-context-taken-at-the-call(copy_context().run)",
                 z3.BoolVal(bool(in_copy)))
        target = d["args"][0] if (in_copy and len(d["args"]) == 1) else (d["fn"] if not in_copy else None)
        ok = False
        if target is not None and it.kind(target) == "ref":
            ca = st.ghost.get("$partials_sym", {}).get(str(st.simp(V.addr(target))))
            if ca is not None:
                want_pos = [self.fn] + ([self.recv] if self.is_method else [])
                ok = len(ca.pos) == len(want_pos) and all(a.eq(b) for a, b in zip(ca.pos, want_pos)) and \
                    ca.star is not None and ca.star.eq(self.args) and ca.starstar is not None and ca.starstar.eq(self.kwargs) \
                    and not ca.kw
        st.check("P1:what-runs-is-the-wrapped-function-applied-to-[receiver,]-the-callers-arguments", z3.BoolVal(bool(ok)))
        if st.fork("executor", [("function-returns", True), ("function-raises", True)]) == 0:
            self.outcome = ("ret", st.fresh_val("result"))
            return self.outcome[1]
        self.outcome = ("exc", it.fresh_exception("function.exc"))
        raise PyRaise(self.outcome[1], "function raised in the executor")

    def on_return(self, it, ret):
        st = it.st
        wrapper_frame(it, self.obj, self.mark)
        st.check("P1:the-functions-result-is-returned-unchanged",
                 z3.BoolVal(self.outcome is not None and self.outcome[0] == "ret") if not (self.outcome and self.outcome[0] == "ret")
                 else ret == self.outcome[1])

    def on_raise(self, it, exc):
        st = it.st
        wrapper_frame(it, self.obj, self.mark)
        st.check("P1:the-functions-exception-object-is-raised-unchanged",
                 z3.BoolVal(self.outcome is not None and self.outcome[0] == "exc") if not (self.outcome and self.outcome[0] == "exc")
                 else exc == self.outcome[1])
        exception_untouched(it, exc, self.mark, "P1:the-exception-reaches-the-caller-with-its-cause-chain-and-attributes-as-the-function-left-them")


class ExecCall(_Exec):
    file, func, name = ASYNC, "_ExecutorWrapper.__call__", "C18/asynchrony:_ExecutorWrapper.__call__"


class ExecMethod(_Exec):
    file, func, name = ASYNC, "_ExecutorWrapper.__method_call__", "C18/asynchrony:_ExecutorWrapper.__method_call__"
    is_method = True


class ExecGet(_Exec):
    file, func, name = ASYNC, "_ExecutorWrapper.__get__", "C18/asynchrony:_ExecutorWrapper.__get__"

    def setup(self, it, env):
        st = it.st
        super().setup(it, env)
        # descriptor protocol: instance is None when the attribute is read on the class (Cls.method)
        self.instance = V.VNone if st.fork("accessed-through", [("an-instance", True), ("the-class", True)]) == 1 \
            else fresh_input_ref(it, "instance")
        self.owner = st.fresh_val("owner")
        st.assume(z3.Or(V.is_none(self.owner), V.is_cls(self.owner)))
        # a descriptor assigned in a class body is told its name first (descriptor protocol: __set_name__, when defined)
        sn = self.info.find_method("__set_name__")
        if sn is not None:
            it.call_function(it.bind_method(self.info, sn, self.obj),
                             CallArgs([V.VCls(st.fresh("owner_class", I)), V.VStr(st.fresh("attribute_name", I))]))
        self.h0 = st.snapshot_heap()
        return method(it, self.info, self.obj, "__get__"), CallArgs([self.instance, self.owner])

    def attr(self, it, obj, name, node):
        if name == "__dict__" and it.kind(self.instance) == "ref" and obj.eq(self.instance):
            # the receiver's attribute dictionary (an ordinary instance has one)
            d = it.st.ghost.get("$instance_dict")
            if d is None:
                d = it.st.sym_ref("instance.__dict__", "dict")
                it.st.ghost["$instance_dict"] = d
                self.d0 = dict_parts(it, d)
            return d
        return super().attr(it, obj, name, node) if hasattr(super(), "attr") else None

    def on_return(self, it, ret):
        st = it.st
        # looking the method up is a read: neither the receiver (its attributes) nor the wrapper object change
        same = []
        for obj in (self.instance, self.obj):
            if it.kind(obj) != "ref":
                continue
            a = V.addr(obj)
            for k, v in st.heap.items():
                v0 = self.h0.get(k, st.heap0.get(k))
                if v0 is not None and not v.eq(v0):
                    same.append(z3.Select(v, a) == z3.Select(v0, a))
        d = st.ghost.get("$instance_dict")
        if d is not None:
            p = dict_parts(it, d)
            same.append(z3.And(p["has"] == self.d0["has"], p["val"] == self.d0["val"]))
        st.check("P1:looking-the-method-up-changes-neither-the-receiver-nor-the-wrapper(no-entry-is-planted-in-the-instance)",
                 z3.And(same) if same else z3.BoolVal(True))
        if it.kind(ret) == "ref" and st.class_id_of(ret) == it.ct.id("partial"):
            pv = st.ghost.get("$partials", {}).get(str(st.simp(V.addr(ret))))
            fv = st.fun_of(pv.func) if pv is not None else None
            ok = pv is not None and isinstance(fv, FuncV) and fv.qualname.endswith("__method_call__") and \
                fv.bound is not None and fv.bound.eq(self.obj) and len(pv.args) == 1 and pv.args[0].eq(self.instance)
            st.check("P1:access-through-an-instance-binds-the-receiver-to-the-executor-method-path", z3.BoolVal(bool(ok)))
            st.check("P1:access-on-the-class-binds-no-receiver(Cls.method(obj, ...) passes obj itself)",
                     z3.BoolVal(it.kind(self.instance) != "none"))
        else:
            st.check("P1:only-access-without-an-instance-or-owner-returns-the-wrapper-itself",
                     z3.And(z3.Or(V.is_none(self.owner), V.is_none(self.instance)), ret == self.obj))

    def on_raise(self, it, exc):
        it.st.check("P1:attribute-access-never-raises", z3.BoolVal(False))


class WrapAsync(Contract):
    file, func, name = ASYNC, "wrap_async.async_function", "C18/asynchrony:wrap_async.async_function"
    props = ("C18",)

    def setup(self, it, env):
        st = it.st
        self.fn = st.reg_fun(OracleV("function"))
        env.vars["function"] = self.fn
        self.args, self.kwargs = sym_tuple(it, "args"), st.sym_ref("kwargs", "dict")
        return None, CallArgs(star=self.args, starstar=self.kwargs)

    def check_call(self, it):
        ev = [e for e in it.st.events if e[0] == "oracle"]
        ok = len(ev) == 1 and ev[0][3].star is not None and ev[0][3].star.eq(self.args) and ev[0][3].starstar is not None \
            and ev[0][3].starstar.eq(self.kwargs) and not ev[0][3].pos and not ev[0][3].kw
        it.st.check("P2:the-function-is-called-once-with-the-callers-arguments", z3.BoolVal(bool(ok)))

    def on_return(self, it, ret):
        self.check_call(it)
        r = [e for e in it.st.events if e[0] == "oracle-ret"]
        it.st.check("P2:the-functions-result-is-returned-unchanged", z3.BoolVal(bool(r)) if not r else ret == r[0][3])

    def on_raise(self, it, exc):
        self.check_call(it)
        r = [e for e in it.st.events if e[0] == "oracle-exc"]
        it.st.check("P2:the-functions-exception-object-is-raised-unchanged", z3.BoolVal(bool(r)) if not r else exc == r[0][3])
        exception_untouched(it, exc, 0, "P2:the-exception-reaches-the-caller-with-its-cause-chain-and-attributes-as-the-function-left-them")


class WrapAsyncFactory(Contract):
    file, func, name = ASYNC, "wrap_async", "C18/asynchrony:wrap_async"
    props = ("C18",)

    def callee(self, it, fv):
        if fv.qualname == "_mimic_async":
            def spec(it2, fv2, ca, node):
                self.mimicked.append((ca.arg(0, "function"), ca.arg(1, "within")))
                return ca.arg(1, "within", V.VNone)
            return spec
        return None

    def setup(self, it, env):
        st = it.st
        self.mimicked = []
        self.is_async = st.fork("function-kind", [("async", True), ("sync", True)]) == 0
        self.fn = st.reg_fun(OracleV("function", is_async=self.is_async))
        return None, CallArgs([self.fn])

    def on_return(self, it, ret):
        st = it.st
        if self.is_async:
            st.check("P2:an-async-function-is-returned-as-is", ret == self.fn)
        else:
            fv = st.fun_of(ret)
            st.check("P2:a-sync-function-is-wrapped-by-the-async-forwarder-and-mimicked",
                     z3.BoolVal(isinstance(fv, FuncV) and fv.is_async and len(self.mimicked) == 1
                                and self.mimicked[0][0] is not None and self.mimicked[0][0].eq(self.fn)
                                and self.mimicked[0][1] is not None and self.mimicked[0][1].eq(ret)))

    def on_raise(self, it, exc):
        it.st.check("P2:wrapping-never-raises", z3.BoolVal(False))


class _Traced(Contract):
    props = ("C18",)
    is_async = False
    trusted = ("callee contracts: ctx.scope(label) gives a sync scope whose enter/exit never raise and never suppress "
               "(C02-P3/P4); ctx.record never raises an Exception (C10-P3)",)
    assumptions = ("ArgumentsTrace.of / ResultTrace.of never raise: instance of C05 for Sequence[Any]|Missing, "
                   "Mapping[str, Any]|Missing, Any|Missing applied to the (tuple, dict-with-str-keys) Python's call protocol "
                   "provides; cross-checked natively by the replay harness",)

    def setup(self, it, env):
        st = it.st
        self.fn = st.reg_fun(OracleV("function", is_async=self.is_async))
        self.label = V.VStr(st.fresh("label", I))
        env.vars["function"], env.vars["label"] = self.fn, self.label
        self.args, self.kwargs = sym_tuple(it, "args"), st.sym_ref("kwargs", "dict")
        self.log = []
        return None, CallArgs(star=self.args, starstar=self.kwargs)

    def callee(self, it, fv):
        q = fv.qualname
        if q == "ctx.scope":
            def scope(it2, fv2, ca, node):
                self.log.append(("scope", ca.pos[0] if ca.pos else None, len(ca.pos), dict(ca.kw)))
                o = it2.st.alloc("object")
                self.scope_obj = o
                return o
            return scope
        if q == "ctx.record":
            def record(it2, fv2, ca, node):
                self.log.append(("record", ca.pos[0] if ca.pos else None))
                return V.VNone
            return record
        if q in ("ArgumentsTrace.of", "ResultTrace.of"):
            def of(it2, fv2, ca, node):
                v = it2.st.fresh_val("trace")
                self.log.append(("trace", q, ca, v))
                return v
            return of
        return None

    def attr(self, it, obj, name, node):
        if name in ("__enter__", "__exit__") and getattr(self, "scope_obj", None) is not None and obj.eq(self.scope_obj):
            def enter(it2, ca, node2):
                self.log.append((name,))
                return V.VNone
            return it.st.reg_fun(enter)
        if name in ("__aenter__", "__aexit__") and getattr(self, "scope_obj", None) is not None and obj.eq(self.scope_obj):
            # the asynchronous protocol of the same scope object: it also opens a task group of its own
            def aenter(it2, ca, node2):
                self.log.append((name.replace("__a", "__"),))
                self.log.append(("async-protocol",))
                return it2.st.reg_fun(AwaitableV("traced-scope", {}))
            return it.st.reg_fun(aenter)
        return None

    def on_await(self, it, aw, idx, node):
        if aw.kind == "traced-scope":
            return V.VNone
        if aw.kind == "oracle":
            self.log.append(("call",))
        return NotImplemented

    def call_order(self, it):
        """scope(label) -> __enter__ -> record(args trace) -> call -> record(result trace) -> __exit__"""
        st = it.st
        kinds = [e[0] if e[0] != "trace" else None for e in self.log]
        ev_call = [e for e in st.events if e[0] == "oracle"]
        seq = [e[0] for e in self.log if e[0] != "trace"]
        if not self.is_async:
            # sync: the oracle call is an event, not a log entry: place it by event order
            seq = []
            for e in self.log:
                if e[0] != "trace":
                    seq.append(e[0])
        scopes = [e for e in self.log if e[0] == "scope"]
        st.check("P3:exactly-one-scope-named-after-the-function-wraps-the-call",
                 z3.BoolVal(len(scopes) == 1 and scopes[0][2] == 1 and not scopes[0][3]) if not (len(scopes) == 1 and scopes[0][1] is not None)
                 else z3.And(z3.BoolVal(scopes[0][2] == 1 and not scopes[0][3]), scopes[0][1] == self.label))
        st.check("P3:the-scope-is-entered-once-and-left-once", z3.BoolVal(seq.count("__enter__") == 1 and seq.count("__exit__") == 1
                                                                        and seq.index("__enter__") < seq.index("__exit__")))
        # transparent: tasks the function spawns belong to the caller's scope (or are detached), as without `traced` - the
        # tracing scope must not own a task group, or it would wait for them / be cancelled by their failure before returning
        st.check("P3:the-tracing-scope-is-a-synchronous-scope(it-owns-no-task-group:what-the-function-spawns-is-the-callers)",
                 z3.BoolVal("async-protocol" not in seq))
        traces = [e for e in self.log if e[0] == "trace"]
        records = [e for e in self.log if e[0] == "record"]
        ok_args = len(traces) >= 1 and traces[0][1] == "ArgumentsTrace.of" and traces[0][2].star is not None and \
            traces[0][2].star.eq(self.args) and traces[0][2].starstar is not None and traces[0][2].starstar.eq(self.kwargs)
        st.check("P3:the-arguments-are-recorded-before-the-call",
                 z3.BoolVal(bool(ok_args and len(records) >= 1 and records[0][1] is not None and records[0][1].eq(traces[0][3]))))
        return traces, records, ev_call

    def on_return(self, it, ret):
        st = it.st
        traces, records, ev_call = self.call_order(it)
        rets = [e for e in st.events if e[0] == "oracle-ret"]
        st.check("P3:the-function-is-called-once-and-its-value-returned-unchanged",
                 z3.BoolVal(len(ev_call) == 1 and len(rets) == 1) if len(rets) != 1 else ret == rets[0][3])
        ok = len(traces) == 2 and traces[1][1] == "ResultTrace.of" and len(traces[1][2].pos) == 1 and len(rets) == 1 \
            and traces[1][2].pos[0].eq(rets[0][3]) and len(records) == 2 and records[1][1].eq(traces[1][3])
        st.check("P3:the-result-is-recorded-after-the-call", z3.BoolVal(bool(ok)))

    def on_raise(self, it, exc):
        st = it.st
        traces, records, ev_call = self.call_order(it)
        excs = [e for e in st.events if e[0] == "oracle-exc"]
        st.check("P3:only-the-functions-own-exception-object-escapes-the-tracing-steps-never-raise",
                 z3.BoolVal(len(excs) == 1) if len(excs) != 1 else exc == excs[0][3])
        ok = len(traces) == 2 and traces[1][1] == "ResultTrace.of" and len(traces[1][2].pos) == 1 and len(excs) == 1 \
            and traces[1][2].pos[0].eq(excs[0][3]) and len(records) == 2 and records[1][1].eq(traces[1][3])
        st.check("P3:the-exception-is-recorded-as-the-outcome", z3.BoolVal(bool(ok)))
        exception_untouched(it, exc, 0, "P3:the-exception-reaches-the-caller-with-its-cause-chain-and-attributes-as-the-function-left-them")


class ArgumentsTraceOf(Contract):
    """ArgumentsTrace.of(*args, **kwargs) is handed the traced function's own arguments: whatever the caller's keywords are
    called, building the record must not fail before the function is even called (the callee assumption of the traced
    wrappers: "ArgumentsTrace.of never raises")."""
    file, func, name = "helpers/tracing.py", "ArgumentsTrace.of", "C18/tracing:ArgumentsTrace.of"
    props = ("C18",)
    assumptions = ("constructing the record itself (State.__init__ with Sequence[Any] / Mapping[str, Any] | Missing attributes) "
                   "accepts every tuple / keyword dict: instance of C05",)

    def instantiate(self, it, info, cargs, node):
        self.built.append(cargs)
        return it.st.alloc(info.cid)

    def global_value(self, it, mod, name):
        if name == "MISSING":
            return it.st.sym_ref("MISSING", "object")
        return None

    def setup(self, it, env):
        st = it.st
        self.built = []
        info = repo_class(it, "helpers/tracing.py", "ArgumentsTrace")
        self.args = sym_tuple(it, "args")
        self.kwargs = st.sym_ref("kwargs", "dict")
        f = it.class_attr(info, "of", V.VCls(z3.IntVal(info.cid)))
        return st.fun_of(f), CallArgs(star=self.args, starstar=self.kwargs)

    def on_return(self, it, ret):
        it.st.check("P3:one-record-is-built-from-the-callers-arguments", z3.BoolVal(len(self.built) == 1))

    def on_raise(self, it, exc):
        it.st.check("P3:recording-the-arguments-never-fails-whatever-the-callers-keywords-are-called", z3.BoolVal(False))


class ResultTraceOf(ArgumentsTraceOf):
    """ResultTrace.of(value): "recording ... outcome" - the record holds the function's result itself, whatever it is (0, "",
    an empty list, False and None are results too) and building it never looks at the value (its __bool__ may raise)."""
    file, func, name = "helpers/tracing.py", "ResultTrace.of", "C18/tracing:ResultTrace.of"

    def setup(self, it, env):
        st = it.st
        self.built = []
        info = repo_class(it, "helpers/tracing.py", "ResultTrace")
        self.value = st.fresh_val("result")
        f = it.class_attr(info, "of", V.VCls(z3.IntVal(info.cid)))
        return st.fun_of(f), CallArgs([self.value])

    def on_return(self, it, ret):
        st = it.st
        st.check("P3:one-record-is-built-for-the-result", z3.BoolVal(len(self.built) == 1))
        rec = self.built[0].kw.get("result") if len(self.built) == 1 else None
        st.check("P3:the-recorded-outcome-is-the-functions-result-itself(falsy-results-included)",
                 z3.BoolVal(False) if rec is None else rec == self.value)

    def on_raise(self, it, exc):
        it.st.check("P3:recording-the-result-never-fails(the-value-is-not-inspected)", z3.BoolVal(False))


class TracedSync(_Traced):
    file, func, name = TRACE, "_traced_sync.traced", "C18/tracing:_traced_sync.traced"


class TracedAsync(_Traced):
    file, func, name = TRACE, "_traced_async.traced", "C18/tracing:_traced_async.traced"
    is_async = True


class _Mimic(Contract):
    """mimic_function.mimic / _mimic_async: metadata copied, __wrapped__ set.  The loop over the
    attribute names is verified with an invariant (one arbitrary iteration), the attributes written to
    the wrapper are a symbolic map name -> value."""
    props = ("C18",)
    has_attr = z3.Function("C18.has_attr", Val, Val, B)
    attr_of = z3.Function("C18.attr_of", Val, Val, Val)
    readonly = z3.Function("C18.readonly", Val, Val, B)
    assumptions = ("__name__, __doc__ and __wrapped__ are writable on the wrapper objects the decorators use (functions, "
                   "instances, functools.partial) and every wrapped function has __name__ and __doc__",
                   "attributes of the wrapper live in one map (its __dict__): slots / descriptors of function objects are not "
                   "distinguished; entries of the wrapped callable's __dict__ are attributes of it (same values)",
                   "the `__annotations__` merge of _mimic_async is not modelled (treated as absent): it does not touch the "
                   "attributes of the statement")

    def attr(self, it, obj, name, node):
        if obj.eq(self.fn) or obj.eq(self.target):
            if name == "__annotations__":
                raise PyRaise(it.new_exc("AttributeError"), f"{name} is not modelled: treated as absent")
            if name == "__dict__":
                which = "function" if obj.eq(self.fn) else "wrapper"
                g = it.st.ghost
                if f"$has_dict:{which}" not in g:       # whether an object has a __dict__ does not change while mimic runs
                    g[f"$has_dict:{which}"] = it.st.fork(f"{which}.__dict__", [("present", True), ("absent", True)]) == 0
                if not g[f"$has_dict:{which}"]:
                    raise PyRaise(it.new_exc("AttributeError"), "object without __dict__")
                return self.fdict if obj.eq(self.fn) else self.tdict
            return self.attr_sym(it, obj, it.mk_str(name), node)
        return None

    def attr_sym(self, it, obj, name, node):
        st = it.st
        if obj.eq(self.fn):
            if not st.decide(self.has_attr(obj, name), "getattr:present"):
                raise PyRaise(it.new_exc("AttributeError"), "no such attribute")
            return self.attr_of(obj, name)
        raise Unsupported("attribute read on the wrapper")

    def setattr(self, it, obj, name, val, node):
        if obj.eq(self.target):
            self.setattr_sym(it, obj, it.mk_str(name), val, node)
            return True
        return False

    def setattr_sym(self, it, obj, name, val, node):
        st = it.st
        if not obj.eq(self.target):
            raise Unsupported("setattr on an unexpected object")
        if st.decide(self.readonly(obj, name), "setattr:readonly"):
            raise PyRaise(it.new_exc("AttributeError"), "read-only attribute")
        p = dict_parts(it, self.tdict)
        st.put(self.tdict, "$dhas", z3.Store(p["has"], name, True))
        st.put(self.tdict, "$dval", z3.Store(p["val"], name, val))

    def wf_dict(self, it, d, tag):
        st = it.st
        p = dict_parts(it, d)
        st.assume(p["lo"] <= p["hi"])
        return p

    def str_keys(self, it, d, tag):
        """attribute names are strings (an instance __dict__ filled through setattr / attribute assignment)"""
        p = dict_parts(it, d)
        it.st.assume(QFact(lambda i: z3.Implies(z3.And(p["lo"] <= i, i < p["hi"]), V.is_str(z3.Select(p["keys"], i))),
                           pattern=lambda i: z3.Select(p["keys"], i), name=tag))

    def base(self, it):
        st = it.st
        self.fn = st.fresh_val("function")
        self.target = st.fresh_val("target")
        st.assume(self.fn != self.target)
        # the wrapper's attribute map: whatever it already holds (the state of a wrapper *object*: _function, _timeout ...)
        self.tdict = st.sym_ref("wrapper.__dict__", "dict")
        self.fdict = st.sym_ref("function.__dict__", "dict")
        st.assume(self.tdict != self.fdict)
        self.t0 = self.wf_dict(it, self.tdict, "td")
        self.f0 = f0 = self.wf_dict(it, self.fdict, "fd")
        st.assume(QFact(lambda k: z3.Implies(z3.Select(f0["has"], k),
                                             z3.And(self.has_attr(self.fn, k), self.attr_of(self.fn, k) == z3.Select(f0["val"], k))),
                        sort=Val, pattern=lambda k: z3.Select(f0["has"], k), name="fattr"))
        for n in ("__name__", "__doc__", "__wrapped__"):
            st.instantiate_at(it.mk_str(n))
        st.hints += [self.t0["lo"] == 0, self.t0["hi"] <= 2, f0["lo"] == 0, f0["hi"] <= 2]
        for n in ("__name__", "__doc__", "__wrapped__"):
            st.assume(z3.Not(self.readonly(self.target, it.mk_str(n))))
        for n in ("__name__", "__doc__"):
            st.assume(self.has_attr(self.fn, it.mk_str(n)))

    def not_among(self, key, upto=None):
        """key is none of the (first `upto`) copied attribute names"""
        arr, lo, n = self.names
        return z3.And([z3.Or(z3.BoolVal(False) if upto is None else (lo + i >= upto), z3.Select(arr, lo + i) != key)
                       for i in range(n)])

    def loop_spec(self, it, node, env):
        if not isinstance(node, ast.For):
            return None
        st = it.st
        src = it.eval(node.iter, env)
        if lib.concrete_items(it, src) is None:
            return self.dict_loop_spec(it)   # the __dict__ copy loop, whatever shape its body takes
        arr, lo, hi = lib.seq_view(it, src)
        self.names = (arr, lo, len(lib.concrete_items(it, src)))

        def inv(it2, env2, k):
            j = z3.Int("j!mi")
            key = z3.Const("key!mi", Val)
            nm = z3.Select(arr, j)
            p, t0, f0, pf = dict_parts(it2, self.tdict), self.t0, self.f0, dict_parts(it2, self.fdict)
            return [("attributes-processed-so-far-are-copied-when-present-and-writable",
                     z3.ForAll([j], z3.Implies(z3.And(lo <= j, j < k, self.has_attr(self.fn, nm), z3.Not(self.readonly(self.target, nm))),
                                               z3.And(z3.Select(p["has"], nm), z3.Select(p["val"], nm) == self.attr_of(self.fn, nm))))),
                    ("only-the-listed-attributes-of-the-wrapper-are-written(frame)",
                     z3.ForAll([key], z3.Implies(self.not_among(key, k),
                                                 z3.And(z3.Select(p["has"], key) == z3.Select(t0["has"], key),
                                                        z3.Select(p["val"], key) == z3.Select(t0["val"], key))))),
                    ("the-wrapped-callable-is-not-modified(frame)",
                     z3.And(pf["has"] == f0["has"], pf["val"] == f0["val"]))]

        def on_exit(it2, env2, k):
            pass
        return dict(name="attributes-loop", inv=inv, havoc_containers=True, exit=on_exit, force=True)

    def dict_loop_spec(self, it):
        """The loop that copies the wrapped callable's own attributes: whatever the wrapper holds when the loop starts
        (its own state and the metadata just copied) is still there, with the same value, after every iteration."""
        t1 = dict_parts(it, self.tdict)
        f0 = self.f0
        outer = self

        def inv(it2, env2, k):
            key = z3.Const("key!md", Val)
            p, pf = dict_parts(it2, self.tdict), dict_parts(it2, self.fdict)
            return [("attributes-the-wrapper-already-had-are-not-overwritten(a-wrapper-object-keeps-its-own-state)",
                     QFact(lambda key: z3.Implies(z3.Select(t1["has"], key),
                                                  z3.And(z3.Select(p["has"], key), z3.Select(p["val"], key) == z3.Select(t1["val"], key))),
                           sort=Val, name="md")),
                    ("the-wrapped-callable-is-not-modified(frame)",
                     z3.And(pf["has"] == f0["has"], pf["val"] == f0["val"]))]
        def havoc_done(it2):
            outer.str_keys(it2, outer.fdict, "fk")
            for d in (outer.tdict, outer.fdict):          # counter-models are looked for among small dicts first
                q = dict_parts(it2, d)
                it2.st.hints += [q["lo"] == 0, q["hi"] <= 2]
        return dict(name="own-attributes-loop", inv=inv, havoc_containers=True, havoc_ghost=(havoc_done,))

    def on_return(self, it, ret):
        st = it.st
        st.check("P4:the-wrapper-itself-is-returned", ret == self.target)
        p, t0 = dict_parts(it, self.tdict), self.t0
        names = getattr(self, "names", None)
        for n in ("__name__", "__doc__", "__wrapped__"):
            st.instantiate_at(it.mk_str(n))
        for n in ("__name__", "__doc__"):
            nm = it.mk_str(n)
            listed = z3.BoolVal(False) if names is None else z3.Or([z3.Select(names[0], names[1] + i) == nm for i in range(names[2])])
            st.check(f"P4:{n}-is-among-the-copied-attributes", listed)
            st.check(f"P4:{n}-of-the-wrapper-equals-the-originals",
                     z3.And(z3.Select(p["has"], nm), z3.Select(p["val"], nm) == self.attr_of(self.fn, nm)))
        w = it.mk_str("__wrapped__")
        st.check("P4:__wrapped__-is-the-original-function", z3.And(z3.Select(p["has"], w), z3.Select(p["val"], w) == self.fn))
        if names is not None:
            key = st.fresh_val("own_attribute")
            st.instantiate_at(key)
            st.check("P4:attributes-the-wrapper-already-had-are-not-overwritten(a-wrapper-object-keeps-its-own-state)",
                     z3.Implies(z3.And(z3.Select(t0["has"], key), self.not_among(key), key != w),
                                z3.And(z3.Select(p["has"], key), z3.Select(p["val"], key) == z3.Select(t0["val"], key))))
        pf, f0 = dict_parts(it, self.fdict), self.f0
        st.check("P4:the-wrapped-callable-is-left-untouched", z3.And(pf["has"] == f0["has"], pf["val"] == f0["val"]))

    def on_raise(self, it, exc):
        it.st.check("P4:mimicking-never-raises", z3.BoolVal(False))


class MimicSync(_Mimic):
    file, func, name = MIMIC, "mimic_function.mimic", "C18/mimic:mimic_function.mimic"

    def setup(self, it, env):
        self.base(it)
        env.vars["function"] = self.fn
        return None, CallArgs([self.target])


class MimicAsync(_Mimic):
    file, func, name = ASYNC, "_mimic_async", "C18/asynchrony:_mimic_async"

    def setup(self, it, env):
        self.base(it)
        return None, CallArgs([self.fn], {"within": self.target})


class MimicSites(Lemma):
    """Every helper decorator hands its wrapper to mimic (syntactic audit of the call sites)."""
    name = "C18/frame:every-decorator-mimics-the-wrapped-function"
    props = ("C18",)

    def prove(self, it):
        sites = {
            ("helpers/caching.py", "_SyncCache.__init__"): "mimic_function", ("helpers/caching.py", "_AsyncCache.__init__"): "mimic_function",
            ("helpers/throttling.py", "_AsyncThrottle.__init__"): "mimic_function", ("helpers/timeouted.py", "_AsyncTimeout.__init__"): "mimic_function",
            ("helpers/asynchrony.py", "_ExecutorWrapper.__init__"): "_mimic_async", ("helpers/asynchrony.py", "wrap_async"): "_mimic_async",
            ("helpers/retries.py", "_wrap_sync"): "mimic_function", ("helpers/retries.py", "_wrap_async"): "mimic_function",
            ("helpers/tracing.py", "_traced_sync"): "mimic_function", ("helpers/tracing.py", "_traced_async"): "mimic_function",
        }
        missing = []
        for (f, q), fn in sites.items():
            try:
                node, mod, _ = it.engine.repo.find(f, q)
            except Exception:
                missing.append(f"{f}::{q} not found")
                continue
            calls = [n for n in ast.walk(node) if isinstance(n, ast.Call) and isinstance(n.func, ast.Name) and n.func.id == fn]
            ok = any(c.args and isinstance(c.args[0], ast.Name) and c.args[0].id == "function" for c in calls)
            if not ok:
                missing.append(f"{f}::{q} does not call {fn}(function, ...)")
        it.st.check("frame:all-seven-decorators-pass-their-wrapper-through-mimic", z3.BoolVal(not missing), kind="frame",
                    note="; ".join(missing))
        # `mimic_function(function, within=self)` applies the metadata only `if target := within` - a truth test of the wrapper
        # object (and `retry` / `timeout` / ... test `if function := function` when decorators are stacked): the wrapper classes
        # must leave truthiness alone.  An object is falsy only through `__bool__` or `__len__` (language reference 3.3.1)
        falsy = []
        for (f, q) in sites:
            if not q.endswith(".__init__"):
                continue
            cls = q.split(".")[0]
            try:
                node, _, _ = it.engine.repo.find(f, cls)
            except Exception:
                continue
            for n in node.body:
                if isinstance(n, (ast.FunctionDef, ast.AsyncFunctionDef)) and n.name in ("__bool__", "__len__"):
                    falsy.append(f"{cls}.{n.name}")
                if isinstance(n, ast.Assign) and any(isinstance(t, ast.Name) and t.id in ("__bool__", "__len__") for t in n.targets):
                    falsy.append(f"{cls}.{n.targets[0].id}")
            if any(not (isinstance(b, ast.Name) and b.id in ("object",)) for b in node.bases):
                falsy.append(f"{cls} has base classes ({ast.unparse(node.bases[0])}): truthiness not audited")
        it.st.check("P4:the-wrapper-objects-are-always-truthy(mimic-applies-the-metadata-only-to-a-truthy-target)",
                    z3.BoolVal(not falsy), note="; ".join(falsy))


CONTRACTS = [ExecCall(), ExecMethod(), ExecGet(), WrapAsync(), WrapAsyncFactory(), TracedSync(), TracedAsync(), ArgumentsTraceOf(), ResultTraceOf(), MimicSync(),
             MimicAsync(), MimicSites()]


class AsynchronousShape(DecoratorShape):
    file, func, name = ASYNC, "asynchronous", "C18/asynchrony:asynchronous(decorator-shape)"
    props = ("C18",)
    inner = "wrap"
    closure_kw = "wrapped"


CONTRACTS = CONTRACTS + [AsynchronousShape()]


def extra_contracts():
    """`traced` wraps every call in `ctx.scope(name)` and treats entering / leaving it as steps that never raise - also when the
    traced function runs in a task that outlived the scope it was started in (the new scope is then made under a completed
    one): the completion protocol of C09, re-checked here."""
    from .C02 import _metrics_exit_never_raises
    return _metrics_exit_never_raises("C18")
