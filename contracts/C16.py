"""C16 - timeout calls always terminate with the right outcome and leave nothing running.

Function under contract: helpers/timeouted.py::_AsyncTimeout.__call__ together with its three
closures on_timeout / on_completion / on_result.  The body is executed up to `await future`
(wiring clauses P4); at that suspension point every event the loop can deliver is simulated from
an arbitrary state satisfying the invariant INV(result future, task, timer) by running the *real*
closure registered for it:
   task done (any outcome)  -> on_completion(task)           P1
   timer fires              -> on_timeout(future)            P2
   result future done       -> on_result(future)             P3
and the caller is resumed in every way T-FUT allows (value, exception, cancellation).
INV:  future holds a value       => it is the task's value
      future holds an exception  => it is the task's exception object, or the TimeoutError of the fired timer
      future pending             => on_completion has not run and the timer is still armed   (termination core)
Termination itself is a paper step over these machine-checked facts (T-TIMER: an armed timer fires
at its deadline; T-FUT: done callbacks run): stated as an assumption, not proved.
"""
from __future__ import annotations

import z3

from .common import *
from pyvc.lib import fstate, fval, F_PENDING, F_RESULT, F_EXC, F_CANCELLED

FILE = "helpers/timeouted.py"


class TimeoutCall(Contract):
    file, func, name = FILE, "_AsyncTimeout.__call__", "C16/timeouted:_AsyncTimeout.__call__"
    props = ("C16",)
    trusted = ("S4", "T-FUT (future/task state machine, done callbacks run once after completion)",
               "T-TIMER (call_later runs the callback once at >= now+delay unless cancelled)")
    assumptions = (
        "liveness: 'always terminates' is derived on paper from the proved invariant (pending => timer armed "
        "and completion callback not yet run) + T-TIMER + T-FUT; the deduction itself is not machine checked",
        "the wrapped function honours cancellation eventually (needed only for 'leaves nothing running')",
        "callee contract: mimic_function returns `within` (C18-P4)",
    )

    def callee(self, it, fv):
        if fv.qualname == "mimic_function":
            return lambda it2, fv2, cargs, node: cargs.arg(1, "within", V.VNone)
        return None

    def setup(self, it, env):
        st = it.st
        info = repo_class(it, FILE, "_AsyncTimeout")
        self.fn = st.reg_fun(OracleV("function", is_async=True))
        tmo = st.fresh_val("timeout")
        st.assume(z3.Or(V.is_float(tmo), V.is_int(tmo)))
        self.tmo = tmo
        self.obj = it.instantiate(info.cid, CallArgs([self.fn], {"timeout": tmo}))
        self.args = sym_tuple(it, "args")
        self.kwargs = st.sym_ref("kwargs", "dict")
        inside_some_scope(it)
        self.mark = attr_write_mark(it)
        return method(it, info, self.obj, "__call__"), CallArgs(star=self.args, starstar=self.kwargs)

    # ---------------------------------------------------------------------------------- invariant
    def inv(self, it):
        st = it.st
        g = st.ghost
        fut, task, h = self.fut, self.task, self.handle
        fs, ts = fstate(it, fut), fstate(it, task)
        fv_, tv = fval(it, fut), fval(it, task)
        tcancel = V.bval(st.get(h, "$tcancelled"))
        is_timeout = z3.And(V.is_ref(fv_), V.class_of(V.addr(fv_)) == it.ct.id("TimeoutError"))
        return [
            ("states-wellformed", z3.And(fs >= 0, fs <= 3, ts >= 0, ts <= 3)),
            ("value-is-the-functions-value", z3.Implies(fs == F_RESULT, z3.And(ts == F_RESULT, fv_ == tv))),
            ("exception-is-the-functions-or-the-timeout",
             z3.Implies(fs == F_EXC, z3.Or(z3.And(ts == F_EXC, fv_ == tv), z3.And(is_timeout, g["fired"])))),
            ("pending-means-timer-armed-and-completion-not-run",
             z3.Implies(fs == F_PENDING, z3.And(z3.Not(g["completion_ran"]), z3.Not(tcancel), z3.Not(g["fired"])))),
            ("completion-runs-only-after-the-task-is-done", z3.Implies(g["completion_ran"], ts != F_PENDING)),
            ("task-outcome-is-an-exception-object",
             z3.Implies(ts == F_EXC, z3.And(V.is_ref(tv), V.subclass(V.class_of(V.addr(tv)), it.ct.id("BaseException")),
                                            z3.Not(V.subclass(V.class_of(V.addr(tv)), it.ct.id("CancelledError")))))),
        ]

    def havoc_to_inv(self, it):
        st = it.st
        g = st.ghost
        for f in ("$fstate", "$fval", "$tcancelled"):
            st.havoc_field(f)
        g["completion_ran"] = st.fresh("completion_ran", B)
        g["fired"] = st.fresh("fired", B)
        for f in (st.get(self.fut, "$fstate"), st.get(self.task, "$fstate")):
            st.assume(V.is_int(f))
        st.assume(V.is_bool(st.get(self.handle, "$tcancelled")))
        for _, f in self.inv(it):
            st.assume(f)

    def check_inv(self, it, tag):
        for nm, f in self.inv(it):
            it.st.check(f"{tag}:inv:{nm}", f)

    # ---------------------------------------------------------------------------------- the await
    def segment_end(self, it, aw, idx):
        st = it.st
        g = st.ghost
        timers = g.get("$timers", [])
        cbs = g.get("$done_callbacks", [])
        tasks = g.get("$tasks", [])
        if not timers and not tasks and not cbs and not hasattr(self, "fut"):
            # a suspension before anything was started: nothing can be orphaned there - unless what is awaited *is* the wrapped
            # function, which then runs with no timer and no deadline ("otherwise with a timeout error raised at the deadline")
            direct = aw.kind == "oracle" and aw.data.get("fterm") is not None and aw.data["fterm"].eq(self.fn)
            st.meta.update(timeout=self.tmo)
            st.check("P4:the-wrapped-function-only-ever-runs-under-an-armed-timer(never-awaited-directly)", z3.BoolVal(not direct))
            if direct:
                raise PathEnd("the function is awaited without a deadline")
            return
        ok_shape = len(timers) == 1 and len(tasks) == 1 and len(cbs) == 2 and aw.kind == "future"
        # once the function task exists, a suspension with the wiring incomplete is a window in which cancelling the caller
        # leaves the function running unguarded (no timer, nothing that cancels it)
        st.check("P4:wiring-shape(one task, one timer, two done-callbacks, awaits a future)", z3.BoolVal(ok_shape))
        if not ok_shape:
            raise PathEnd("unexpected wiring")
        self.task, self.handle, self.fut = tasks[0]["task"], timers[0]["handle"], aw.data["fut"]
        # "with the function's own result or exception": the function's failure is delivered to the caller through the result
        # future - a task that is a member of a task group (ctx.spawn inside a scope) would make the *group* react to it first
        # (abort: cancel the caller and every other member) before the wrapper's own completion callback runs
        st.check("P4:the-function-runs-in-a-plain-task-of-the-loop(not-a-member-of-the-callers-task-group)",
                 z3.BoolVal(tasks[0].get("name") != "TaskGroup.create_task"))
        coro = st.fun_of(tasks[0]["coro"]) if tasks[0]["coro"] is not None else None
        ca = coro.data["cargs"] if isinstance(coro, AwaitableV) and coro.kind == "oracle" else None
        st.check("P4:task-runs-the-function-with-the-callers-arguments",
                 z3.BoolVal(bool(ca is not None and coro.data["fterm"].eq(self.fn) and ca.star is not None
                                 and ca.star.eq(self.args) and ca.starstar is not None and ca.starstar.eq(self.kwargs)
                                 and not ca.pos and not ca.kw)))
        st.check("P4:timer-armed-with-the-configured-timeout", timers[0]["delay"] == self.tmo)
        st.check("P4:timer-callback-gets-the-result-future",
                 z3.BoolVal(len(timers[0]["args"]) == 1 and timers[0]["args"][0].eq(self.fut)))
        on_task = [cb for (o, cb) in cbs if o.eq(self.task)]
        on_fut = [cb for (o, cb) in cbs if o.eq(self.fut)]
        st.check("P4:completion-callback-on-the-task-and-result-callback-on-the-future",
                 z3.BoolVal(len(on_task) == 1 and len(on_fut) == 1))
        if len(on_task) != 1 or len(on_fut) != 1:
            raise PathEnd("unexpected wiring")
        st.check("P4:nothing-completed-before-the-first-suspension",
                 z3.And(fstate(it, self.fut) == F_PENDING, fstate(it, self.task) == F_PENDING,
                        z3.Not(V.bval(st.get(self.handle, "$tcancelled")))))
        g["completion_ran"], g["fired"] = z3.BoolVal(False), z3.BoolVal(False)
        self.check_inv(it, "P4:initially")
        ev = st.fork("event", [("caller-resumes", True), ("task-done", True), ("timer-fires", True),
                               ("result-future-done", True)])
        if ev == 0:
            return
        self.havoc_to_inv(it)
        if ev == 1:
            self.ev_task_done(it, on_task[0])
        elif ev == 2:
            self.ev_timer(it, timers[0]["callback"])
        else:
            self.ev_future_done(it, on_fut[0])
        wrapper_frame(it, self.obj, self.mark, "callback")
        raise PathEnd("event simulated")

    def ev_task_done(self, it, cb):
        st = it.st
        g = st.ghost
        fut, task = self.fut, self.task
        # T-FUT: the loop calls each done-callback exactly once, after the task is done
        st.assume(z3.And(fstate(it, task) != F_PENDING, z3.Not(g["completion_ran"])))
        fs0, fv0 = fstate(it, fut), fval(it, fut)
        ts, tv = fstate(it, task), fval(it, task)
        g["completion_ran"] = z3.BoolVal(True)
        try:
            it.call(cb, CallArgs([task]))
        except PyRaise as pr:
            st.meta.update(task_state=ts)
            st.check("P1:on_completion-never-raises", z3.BoolVal(False))
            return
        st.meta.update(task_state=ts, future_state_before=fs0)
        fs1, fv1 = fstate(it, fut), fval(it, fut)
        st.check("P1:result-future-is-done-after-the-task-completed", fs1 != F_PENDING)
        st.check("P1:a-pending-future-receives-the-task-outcome",
                 z3.Implies(fs0 == F_PENDING,
                            z3.Or(z3.And(ts == F_RESULT, fs1 == F_RESULT, fv1 == tv),
                                  z3.And(ts == F_EXC, fs1 == F_EXC, fv1 == tv),
                                  z3.And(ts == F_CANCELLED, fs1 == F_CANCELLED))))
        st.check("P1:a-done-future-is-left-alone", z3.Implies(fs0 != F_PENDING, z3.And(fs1 == fs0, fv1 == fv0)))
        self.check_inv(it, "P1:after-task-done")

    def ev_timer(self, it, cb):
        st = it.st
        g = st.ghost
        fut = self.fut
        st.assume(z3.And(z3.Not(V.bval(st.get(self.handle, "$tcancelled"))), z3.Not(g["fired"])))
        fs0, fv0 = fstate(it, fut), fval(it, fut)
        g["fired"] = z3.BoolVal(True)
        try:
            it.call(cb, CallArgs([fut]))
        except PyRaise:
            st.check("P2:on_timeout-never-raises", z3.BoolVal(False))
            return
        fs1, fv1 = fstate(it, fut), fval(it, fut)
        st.check("P2:pending-future-fails-with-TimeoutError-at-the-deadline",
                 z3.Implies(fs0 == F_PENDING, z3.And(fs1 == F_EXC, V.is_ref(fv1),
                                                     V.class_of(V.addr(fv1)) == it.ct.id("TimeoutError"))))
        st.check("P2:a-done-future-is-left-alone", z3.Implies(fs0 != F_PENDING, z3.And(fs1 == fs0, fv1 == fv0)))
        self.check_inv(it, "P2:after-timeout")

    def ev_future_done(self, it, cb):
        st = it.st
        st.assume(fstate(it, self.fut) != F_PENDING)
        try:
            it.call(cb, CallArgs([self.fut]))
        except PyRaise:
            st.check("P3:on_result-never-raises", z3.BoolVal(False))
            return
        reqs = st.ghost.get("$cancel_requests", [])
        st.check("P3:the-function-task-is-cancelled-once-the-result-future-is-done",
                 z3.BoolVal(any(r.eq(self.task) for r in reqs)))
        self.check_inv(it, "P3:after-result")

    def interfere(self, it, aw, idx):
        self.havoc_to_inv(it)

    def cancel_awaiting_task(self, it, aw, idx):
        return True

    # ---------------------------------------------------------------------------------- exits
    def caller_cancelled(self, it) -> bool:
        """Was the task running the call cancelled while it awaited the result future (T-FUT alternatives)?"""
        return any(":future:task-cancelled-" in l or l.endswith("task-cancelled-while-pending") or
                   l.endswith("task-cancelled-after-result") or l.endswith("task-cancelled-after-exception") for l in it.st.labels)

    def on_return(self, it, ret):
        st = it.st
        wrapper_frame(it, self.obj, self.mark)
        st.check("P5:a-cancelled-caller-ends-cancelled(the-cancellation-propagates-whatever-the-function-did-meanwhile)",
                 z3.BoolVal(not self.caller_cancelled(it)))
        st.check("P5:returns-the-functions-own-result",
                 z3.And(fstate(it, self.task) == F_RESULT, ret == fval(it, self.task)))
        st.check("P5:the-future-is-done-so-on_result-cancels-the-function", fstate(it, self.fut) != F_PENDING)

    def on_raise(self, it, exc):
        st = it.st
        g = st.ghost
        wrapper_frame(it, self.obj, self.mark)
        if not hasattr(self, "fut"):
            nothing_started = not g.get("$tasks") and not g.get("$timers")
            st.check("P5:no-failure-before-the-wiring-is-complete",
                     z3.And(z3.BoolVal(bool(nothing_started)), is_exc(it, exc, "CancelledError")))
            return
        tv = fval(it, self.task)
        if self.caller_cancelled(it):
            st.check("P5:a-cancelled-caller-ends-cancelled(the-cancellation-propagates-whatever-the-function-did-meanwhile)",
                     is_exc(it, exc, "CancelledError"))
        st.check("P5:raises-the-functions-exception-or-timeout-or-cancellation",
                 z3.Or(z3.And(fstate(it, self.task) == F_EXC, exc == tv),
                       z3.And(V.class_of(V.addr(exc)) == it.ct.id("TimeoutError"), g["fired"]),
                       is_exc(it, exc, "CancelledError")))
        st.check("P5:the-future-is-done-so-on_result-cancels-the-function", fstate(it, self.fut) != F_PENDING)


CONTRACTS = [TimeoutCall()]


class TimeoutFactory(Contract):
    """timeout(t)._wrap: how the configured timeout reaches the wrapper object."""
    file, func, name = FILE, "timeout._wrap", "C16/timeouted:timeout._wrap"
    props = ("C16",)

    def instantiate(self, it, info, cargs, node):
        if info.name == "_AsyncTimeout":
            self.made.append(cargs)
            return it.st.alloc(info.cid)
        return None

    def setup(self, it, env):
        st = it.st
        self.made = []
        # any callable - a plain coroutine function or an object, possibly one of the library's own wrapper objects
        self.fn = st.fresh_val("function")
        st.assume(z3.Or(V.is_fun(self.fn), z3.And(V.is_ref(self.fn), V.addr(self.fn) >= 0, V.addr(self.fn) < 1_000_000)))
        self.h0 = st.snapshot_heap()
        self.tmo = st.fresh_val("timeout")
        env.vars.update(timeout=self.tmo)
        return None, CallArgs([self.fn])

    def on_return(self, it, ret):
        ok = len(self.made) == 1
        it.st.check("P6:one-timeout-wrapper-around-the-function-with-the-configured-timeout",
                    z3.BoolVal(ok) if not ok else
                    (lambda a: z3.BoolVal(False) if (a["function"] is None or a["$extra"])
                     else z3.And(a["function"] == self.fn, (a["timeout"] if a["timeout"] is not None else V.VNone) == self.tmo))(
                        named_args(self.made[0], "function", "timeout")))
        st = it.st
        it.st.check("P6:wrapping-leaves-the-wrapped-callable-untouched(other-users-of-it-keep-their-own-deadline)",
                    z3.BoolVal(all(v.eq(self.h0.get(k, st.heap0.get(k))) for k, v in st.heap.items()
                                   if not k.startswith("$") and k in ("_timeout", "_function"))))

    def on_raise(self, it, exc):
        it.st.check("P6:building-the-timeout-wrapper-never-raises", z3.BoolVal(False))


CONTRACTS = CONTRACTS + [TimeoutFactory()]


def extra_contracts():
    return mimic_variants("C16")
