"""C11 - context streams run in their creation context and leave the consumer's intact.

Function under contract: context/access.py::ctx.stream and its inner async generator.

With T-AGEN (CPython: the body of an async generator runs in the context of whoever awaits its
__anext__ / aclose; Context.run(f) only affects the *call* f(), i.e. the creation of the generator
object) the clauses are:
  P1 every body segment runs with the context that was current at ctx.stream(...) time: the iterator
     handed to the consumer must drive each __anext__ inside the snapshot;
  P2 the consumer's own state / metrics scope / task group are unaffected between items and after
     the end: the stream's scope must never be entered in the consumer's context;
  P3 items and the terminal outcome of the source are forwarded unchanged and in order (loop
     invariant over the source's item sequence; the arbitrary iteration yields exactly item k);
  P4 the stream's scope is left when the stream is exhausted, fails, or is closed at a yield.
P1 and P2 are refuted on the current tree (the returned iterator is the bare generator, whose body -
including `async with streaming_context` - therefore runs in the consumer's context): this is the
listed known finding, reported as KNOWN-FINDING and not counted as proved.
"""
from __future__ import annotations

import ast

import z3

from .common import *
from pyvc import lib as L

ACCESS = "context/access.py"


class StreamFactory(Contract):
    file, func, name = ACCESS, "ctx.stream", "C11/access:ctx.stream"
    props = ("C11",)
    trusted = ("T-AGEN (an async generator body runs in the context of the task awaiting __anext__; Context.run(genfunc) "
               "only creates the generator object inside the snapshot)", "T-CV")
    assumptions = ("callee contract: ctx.scope builds a ScopeContext (C02/C08)",)

    def callee(self, it, fv):
        if fv.qualname == "ctx.scope":
            def scope(it2, fv2, ca, node):
                self.scope_args = ca
                o = it2.st.alloc("object")
                self.scope_obj = o
                return o
            return scope
        return None

    def getattr_default(self, it, obj, name, default, node):
        if name in ("__name__", "__qualname__") and obj.eq(self.source):
            self.name_default = default
            return V.VStr(lib.fun_attr(V.fid(obj), it.st.strs.setdefault(name, len(it.st.strs)))) \
                if it.st.decide(self.has_name, "source-has-__name__") else default
        return None

    # the source is any callable returning an async generator: a functools.partial of a generator function and an instance
    # whose __call__ is a generator have neither __name__ nor __qualname__ - reading them unguarded raises AttributeError
    oracle_metadata_may_be_absent = True

    def attr(self, it, obj, name, node):
        if name in ("__name__", "__qualname__") and obj.eq(self.source):
            if not it.st.decide(self.has_name, "source-has-__name__"):
                raise PyRaise(it.new_exc("AttributeError"), f"the source callable has no {name} (partial / callable object)")
            return V.VStr(lib.fun_attr(V.fid(obj), it.st.strs.setdefault(name, len(it.st.strs))))
        return None

    def context_run(self, it, ctxobj, ca, node):
        st = it.st
        self.ran_in = ctxobj
        f = ca.pos[0]
        fv = st.fun_of(f)
        self.run_target = fv
        # calling an async generator function only creates the generator object (T-AGEN)
        g = st.alloc("object")
        self.gen_obj = g
        return g

    def setup(self, it, env):
        st = it.st
        self.source = st.reg_fun(OracleV("source"))
        self.has_name = st.fresh("has_name", B)
        self.args, self.kwargs = sym_tuple(it, "args"), st.sym_ref("kwargs", "dict")
        self.scope_args = self.ran_in = self.run_target = self.gen_obj = None
        cinfo = repo_class(it, ACCESS, "ctx")
        f = st.fun_of(it.class_attr(cinfo, "stream", V.VCls(z3.IntVal(cinfo.cid))))
        return f, CallArgs([self.source], star=self.args, starstar=self.kwargs)

    def on_return(self, it, ret):
        st = it.st
        snaps = [e[1] for e in st.events if e[0] == "copy_context"]
        st.check("P0:the-context-is-captured-when-the-stream-is-created", z3.BoolVal(len(snaps) == 1))
        st.check("P0:a-nested-scope-is-prepared-for-the-stream(named-after-the-source)",
                 z3.BoolVal(self.scope_args is not None and len(self.scope_args.pos) == 1))
        body_is_generator = isinstance(self.run_target, FuncV) and any(isinstance(n, ast.Yield) for n in ast.walk(self.run_target.node))
        bare = self.gen_obj is not None and ret.eq(self.gen_obj) and body_is_generator
        # T-AGEN: a bare async generator object runs its body in the consumer's context, whatever context created it
        st.check("P1:every-step-of-the-stream-body-is-driven-inside-the-captured-context(not-the-consumers)",
                 z3.BoolVal(not bare and self.gen_obj is not None))
        st.check("P2:the-streams-scope-is-never-entered-in-the-consumers-context",
                 z3.BoolVal(not bare and self.gen_obj is not None))

    def on_raise(self, it, exc):
        it.st.check("P0:creating-a-stream-never-raises", z3.BoolVal(False))


class StreamBody(Contract):
    """The inner generator: forwarding of items / terminal outcome, scope left on every way of ending."""
    file, func, name = ACCESS, "ctx.stream.generator", "C11/access:ctx.stream.generator"
    props = ("C11",)
    trusted = ("T-AGEN (closing an async generator raises GeneratorExit at the pending yield)",)

    def setup(self, it, env):
        st = it.st
        self.source = st.reg_fun(OracleV("source"))
        self.args, self.kwargs = sym_tuple(it, "args"), st.sym_ref("kwargs", "dict")
        self.scope_obj = st.alloc("object")
        env.vars.update(source=self.source, args=self.args, kwargs=self.kwargs, streaming_context=self.scope_obj)
        self.items, self.iarr, self.ilo, self.ihi = sym_seq(it, "items", "list")
        self.log = []
        self.yielded = None
        self.closed = False
        self.terminal = None
        return None, CallArgs()

    def attr(self, it, obj, name, node):
        if obj.eq(self.scope_obj) and name in ("__aenter__", "__aexit__"):
            def cm(it2, ca, node2):
                self.log.append((name, list(ca.pos)))
                return it2.st.reg_fun(AwaitableV("scope-" + name, {}))
            return it.st.reg_fun(cm)
        if obj.eq(self.scope_obj) and name in ("__enter__", "__exit__"):
            # the synchronous protocol of the same scope object: state and metrics only, no task group of its own
            def scm(it2, ca, node2):
                self.log.append((name, list(ca.pos)))
                return V.VNone
            return it.st.reg_fun(scm)
        return None

    def entered_async(self, it):
        """`async with`: the stream's scope owns a task group - what the source spawns belongs to the stream (it is awaited when
        the stream ends and cancelled when the stream is abandoned or its consumer cancelled), not to whoever consumes it."""
        names = [e[0] for e in self.log]
        it.st.check("C06-P6:the-streams-scope-is-entered-as-an-asynchronous-scope(it-owns-the-task-group-for-what-the-source-spawns)",
                    z3.BoolVal("__enter__" not in names and "__exit__" not in names and names[:1] == ["__aenter__"]))

    def on_await(self, it, aw, idx, node):
        if aw.kind.startswith("scope-"):
            return V.VNone
        return NotImplemented

    def async_for(self, it, node, env):
        """async for x in source(*args, **kwargs): one arbitrary iteration k, then the terminal outcome."""
        st = it.st
        src = it.eval(node.iter, env)
        aw = st.fun_of(src) if it.kind(src) == "function" else None
        ev = [e for e in st.events if e[0] == "oracle"]
        ok = len(ev) == 1 and ev[0][3].star is not None and ev[0][3].star.eq(self.args) and ev[0][3].starstar is not None \
            and ev[0][3].starstar.eq(self.kwargs) and not ev[0][3].pos and not ev[0][3].kw
        st.check("P3:the-source-is-called-once-with-the-callers-arguments", z3.BoolVal(bool(ok)))
        k = st.fresh("k", I)
        st.assume(z3.And(self.ilo <= k, k <= self.ihi))
        j = st.fork("source", [("yields-item-k", k < self.ihi), ("ends-normally", k == self.ihi), ("raises", k == self.ihi)])
        if j == 0:
            self.k = k
            it.assign(node.target, z3.Select(self.iarr, k), env)
            it.exec_block(node.body, env)
            st.check("P3:exactly-one-value-is-yielded-per-source-item", z3.BoolVal(len([e for e in st.events if e[0] == "yield"]) == 1))
            raise PathEnd("end of the arbitrary iteration")
        if j == 1:
            self.terminal = ("end", None)
            return
        e = it.fresh_exception("source.exc")
        self.terminal = ("exc", e)
        raise PyRaise(e, "the source generator failed")

    def on_yield(self, it, v, node):
        st = it.st
        self.yielded = v
        st.check("P3:the-item-handed-to-the-consumer-is-item-k-of-the-source-unchanged", v == z3.Select(self.iarr, self.k))
        if st.fork("consumer", [("asks-for-the-next-item", True), ("closes-the-stream", True)]) == 1:
            self.closed = True
            raise PyRaise(it.new_exc("GeneratorExit"), "the consumer abandoned the stream")
        return V.VNone

    def source_result(self):
        return None

    def call_unknown(self, it, f, cargs, node):
        return None

    def exits(self):
        return [e for e in self.log if e[0] in ("__aexit__", "__exit__")]

    def on_return(self, it, ret):
        st = it.st
        self.entered_async(it)
        st.check("P3:the-stream-ends-normally-exactly-when-the-source-does",
                 z3.BoolVal(self.terminal is not None and self.terminal[0] == "end"))
        st.check("P4:the-streams-scope-is-entered-once-and-left-once-when-the-stream-is-exhausted",
                 z3.BoolVal(len([e for e in self.log if e[0] in ("__aenter__", "__enter__")]) == 1 and len(self.exits()) == 1))

    def on_raise(self, it, exc):
        st = it.st
        self.entered_async(it)
        if self.closed:
            st.check("P4:an-abandoned-stream-leaves-its-scope-and-lets-GeneratorExit-through",
                     z3.And(z3.BoolVal(len(self.exits()) == 1), is_exc(it, exc, "GeneratorExit")))
            return
        oexc = [e for e in st.events if e[0] == "oracle-exc"]
        if self.terminal is None and oexc:
            self.terminal = ("exc", oexc[0][3])           # the source failed when it was called
        st.check("P3:the-stream-fails-exactly-with-the-sources-exception-object",
                 z3.BoolVal(self.terminal is not None and self.terminal[0] == "exc") if not (self.terminal and self.terminal[0] == "exc")
                 else exc == self.terminal[1])
        st.check("P4:a-failing-stream-leaves-its-scope", z3.BoolVal(len(self.exits()) == 1))
        ex = self.exits()
        if ex and len(ex[0][1]) == 3:
            st.check("P4:the-scope-is-left-with-the-failure-details", ex[0][1][1] == exc)


# the stream enters / leaves its pre-built ScopeContext around the generator body: "the consumer's state, metrics scope
# and task group are unaffected ... the stream's scope completes" rests on ScopeContext.__aenter__/__aexit__ restoring the
# three variables and finishing the metrics scope on *every* path (their C02 obligations, re-used here)
from .C02 import AsyncScope as _AsyncScope, TaskGroupExit as _TaskGroupExit, variant as _variant      # noqa: E402

# ... and "the stream's scope completes when the stream is exhausted or closed" (with the scopes it was created in completing
# after it, not before) is the completion protocol of ScopeMetrics: the C09 contracts of _finish / _complete_if_able
from .C09 import CompleteIfAble as _CIA, Finish as _Finish      # noqa: E402

CONTRACTS = [StreamFactory(), StreamBody(), _variant(_AsyncScope, "C11", ("C02-", "C01-P6")), _variant(_TaskGroupExit, "C11", ("C02-",)),
             _variant(_CIA, "C11", ("",)), _variant(_Finish, "C11", ("",))]

# "the consumer's own state ... unaffected": the stream's scope supplies no state, so it shares the very ScopeState object of the
# code that enters it (`ScopeState.updated` returns `self` for an empty update) - lookups made by the generator body must not
# write to that object (the frame clauses of C01's lookup and update)
from .C01 import Lookup as _Lookup, Updated as _Updated      # noqa: E402
CONTRACTS = CONTRACTS + [_variant(_Lookup, "C11", lambda n: "(frame" in n), _variant(_Updated, "C11", lambda n: "(frame" in n)]
