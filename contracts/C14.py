"""C14 - retry makes exactly the allowed attempts and reports the true last outcome.

Functions under contract: helpers/retries.py::_wrap_sync.wrapped, ::_wrap_async.wrapped (the two
retry loops) and ::retry._wrap (normalisation of `catching`).

Ghost model: out_is_ret(k) / out_val(k) - the outcome of the k-th call of the wrapped function, as
uninterpreted functions of k: one proof covers every outcome sequence.  `calls` counts calls,
`slp[0..nslp)` logs the values handed to sleep.
"""
from __future__ import annotations

import z3

from .common import *

out_is_ret = z3.Function("C14.out_is_ret", I, B)
out_val = z3.Function("C14.out_val", I, Val)
dfun = z3.Function("C14.delay_fn", Val, Val, Val)       # the delay function (pure, total: requires)


class _RetryBase(Contract):
    props = ("C14",)
    is_async = False
    trusted = ("S1", "S2", "S4", "T-SLEEP", "T-COLL:match-class-pattern(PEP 634)")
    assumptions = (
        "requires: limit >= 1 (checked by the factory's leading assert, taken from the source)",
        "requires (property quantifier): delay is None, a non-negative int/float, or a total pure "
        "function returning a non-negative number",
        "requires: `catching` is a set/tuple of classes",
        "the wrapped function does not call back into the wrapper's frame (closures have no shared state)",
        "callee contract: ctx.log_error never raises (C19-P4)",
        "external cancellation at `await sleep` is outside the property's quantifier (not injected)",
    )

    # ---------------------------------------------------------------------------------- scenario
    def setup(self, it, env):
        st = it.st
        g = st.ghost
        g["calls"] = z3.IntVal(0)
        g["slp"] = z3.K(I, V.VNone)
        g["nslp"] = z3.IntVal(0)
        self.fn = st.reg_fun(OracleV("function", spec=self.fn_spec, is_async=self.is_async))
        limit = st.fresh("limit", I)
        delay = st.fresh_val("delay")
        catching, carr, clo, chi = sym_seq(it, "catching", "set")
        i = z3.Int("i!c")
        st.assume(z3.ForAll([i], z3.Implies(z3.And(clo <= i, i < chi), V.is_cls(z3.Select(carr, i))),
                            patterns=[z3.Select(carr, i)]))
        g.update(limit=limit, delay=delay, carr=carr, clo=clo, chi=chi)
        env.vars.update(function=self.fn, limit=V.VInt(limit), delay=delay, catching=catching)
        self.factory_asserts(it, env)
        dnum = z3.Or(z3.And(V.is_int(delay), V.ival(delay) >= 0), z3.And(V.is_float(delay), V.rval(delay) >= 0))
        st.assume(z3.Or(V.is_none(delay), dnum, V.is_fun(delay)))
        a, e = z3.Consts("a!d e!d", Val)
        r = dfun(a, e)
        st.assume(z3.ForAll([a, e], z3.Or(z3.And(V.is_int(r), V.ival(r) >= 0), z3.And(V.is_float(r), V.rval(r) >= 0)),
                            patterns=[dfun(a, e)]))
        self.args = sym_tuple(it, "args")
        self.kwargs = st.sym_ref("kwargs", "dict")
        st.meta.update(limit=limit, delay=delay, n_catching=chi - clo)
        st.hints += [limit <= 2, chi - clo <= 2, clo == 0]
        return None, CallArgs(star=self.args, starstar=self.kwargs)

    oracle_metadata_may_be_absent = True

    def attr(self, it, obj, name, node):
        # the wrapped callable is any callable: functools.partial objects and callable instances have no __name__
        # (mimic_function tolerates that at decoration time; so must the retry path)
        if obj.eq(self.fn) and name in ("__name__", "__qualname__"):
            if it.st.fork(f"function.{name}", [("present", True), ("absent(partial-or-callable-object)", True)]) == 1:
                raise PyRaise(it.new_exc("AttributeError"), f"the wrapped callable has no {name}")
            return it.st.fresh_val(f"function.{name}")
        return None

    # ---------------------------------------------------------------------------------- oracles
    def fn_spec(self, it, ov, cargs, node):
        st = it.st
        g = st.ghost
        ok = (cargs.star is not None and cargs.starstar is not None and not cargs.pos and not cargs.kw
              and cargs.star.eq(self.args) and cargs.starstar.eq(self.kwargs))
        st.check("P0:arguments-forwarded-unchanged", z3.BoolVal(bool(ok)), kind="property")
        k = g["calls"]
        g["calls"] = st.simp(k + 1)
        if st.fork("function", [("returns", out_is_ret(k)), ("raises", z3.Not(out_is_ret(k)))]) == 0:
            return out_val(k)
        e = out_val(k)
        st.assume(V.is_ref(e))
        st.assume(z3.And(V.addr(e) >= 2_000_000, V.addr(e) < 3_000_000))
        st.assume(V.subclass(cls_of_exc(e), it.ct.id("BaseException")))
        raise PyRaise(e, "wrapped function raised")

    def call_unknown(self, it, f, cargs, node):
        # the only unknown callable of this scenario is `delay` used as a function
        if f.eq(it.st.ghost["delay"]):
            if not it.st.decide(V.is_fun(f), "delay:is-function"):
                raise PyRaise(it.new_exc("TypeError"), "delay value is not callable")
            if len(cargs.pos) != 2 or cargs.kw or cargs.star is not None:
                raise Unsupported("delay function called with an unexpected shape")
            return dfun(cargs.pos[0], cargs.pos[1])
        return None

    def callee(self, it, fv):
        if fv.qualname in LOG_CALLEES:
            return log_never_raises
        return None

    # the engine logs sleeps through Engine.sleep; keep a symbolic log for the loop invariant
    def on_await(self, it, aw, idx, node):
        if aw.kind == "sleep":
            self.log_sleep(it, aw.data["delay"])
        return NotImplemented

    def log_sleep(self, it, d):
        g = it.st.ghost
        g["slp"] = z3.Store(g["slp"], g["nslp"], d)
        g["nslp"] = it.st.simp(g["nslp"] + 1)

    # ---------------------------------------------------------------------------------- spec terms
    def caught(self, it, e):
        g = it.st.ghost
        i = z3.Int("i!caught")
        return z3.Exists([i], z3.And(g["clo"] <= i, i < g["chi"],
                                     V.subclass(V.type_of(e, it.ct), V.cid(z3.Select(g["carr"], i)))))

    def dval(self, it, k):
        d = it.st.ghost["delay"]
        return z3.If(V.is_fun(d), dfun(V.VInt(k + 1), out_val(k)), d)

    def retried(self, it, k):
        """Outcome k was a caught, non-cancellation Exception (so a retry was due)."""
        e = out_val(k)
        return z3.And(z3.Not(out_is_ret(k)), V.is_ref(e), is_exc(it, e, "Exception"),
                      z3.Not(is_exc(it, e, "CancelledError")), self.caught(it, e))

    def pauses_ok(self, it, n_expected):
        g = it.st.ghost
        k = z3.Int("k!p")
        return [("pause-count", g["nslp"] == z3.If(V.is_none(g["delay"]), 0, n_expected)),
                ("pause-values", z3.ForAll([k], z3.Implies(z3.And(0 <= k, k < g["nslp"]),
                                                           z3.Select(g["slp"], k) == self.dval(it, k))))]

    # ---------------------------------------------------------------------------------- loop
    def loop_spec(self, it, node, env):
        if not isinstance(node, __import__("ast").While):
            return None

        # the attempt counter is identified by its role (the local incremented in the loop), not by its name
        counters = sorted({n.target.id for n in __import__("ast").walk(node)
                           if isinstance(n, __import__("ast").AugAssign) and isinstance(n.target, __import__("ast").Name)})
        if len(counters) != 1:
            raise Unsupported(f"cannot identify the attempt counter of the retry loop (candidates: {counters})")
        counter = counters[0]

        def inv(it, env, k):
            g = it.st.ghost
            att = env.lookup(counter)
            calls = g["calls"]
            j = z3.Int("j!inv")
            out = [("attempt-is-calls", z3.And(V.is_int(att), V.ival(att) == calls)),
                   ("calls-bounded", z3.And(0 <= calls, calls <= g["limit"])),
                   ("earlier-outcomes-retried",
                    z3.ForAll([j], z3.Implies(z3.And(0 <= j, j < calls), self.retried(it, j))))]
            out += self.pauses_ok(it, calls)
            return out

        def havoc(it):
            g = it.st.ghost
            g["calls"] = it.st.fresh("calls", I)
            it.st.hints.append(g["calls"] <= 2)
            g["slp"] = it.st.fresh("slp", V.ArrIV)
            g["nslp"] = it.st.fresh("nslp", I)

        return dict(name="retry-loop", inv=inv, havoc_ghost=[havoc])

    # ---------------------------------------------------------------------------------- exits
    def on_return(self, it, ret):
        st = it.st
        g = st.ghost
        calls = g["calls"]
        st.meta.update(calls=calls)
        st.check("P1:returns-the-value-of-the-last-call",
                 z3.And(calls >= 1, out_is_ret(calls - 1), out_val(calls - 1) == ret))
        st.check("P3:at-most-limit+1-calls", calls <= g["limit"] + 1)
        j = z3.Int("j!r")
        st.check("P3b:every-earlier-call-failed-retryably",
                 z3.ForAll([j], z3.Implies(z3.And(0 <= j, j < calls - 1), self.retried(it, j))))
        for nm, f in self.pauses_ok(it, calls - 1):
            st.check(f"P4:{nm}", f)

    def on_raise(self, it, exc):
        st = it.st
        g = st.ghost
        calls = g["calls"]
        st.meta.update(calls=calls, raised=exc)
        last = out_val(calls - 1)
        st.check("P2:raises-the-exception-object-of-the-last-call",
                 z3.And(calls >= 1, z3.Not(out_is_ret(calls - 1)), last == exc))
        st.check("P2b:stops-only-when-allowed",
                 z3.Or(z3.Not(is_exc(it, exc, "Exception")), is_exc(it, exc, "CancelledError"),
                       z3.Not(self.caught(it, exc)), calls == g["limit"] + 1))
        st.check("P3:at-most-limit+1-calls", calls <= g["limit"] + 1)
        j = z3.Int("j!r")
        st.check("P3b:every-earlier-call-failed-retryably",
                 z3.ForAll([j], z3.Implies(z3.And(0 <= j, j < calls - 1), self.retried(it, j))))
        for nm, f in self.pauses_ok(it, calls - 1):
            st.check(f"P4:{nm}", f)


class RetrySync(_RetryBase):
    file = "helpers/retries.py"
    func = "_wrap_sync.wrapped"
    name = "C14/retries:_wrap_sync.wrapped"

    def setup(self, it, env):
        r = super().setup(it, env)
        # time.sleep is called directly (no await): hook the log through the library spec
        orig = self
        def sleep_sync(it2, ca, node):
            orig.log_sleep(it2, ca.pos[0])
            return it2.engine.sleep(it2, ca.pos[0], False, node)
        it.st.ghost["$libvals"] = it.st.ghost.get("$libvals", {})
        it.st.ghost["$libvals"]["time.sleep"] = it.st.reg_fun(sleep_sync)
        return r


class RetryAsync(_RetryBase):
    file = "helpers/retries.py"
    func = "_wrap_async.wrapped"
    name = "C14/retries:_wrap_async.wrapped"
    is_async = True


class _Closure(Contract):
    """_wrap_sync / _wrap_async up to the point where `wrapped` is defined: the loop runs with exactly the configuration it was
    given - the closure captures `function`, `limit`, `delay` and the caught classes unchanged (the two loop contracts above
    start from such a closure)."""
    props = ("C14",)
    is_async = False

    def callee(self, it, fv):
        if fv.qualname == "mimic_function":
            lib.used("callee:mimic_function(C18-P4)")
            return lambda it2, fv2, cargs, node: it2.st.reg_fun(OracleV("mimic-decorator", spec=lambda it3, ov, ca, n: ca.pos[0]))
        return None

    def setup(self, it, env):
        st = it.st
        self.fn = st.reg_fun(OracleV("function", is_async=self.is_async))
        self.limit = V.VInt(st.fresh("limit", I))
        st.assume(V.ival(self.limit) > 0)
        self.delay = st.fresh_val("delay")
        self.catching, self.carr, self.clo, self.chi = sym_seq(it, "catching", "tuple" if st.fork("caught-as", [("tuple", True), ("set", True)]) == 0 else "set")
        return None, CallArgs([self.fn], {"limit": self.limit, "delay": self.delay, "catching": self.catching})

    def on_return(self, it, ret):
        st = it.st
        fv = st.fun_of(ret) if it.kind(ret) == "function" else None
        ok = isinstance(fv, FuncV)
        st.check("P6:the-retry-loop-closure-is-returned", z3.BoolVal(bool(ok)))
        if not ok:
            return
        env = fv.env
        for nm, want in (("function", self.fn), ("limit", self.limit), ("delay", self.delay)):
            got = env.lookup(nm)
            st.check(f"P6:the-loop-runs-with-the-given-{nm}", z3.BoolVal(got is not None) if got is None else got == want)
        got = env.lookup("catching")
        sv = lib.seq_view(it, got) if got is not None else None
        if sv is None:
            st.check("P6:the-loop-tests-failures-against-exactly-the-given-classes(a-re-iterable-collection-of-them)", z3.BoolVal(False))
            return
        arr, lo, hi = sv
        i = st.fresh("i", I)
        st.check("P6:the-loop-tests-failures-against-exactly-the-given-classes(a-re-iterable-collection-of-them)",
                 z3.And(hi - lo == self.chi - self.clo,
                        z3.Implies(z3.And(0 <= i, i < hi - lo), z3.Select(arr, lo + i) == z3.Select(self.carr, self.clo + i))))

    def on_raise(self, it, exc):
        it.st.check("P6:wrapping-fails-only-on-its-own-precondition(limit > 0)", z3.BoolVal(False))


class ClosureSync(_Closure):
    file, func, name = "helpers/retries.py", "_wrap_sync", "C14/retries:_wrap_sync(closure)"


class ClosureAsync(_Closure):
    file, func, name = "helpers/retries.py", "_wrap_async", "C14/retries:_wrap_async(closure)"
    is_async = True


CONTRACTS = [RetrySync(), RetryAsync(), ClosureSync(), ClosureAsync()]


class RetryFactory(Contract):
    """retry._wrap: how the configuration reaches the two loops (normalisation of `catching`)."""
    file, func, name = "helpers/retries.py", "retry._wrap", "C14/retries:retry._wrap"
    props = ("C14",)

    def callee(self, it, fv):
        if fv.qualname in ("_wrap_sync", "_wrap_async"):
            def spec(it2, fv2, ca, node):
                self.calls.append((fv2.qualname, ca))
                return it2.st.fresh_val("wrapped")
            return spec
        return None

    def setup(self, it, env):
        st = it.st
        self.calls = []
        self.is_async = st.fork("function-kind", [("sync", True), ("async", True)]) == 1
        self.fn = st.reg_fun(OracleV("function", is_async=self.is_async))
        self.limit, self.delay = V.VInt(st.fresh("limit", I)), st.fresh_val("delay")
        shape = st.fork("catching-shape", [("class", True), ("tuple", True), ("set", True)])
        if shape == 0:
            self.catching = V.VCls(st.fresh("exc_class", I))
        elif shape == 1:
            self.catching = st.sym_ref("catching", "tuple")
        else:
            self.catching = st.sym_ref("catching", "set")
        self.shape = shape
        env.vars.update(limit=self.limit, delay=self.delay, catching=self.catching)
        return None, CallArgs([self.fn])

    def on_return(self, it, ret):
        st = it.st
        ok = len(self.calls) == 1
        st.check("P5:exactly-one-retry-loop-is-built", z3.BoolVal(ok))
        if not ok:
            return
        which, ca = self.calls[0]
        st.check("P5:async-functions-get-the-async-loop-sync-functions-the-sync-loop",
                 z3.BoolVal(which == ("_wrap_async" if self.is_async else "_wrap_sync")))
        st.check("P5:function-limit-and-delay-are-passed-unchanged",
                 z3.And(z3.BoolVal(len(ca.pos) == 1) if len(ca.pos) != 1 else ca.pos[0] == self.fn,
                        ca.kw.get("limit") == self.limit, ca.kw.get("delay") == self.delay))
        c = ca.kw.get("catching")
        if self.shape == 0:
            items = lib.concrete_items(it, c) if c is not None and it.kind(c) == "ref" else None
            st.check("P5:a-single-exception-class-becomes-the-one-element-caught-set",
                     z3.BoolVal(items is not None and len(items) == 1) if not (items and len(items) == 1) else items[0] == self.catching)
        else:
            st.check("P5:a-tuple-or-set-of-classes-is-used-as-given", c == self.catching)

    def on_raise(self, it, exc):
        it.st.check("P5:building-the-wrapper-never-raises", z3.BoolVal(False))


CONTRACTS = CONTRACTS + [RetryFactory()]


def extra_contracts():
    # the retry loops call ctx.log_error between attempts from inside their `except` handler and treat it as a callee that never
    # raises (an exception there would end the loop after one attempt and replace the function's outcome): C19's never-raises
    # clauses of ctx.log_error and of ScopeMetrics.log - for a scope in any stage of its life, a task that outlives its scope
    # still logs through it
    from .C19 import ScopeLog, ContextLog
    from .C02 import variant
    # (the clauses about *where* the line goes are kept too: they are what a path that returns normally is checked for)
    never = lambda n: "never-raises" in n or "exactly-one-record" in n or "goes-to-the-current-scope" in n \
        or "one-untagged-line" in n      # noqa: E731
    log_error = type("Log_error_ctx", (ContextLog,), dict(file="context/access.py", func="ctx.log_error",
                                                          name="C19/access:ctx.log_error", level_fn="log_error", via_ctx=True))
    return mimic_variants("C14") + [variant(ScopeLog, "C14", never), variant(log_error, "C14", never)]


class RetryShape(DecoratorShape):
    file, func, name = "helpers/retries.py", "retry", "C14/retries:retry(decorator-shape)"
    props = ("C14",)


CONTRACTS = CONTRACTS + [RetryShape()]
