r"""C15 - throttle never starts more than `limit` calls in any `period` window.

Functions under contract: helpers/throttling.py::_AsyncThrottle.__init__ (executed symbolically to
build the receiver: `_period`, `_limit`, `_entries`, `_lock` get their meaning from the real code)
and ::_AsyncThrottle.__call__ (critical section: cleanup loop, optional sleep, record; then the
call of the wrapped function).

Ghost: starts[0..n) - every recorded start instant, in order.  Object invariant:
  sorted(starts) /\ entries == a suffix of starts /\ dropped starts are at least `period` old /\
  RATE BOUND  forall i. starts[i+limit] >= starts[i] + period          (property clause P1)
Lemma L-WIN turns the rate bound into the window statement of the property.
"""
from __future__ import annotations

import ast

import z3

from .common import *
from pyvc.state import QFact

FILE = "helpers/throttling.py"


def rv(x):
    """Real value of a Val holding a float or an int."""
    return z3.If(V.is_float(x), V.rval(x), z3.ToReal(V.ival(x)))


class ThrottleCall(Contract):
    file, func, name = FILE, "_AsyncThrottle.__call__", "C15/throttling:_AsyncThrottle.__call__"
    props = ("C15",)
    trusted = ("S1 (real-valued clock)", "S7 (monotonic clock)", "S4", "T-LOCK", "T-SLEEP", "T-COLL(deque)",
               "exact virtual time: code between two suspension points takes no time")
    assumptions = (
        "requires (property configurations): limit >= 1, period > 0 (float/int seconds or timedelta)",
        "rely: `_entries` is only read or written while `_lock` is held (frame audit obligation "
        "`frame:_entries-only-under-lock` on the class source) => not havocked at the sleep inside the lock",
        "arrival order and 'eventually runs' are T-LOCK FIFO + T-SLEEP: assumed, not proved (liveness)",
        "callee contract: mimic_function returns `within` and touches only metadata attributes (C18-P4)",
    )

    # ---------------------------------------------------------------------------------- scenario
    def callee(self, it, fv):
        if fv.qualname == "mimic_function":
            def spec(it2, fv2, cargs, node):
                lib.used("callee:mimic_function(C18-P4)")
                return cargs.arg(1, "within", V.VNone)
            return spec
        return None

    def setup(self, it, env):
        st = it.st
        g = st.ghost
        info = repo_class(it, FILE, "_AsyncThrottle")
        self.info = info
        self.fn = st.reg_fun(OracleV("function", is_async=True))
        limit = st.fresh("limit", I)
        st.assume(limit >= 1)
        period = st.fresh_val("period")
        shape = st.fork("period-shape", [("seconds", z3.Or(V.is_float(period), z3.And(V.is_int(period)))),
                                         ("timedelta", V.is_ref(period))])
        if shape == 1:
            st.assume(z3.And(V.addr(period) >= 0, V.addr(period) < 1_000_000))
            st.declare_class(period, "timedelta")
            st.assume(lib.td_seconds(V.addr(period)) > 0)
        else:
            st.assume(rv(period) > 0)
        obj = it.instantiate(info.cid, CallArgs([self.fn], {"limit": V.VInt(limit), "period": period}))
        self.obj = obj
        self.mark = attr_write_mark(it)
        p = st.get(obj, "_period")
        self.period = st.simp(rv(p))
        self.limit = limit
        st.check("P4:period-is-seconds",
                 self.period == (lib.td_seconds(V.addr(period)) if shape == 1 else rv(period)))
        st.check("init:limit-stored", st.get(obj, "_limit") == V.VInt(limit), kind="aux")
        ent = st.get(obj, "_entries")
        self.entries = ent
        st.check("init:entries-empty", st.get(ent, "$hi") == st.get(ent, "$lo"), kind="aux")
        # ---- an arbitrary reachable object state: havoc the mutable parts up to the invariant
        self.havoc_to_invariant(it)
        self.args = sym_tuple(it, "args")
        self.kwargs = st.sym_ref("kwargs", "dict")
        st.meta.update(limit=limit, period=self.period)
        st.hints += [limit <= 2]
        return method(it, info, obj, "__call__"), CallArgs(star=self.args, starstar=self.kwargs)

    def havoc_to_invariant(self, it):
        st = it.st
        g = st.ghost
        for f in ("$arr", "$lo", "$hi"):
            st.havoc_field(f)
        g["starts"] = st.fresh("starts", z3.ArraySort(I, R))
        g["n"] = st.fresh("n", I)
        if st.clock is None:
            st.clock = st.fresh("clock0", R)
            st.assume(st.clock >= 0)
        else:
            t = st.fresh("clock.i", R)
            st.assume(t >= st.clock)
            st.clock = t
        for _, f in self.inv(it, st.clock):
            st.assume(f)
        st.hints += [g["n"] <= 3, st.get(self.entries, "$lo") == 0]

    def eview(self, it):
        st = it.st
        return st.get(self.entries, "$arr"), st.get(self.entries, "$lo"), st.get(self.entries, "$hi")

    def inv(self, it, horizon, starts=None, n=None, loop=False):
        """Object invariant; `horizon` is the instant up to which dropped starts are known to be old."""
        st = it.st
        g = st.ghost
        S = g["starts"] if starts is None else starts
        n = g["n"] if n is None else n
        earr, lo, hi = self.eview(it)
        L, P = self.limit, self.period
        ln = hi - lo
        i, j = z3.Ints("i!t j!t")
        out = [
            ("entries-window", z3.And(lo <= hi, n >= 0, ln <= n, ln <= L + 1)),
            ("entries-are-floats", QFact(lambda i: z3.Implies(z3.And(lo <= i, i < hi), V.is_float(z3.Select(earr, i))),
                                         pattern=lambda i: z3.Select(earr, i), name="ef")),
            ("entries-are-the-latest-starts",
             QFact(lambda i: z3.Implies(z3.And(lo <= i, i < hi),
                                        V.rval(z3.Select(earr, i)) == z3.Select(S, n - (hi - i))),
                   pattern=lambda i: z3.Select(earr, i), name="es")),
            ("starts-sorted", z3.ForAll([i, j], z3.Implies(z3.And(0 <= i, i <= j, j < n),
                                                           z3.Select(S, i) <= z3.Select(S, j)),
                                        patterns=[z3.MultiPattern(z3.Select(S, i), z3.Select(S, j))])),
            ("starts-not-in-the-future", QFact(lambda i: z3.Implies(z3.And(0 <= i, i < n), z3.Select(S, i) <= st.clock),
                                               pattern=lambda i: z3.Select(S, i), name="sf")),
            ("dropped-starts-are-old",
             QFact(lambda i: z3.Implies(z3.And(0 <= i, i < n - ln), z3.Select(S, i) + P <= horizon),
                   pattern=lambda i: z3.Select(S, i), name="sd")),
            ("P1:rate-bound",
             QFact(lambda i: z3.Implies(z3.And(0 <= i, i + L < n), z3.Select(S, i + L) >= z3.Select(S, i) + P),
                   pattern=lambda i: z3.Select(S, i), name="rb")),
            ("overfull-only-with-an-expired-head",
             z3.Implies(ln == L + 1, V.rval(z3.Select(earr, lo)) + P <= (horizon if loop else V.rval(z3.Select(earr, hi - 1))))),
        ]
        return out

    # ---------------------------------------------------------------------------------- loop
    def loop_spec(self, it, node, env):
        if not isinstance(node, ast.While):
            return None
        st = it.st
        earr0, lo0, hi0 = self.eview(it)

        def inv(it, env, k):
            tn = env.lookup("time_now")
            earr, lo, hi = self.eview(it)
            out = [("time_now-is-the-clock", z3.And(V.is_float(tn), V.rval(tn) == st.clock)),
                   ("only-the-head-moves", z3.And(earr == earr0, hi == hi0, lo >= lo0))]
            out += self.inv(it, V.rval(tn), loop=True)
            return out

        return dict(name="cleanup-loop", inv=inv, havoc_clock=False)

    # ---------------------------------------------------------------------------------- awaits
    def on_lock_acquired(self, it, lock):
        # other calls may have run before the lock was obtained: any state satisfying the invariant
        self.havoc_to_invariant(it)
        self.held = True
        self.n_at_acquire = it.st.ghost["n"]
        self.hi_at_acquire = self.eview(it)[2]

    def segment_end(self, it, aw, idx):
        st = it.st
        if aw.kind == "sleep":
            g = st.ghost
            S, n = g["starts"], g["n"]
            st.check("P2:sleeps-only-when-limit-calls-began-in-the-preceding-period",
                     z3.And(n >= self.limit, z3.Select(S, n - self.limit) + self.period > st.clock))
            # ... and only for as long as that stays true: the requested wait ends no later than the instant the oldest of
            # the last `limit` starts leaves the (half-open) window - from then on fewer than `limit` calls began in the
            # preceding period and the call must not be delayed any further (T-SLEEP adds only the loop's own lateness)
            d = aw.data["delay"]
            dr = z3.If(V.is_float(d), V.rval(d), z3.ToReal(V.ival(d)))
            st.check("P2:the-wait-ends-no-later-than-the-instant-fewer-than-limit-calls-began-in-the-preceding-period",
                     z3.And(z3.Or(V.is_float(d), V.is_int(d)),
                            st.clock + dr <= z3.Select(S, n - self.limit) + self.period))
            self.slept = True

    def interfere(self, it, aw, idx):
        # inside the critical section nothing of the throttle changes (rely, see frame obligation);
        # after the lock is released the object is no longer used by this call
        return

    def inject_cancel(self, it, aw, idx):
        return aw.kind == "sleep"

    def on_lock_release(self, it, lock, exc):
        st = it.st
        g = st.ghost
        earr, lo, hi = self.eview(it)
        normal = self.st_normal(exc)
        if normal:
            # exactly one start was recorded, at the current instant: that is the begin of this call
            new = V.rval(z3.Select(earr, hi - 1))
            st.check("P1:records-exactly-one-start", hi == self.hi_at_acquire + 1)
            st.check("P1:recorded-start-is-now", z3.And(V.is_float(z3.Select(earr, hi - 1)), new == st.clock))
            S2 = z3.Store(g["starts"], g["n"], new)
            n2 = st.simp(g["n"] + 1)
            g["starts"], g["n"] = S2, n2
        else:
            st.check("P1:no-start-recorded-when-the-call-is-abandoned", hi == self.hi_at_acquire)
        for nm, f in self.inv(it, st.clock):
            st.check(f"release:inv:{nm}", f, kind="property" if nm.startswith("P1") else "aux")
        self.released = True

    def st_normal(self, exc) -> bool:
        return z3.is_true(z3.simplify(V.is_none(exc)))

    # ---------------------------------------------------------------------------------- exits
    def on_return(self, it, ret):
        st = it.st
        wrapper_frame(it, self.obj, self.mark)
        ev = [e for e in st.events if e[0] == "oracle"]
        st.check("P3:function-called-exactly-once", z3.BoolVal(len(ev) == 1))
        if ev:
            ca = ev[0][3]
            ok = ca.star is not None and ca.star.eq(self.args) and ca.starstar is not None and ca.starstar.eq(self.kwargs) \
                and not ca.pos and not ca.kw
            st.check("P3:arguments-forwarded-unchanged", z3.BoolVal(bool(ok)))
        rets = [e for e in st.events if e[0] == "oracle-ret"]
        st.check("P3:returns-the-function-result", z3.BoolVal(bool(rets)) if not rets else ret == rets[0][3])
        st.check("P3:called-after-release", z3.BoolVal(getattr(self, "released", False)))

    def on_raise(self, it, exc):
        st = it.st
        excs = [e for e in st.events if e[0] == "oracle-exc"]
        cancelled = any("cancelled" in l for l in st.labels)
        if excs:
            st.check("P3:raises-the-function-exception-object", exc == excs[0][3])
        else:
            st.check("P3:raises-only-the-function-error-or-a-cancellation",
                     z3.And(z3.BoolVal(cancelled), is_exc(it, exc, "CancelledError")))


class FrameEntries(Lemma):
    """Frame audit: every access to `_entries` in the class is lexically inside `async with self._lock`."""
    file, func, name = FILE, "_AsyncThrottle", "C15/throttling:_AsyncThrottle(frame)"
    props = ("C15",)

    def prove(self, it):
        node, mod, _ = it.engine.repo.find(self.file, "_AsyncThrottle")
        bad = []

        def visit(n, locked, fname):
            if isinstance(n, ast.AsyncWith):
                lk = any(isinstance(i.context_expr, ast.Attribute) and i.context_expr.attr == "_lock" for i in n.items)
                for c in n.body:
                    visit(c, locked or lk, fname)
                return
            if isinstance(n, ast.Attribute) and n.attr == "_entries" and not locked and fname != "__init__":
                bad.append(f"{fname}:{n.lineno}")
            for c in ast.iter_child_nodes(n):
                visit(c, locked, fname)

        for f in node.body:
            if isinstance(f, (ast.FunctionDef, ast.AsyncFunctionDef)):
                visit(f, False, f.name)
        src = it.engine.repo.module_for_file(self.file)
        outside = [n.lineno for n in ast.walk(src.tree) if isinstance(n, ast.Attribute) and n.attr == "_entries"
                   and not (node.lineno <= n.lineno <= node.end_lineno)]
        it.st.check("frame:_entries-only-under-lock", z3.BoolVal(not bad and not outside), kind="frame",
                    note=f"unprotected accesses: {bad + outside}")


class WindowLemma(Lemma):
    """L-WIN: sorted starts + rate bound  =>  any half-open window [t, t+period) holds at most
    `limit` starts (the statement of the property).  Pure first-order lemma, proved by SMT."""
    name = "C15/lemma:L-WIN"
    props = ("C15",)

    def prove(self, it):
        st = it.st
        S = st.fresh("S", z3.ArraySort(I, R))
        n, L = st.fresh("n", I), st.fresh("L", I)
        P, t = st.fresh("P", R), st.fresh("t", R)
        i, j = z3.Ints("i j")
        st.assume(z3.And(L >= 1, P > 0, n >= 0))
        st.assume(z3.ForAll([i, j], z3.Implies(z3.And(0 <= i, i <= j, j < n), z3.Select(S, i) <= z3.Select(S, j))))
        st.assume(z3.ForAll([i], z3.Implies(z3.And(0 <= i, i + L < n), z3.Select(S, i + L) >= z3.Select(S, i) + P)))
        # if L+1 indices a < ... all lie in the window then in particular a and a+L do (sortedness
        # makes the members of a window a contiguous index range): contradiction with the rate bound
        a, b = st.fresh("a", I), st.fresh("b", I)
        st.assume(z3.And(0 <= a, a <= b, b < n))
        inwin = lambda k: z3.And(t <= z3.Select(S, k), z3.Select(S, k) < t + P)
        st.assume(z3.And(inwin(a), inwin(b)))
        st.check("L-WIN:window-holds-at-most-limit-starts", b - a + 1 <= L, kind="lemma")
        st.check("L-WIN:window-members-are-contiguous",
                 z3.ForAll([i], z3.Implies(z3.And(a <= i, i <= b), inwin(i))), kind="lemma")


CONTRACTS = [ThrottleCall(), FrameEntries(), WindowLemma()]


class ThrottleFactory(Contract):
    file, func, name = FILE, "throttle._wrap", "C15/throttling:throttle._wrap"
    props = ("C15",)

    def instantiate(self, it, info, cargs, node):
        if info.name == "_AsyncThrottle":
            self.made.append(cargs)
            return it.st.alloc(info.cid)
        return None

    def setup(self, it, env):
        st = it.st
        self.made = []
        self.fn = st.reg_fun(OracleV("function", is_async=True))
        self.limit, self.period = V.VInt(st.fresh("limit", I)), st.fresh_val("period")
        env.vars.update(limit=self.limit, period=self.period)
        return None, CallArgs([self.fn])

    def on_return(self, it, ret):
        st = it.st
        ok = len(self.made) == 1
        st.check("P5:one-throttle-object-with-the-configured-limit-and-period",
                 z3.BoolVal(ok) if not ok else
                 (lambda a: z3.BoolVal(False) if (a["function"] is None or a["limit"] is None or a["period"] is None or a["$extra"])
                  else z3.And(a["function"] == self.fn, a["limit"] == self.limit, a["period"] == self.period))(
                     named_args(self.made[0], "function", "limit", "period")))

    def on_raise(self, it, exc):
        it.st.check("P5:building-the-throttle-never-raises", z3.BoolVal(False))


CONTRACTS = CONTRACTS + [ThrottleFactory()]


def extra_contracts():
    return mimic_variants("C15")


class ThrottleShape(DecoratorShape):
    file, func, name = "helpers/throttling.py", "throttle", "C15/throttling:throttle(decorator-shape)"
    props = ("C15",)


CONTRACTS = CONTRACTS + [ThrottleShape()]
