"""C10 - recorded metrics land in the innermost active scope and fold deterministically.

Functions under contract: context/metrics.py::ScopeMetrics.record / read / metrics and
MetricsContext.record (+ ctx.record pass-through).

P1 record: afterwards _metrics[T] = merge(old, m) (old first: left fold in recording order), or m
   for the first record of T; no other key, no other scope is written (frame).
P2 metrics(merge): own values first, then the items of every nested scope's metrics(merge=merge) in
   _nested (= creation) order, each folded as merge(current-or-MISSING, item) and stored under its
   exact type unless the result is MISSING; without merge: exactly the own values.  The recursive
   call is a callee contract (the nested result is an uninterpreted function of the nested scope).
P3 MetricsContext.record targets the scope current in the recording task and lets no Exception
   escape (outside a scope, failing merge, completed scope); the fallback log cannot raise (C19-P4).
"""
from __future__ import annotations

import ast

import z3

from .common import *
from .C02 import _Scope
from pyvc.lib import dict_parts
from pyvc.state import QFact
from pyvc import lib as L

FILE = "context/metrics.py"
sub_metrics = z3.Function("C10.nested_metrics", Val, Val, Val)      # nested.metrics(merge=m) as a value
bmeth = z3.Function("C10.bound_metrics", Val, Val)


class _Rec(_Scope):
    props = ("C10",)
    trusted = ("T-COLL (dict get/set/copy/values, chain.from_iterable)", "T-CV")
    assumptions = ("merge functions are arbitrary: they return any value or raise any exception",)

    def sym_metrics_scope(self, it):
        st = it.st
        info = repo_class(it, FILE, "ScopeMetrics")
        self.info = info
        o = st.sym_ref("self", info.cid)
        d = st.get(o, "_metrics")
        st.assume(z3.And(V.is_ref(d), V.addr(d) >= 0, V.addr(d) < 1_000_000))
        st.declare_class(d, "dict")
        p = dict_parts(it, d)
        st.assume(p["lo"] <= p["hi"])
        # stored metrics are State instances (objects of arbitrary truthiness: a metric class may define __bool__/__len__), keyed by their exact type
        st.assume(QFact(lambda k: z3.Implies(z3.Select(p["has"], k),
                                             z3.And(V.is_ref(z3.Select(p["val"], k)),
                                                    p["lo"] <= z3.Select(p["pos"], k), z3.Select(p["pos"], k) < p["hi"],
                                                    z3.Select(p["keys"], z3.Select(p["pos"], k)) == k)),
                        sort=Val, pattern=lambda k: z3.Select(p["has"], k), name="m1"))
        fut = st.get(o, "_completed")
        st.assume(z3.And(V.is_ref(fut), V.addr(fut) >= 0, V.addr(fut) < 1_000_000))
        st.declare_class(fut, "Future")
        st.assume(V.is_int(st.get(fut, "$fstate")))
        return o, d, p

    def mk_merge(self, it):
        st = it.st
        self.merge_calls = []

        def spec(it2, ov, cargs, node):
            self.merge_calls.append(cargs)
            if it2.st.fork("merge", [("returns", True), ("raises", True)]) == 0:
                r = it2.st.fresh_val("merged")
                self.merge_results.append(r)
                return r
            e = it2.fresh_exception("merge.exc")
            self.merge_exc = e
            raise PyRaise(e, "merge function raised")
        self.merge_results, self.merge_exc = [], None
        return st.reg_fun(OracleV("merge", spec=spec))


class Record(_Rec):
    file, func, name = FILE, "ScopeMetrics.record", "C10/metrics:ScopeMetrics.record"

    def setup(self, it, env):
        st = it.st
        o, d, p = self.sym_metrics_scope(it)
        self.d, self.p0 = d, p
        self.metric = fresh_input_ref(it, "metric")
        self.merge = self.mk_merge(it)
        self.T = V.VCls(V.type_of(self.metric, it.ct))
        st.instantiate_at(self.T)
        self.fut = st.get(o, "_completed")
        return method(it, self.info, o, "record"), CallArgs([self.metric], {"merge": self.merge})

    def frame(self, it):
        p, p0 = dict_parts(it, self.d), self.p0
        k = z3.Const("k!fr", Val)
        return z3.ForAll([k], z3.Implies(k != self.T, z3.And(z3.Select(p["has"], k) == z3.Select(p0["has"], k),
                                                              z3.Select(p["val"], k) == z3.Select(p0["val"], k))))

    def on_return(self, it, ret):
        st = it.st
        p, p0 = dict_parts(it, self.d), self.p0
        had = z3.Select(p0["has"], self.T)
        old = z3.Select(p0["val"], self.T)
        st.check("P1:recording-into-a-completed-scope-is-refused", L.fstate(it, self.fut) == L.F_PENDING)
        if self.merge_calls:
            ca = self.merge_calls[0]
            ok = len(self.merge_calls) == 1 and len(ca.pos) == 2 and not ca.kw
            st.check("P1:merge-is-called-once-with-(current,-new)-in-that-order(left-fold)",
                     z3.BoolVal(ok) if not ok else z3.And(had, ca.pos[0] == old, ca.pos[1] == self.metric))
            st.check("P1:the-merged-value-replaces-the-current-one",
                     z3.And(z3.Select(p["has"], self.T), z3.Select(p["val"], self.T) == self.merge_results[0]))
        else:
            st.check("P1:the-first-record-of-a-type-is-stored-as-is",
                     z3.And(z3.Not(had), z3.Select(p["has"], self.T), z3.Select(p["val"], self.T) == self.metric))
        st.check("P1:no-other-metric-type-is-touched(frame)", self.frame(it))

    def on_raise(self, it, exc):
        st = it.st
        done = L.fstate(it, self.fut) != L.F_PENDING
        st.check("P1:fails-only-for-a-completed-scope-or-a-failing-merge",
                 z3.Or(z3.And(done, is_exc(it, exc, "AssertionError")),
                       z3.BoolVal(self.merge_exc is not None) if self.merge_exc is None else exc == self.merge_exc))
        p, p0 = dict_parts(it, self.d), self.p0
        st.check("P1:a-failed-record-leaves-the-metrics-untouched", z3.And(p["has"] == p0["has"], p["val"] == p0["val"]))


class Read(_Rec):
    file, func, name = FILE, "ScopeMetrics.read", "C10/metrics:ScopeMetrics.read"

    def setup(self, it, env):
        st = it.st
        o, d, p = self.sym_metrics_scope(it)
        self.p0 = p
        self.T = V.VCls(st.fresh("T", I))
        self.default = st.fresh_val("default")
        st.instantiate_at(self.T)
        return method(it, self.info, o, "read"), CallArgs([self.T], {"default": self.default})

    def on_return(self, it, ret):
        p0 = self.p0
        it.st.check("P1:read-returns-the-scopes-own-value-for-the-type-else-the-default",
                    ret == z3.If(z3.Select(p0["has"], self.T), z3.Select(p0["val"], self.T), self.default))

    def on_raise(self, it, exc):
        it.st.check("P1:read-never-raises", z3.BoolVal(False))


class Metrics(_Rec):
    file, func, name = FILE, "ScopeMetrics.metrics", "C10/metrics:ScopeMetrics.metrics"

    def global_value(self, it, mod, name):
        if name == "MISSING":
            g = it.st.ghost
            if "MISSING" not in g:
                info = repo_class(it, "types/missing.py", "Missing")
                g["MISSING"] = it.st.sym_ref("MISSING", info.cid)
            return g["MISSING"]
        return None

    def attr(self, it, obj, name, node):
        if name == "metrics":
            return bmeth(obj)
        return None

    def call_unknown(self, it, f, cargs, node):
        t = it.st.simp(f)
        if z3.is_app(t) and t.decl().name() == "C10.bound_metrics":
            ok = not cargs.pos and set(cargs.kw) == {"merge"}
            self.sub_calls_ok = self.sub_calls_ok and ok
            return sub_metrics(t.arg(0), cargs.kw.get("merge", V.VNone))
        return None

    def setup(self, it, env):
        st = it.st
        o, d, p = self.sym_metrics_scope(it)
        self.obj, self.d, self.p0 = o, d, p
        self.sub_calls_ok = True
        nested = st.get(o, "_nested")
        st.assume(z3.And(V.is_ref(nested), V.addr(nested) >= 0, V.addr(nested) < 1_000_000))
        st.declare_class(nested, "list")
        self.narr, self.nlo, self.nhi = st.get(nested, "$arr"), st.get(nested, "$lo"), st.get(nested, "$hi")
        st.assume(self.nlo <= self.nhi)
        # the result of a nested scope's metrics(...) is a list (contract of this very function)
        x, m = z3.Consts("x!n m!n", Val)
        r = sub_metrics(x, m)
        st.assume(z3.ForAll([x, m], z3.And(V.is_ref(r), V.class_of(V.addr(r)) == it.ct.id("list"),
                                           z3.Select(st.field_array("$lo"), V.addr(r)) <= z3.Select(st.field_array("$hi"), V.addr(r))),
                            patterns=[sub_metrics(x, m)]))
        self.with_merge = st.fork("merge-argument", [("none", True), ("given", True)]) == 1
        self.merge = self.mk_merge(it) if self.with_merge else V.VNone
        self.merge_calls = [] if not self.with_merge else self.merge_calls
        return method(it, self.info, o, "metrics"), CallArgs(kw={"merge": self.merge})

    def loop_spec(self, it, node, env):
        if not isinstance(node, ast.For):
            return None
        st = it.st
        src = it.eval(node.iter, env)
        arr, lo, hi = lib.seq_view(it, src)
        self.iter_view = (arr, lo, hi)

        def inv(it2, env2, k):
            m = env2.lookup("metrics")
            out = [("working-copy-is-a-dict", z3.And(V.is_ref(m), V.class_of(V.addr(m)) == it2.ct.id("dict")))]
            pd, p0 = dict_parts(it2, self.d), self.p0
            out.append(("P2:the-scopes-own-metrics-are-never-modified-by-the-fold(frame)",
                        z3.And(pd["has"] == p0["has"], pd["val"] == p0["val"], pd["hi"] == p0["hi"], pd["lo"] == p0["lo"],
                               m != self.d)))
            return out

        def before_body(it2, env2, k):
            self.k = k
        return dict(name="fold-loop", inv=inv, havoc_containers=True)

    def on_return(self, it, ret):
        st = it.st
        p0 = self.p0
        rarr, rlo, rhi = lib.seq_view(it, ret)
        if not self.with_merge:
            i = z3.Int("i!o")
            st.check("P2:without-merge-exactly-the-scopes-own-values",
                     z3.And(rhi - rlo == p0["hi"] - p0["lo"],
                            z3.ForAll([i], z3.Implies(z3.And(0 <= i, i < rhi - rlo),
                                                      z3.Select(rarr, rlo + i) ==
                                                      z3.Select(p0["val"], z3.Select(p0["keys"], p0["lo"] + i))))))
            return
        arr, lo, hi = self.iter_view
        # the folded sequence: nested scopes' merged metrics, concatenated in creation order
        i = z3.Int("i!n")
        mapped = z3.Lambda([i], sub_metrics(z3.Select(self.narr, self.nlo + i), self.merge))
        st.check("P2:nested-scopes-are-folded-depth-first-in-creation-order-with-the-same-merge",
                 z3.And(z3.BoolVal(self.sub_calls_ok), hi - lo == L.flat_len(mapped, 0, self.nhi - self.nlo),
                        z3.ForAll([i], z3.Implies(z3.And(0 <= i, i < hi - lo),
                                                  z3.Select(arr, lo + i) ==
                                                  z3.Select(L.flat_arr(mapped, 0, self.nhi - self.nlo), i)))))
        pd = dict_parts(it, self.d)
        st.check("P2:folding-never-modifies-the-scopes-own-metrics(frame)",
                 z3.And(pd["has"] == p0["has"], pd["val"] == p0["val"], pd["hi"] == p0["hi"]))

    def on_raise(self, it, exc):
        st = it.st
        st.check("P2:only-a-failing-merge-makes-the-fold-fail",
                 z3.BoolVal(self.merge_exc is not None) if self.merge_exc is None else exc == self.merge_exc)


class MergeStep(Metrics):
    """One arbitrary iteration of the fold loop of metrics(): merge(current-or-MISSING, item)."""
    name = "C10/metrics:ScopeMetrics.metrics(fold-step)"

    def setup(self, it, env):
        r = super().setup(it, env)
        if not self.with_merge:
            raise PathEnd("only with merge")
        return r

    def run(self, it):
        # verified as part of the loop body: the checks are emitted from the merge oracle
        st = it.st
        orig_mk = self.mk_merge

        def mk(it2):
            v = orig_mk(it2)
            ov = it2.st.fun_of(v)
            inner = ov.spec

            def spec(it3, ov2, cargs, node):
                env = self.cur_env
                item = env.lookup("metric")
                work = env.lookup("metrics")
                pw = dict_parts(it3, work)
                T = V.VCls(V.type_of(item, it3.ct))
                ok = len(cargs.pos) == 2 and not cargs.kw
                M = self.global_value(it3, None, "MISSING")
                it3.st.check("P2:each-item-is-merged-as-merge(current-or-MISSING,-item)(left-fold)",
                             z3.BoolVal(ok) if not ok else
                             z3.And(cargs.pos[1] == item,
                                    cargs.pos[0] == z3.If(z3.Select(pw["has"], T), z3.Select(pw["val"], T), M)))
                self.step = (work, T, pw)
                return inner(it3, ov2, cargs, node)
            ov.spec = spec
            return v
        self.mk_merge = mk
        super().run(it)

    def loop_spec(self, it, node, env):
        spec = super().loop_spec(it, node, env)
        if spec is None:
            return None
        self.cur_env = env
        base_inv = spec["inv"]

        def inv(it2, env2, k):
            out = base_inv(it2, env2, k)
            step = getattr(self, "step", None)
            if step is not None and self.merge_results:
                work, T, pw0 = step
                pw = dict_parts(it2, work)
                M = self.global_value(it2, None, "MISSING")
                res = self.merge_results[-1]
                out.append(("P2:a-non-missing-result-is-stored-under-the-items-exact-type-else-nothing-changes",
                            z3.If(res != M, z3.And(z3.Select(pw["has"], T), z3.Select(pw["val"], T) == res),
                                  z3.And(pw["has"] == pw0["has"], pw["val"] == pw0["val"]))))
                self.step = None
            return out
        spec["inv"] = inv
        return spec

    def on_return(self, it, ret):
        pass

    def on_raise(self, it, exc):
        pass


class ContextRecord(_Rec):
    file, func, name = FILE, "MetricsContext.record", "C10/metrics:MetricsContext.record(+ctx.record)"

    def callee(self, it, fv):
        if fv.qualname == "ScopeMetrics.record":
            def spec(it2, fv2, ca, node):
                self.rec_calls.append((fv2.bound, ca))
                if it2.st.fork("ScopeMetrics.record", [("recorded", True), ("raises", True)]) == 1:
                    e = it2.fresh_exception("record.exc")
                    self.rec_exc = e
                    raise PyRaise(e, "record failed")
                return V.VNone
            return spec
        if fv.qualname in LOG_CALLEES:
            def logged(it2, fv2, ca, node):
                self.logged += 1
                return log_never_raises(it2, fv2, ca, node)
            return logged
        return super().callee(it, fv)

    def run(self, it):
        st = it.st
        st.contract = self
        it.engine.repo.find(self.file, self.func)
        self.raised, self.rec_calls, self.rec_exc, self.logged = [], [], None, 0
        self.cv = self.cvs(it)
        var = self.cv["MetricsContext"]
        inside = st.fork("where", [("inside-a-scope", L.cv_is_set(it, var)), ("outside-any-scope", z3.Not(L.cv_is_set(it, var)))]) == 0
        cur = L.cv_value(it, var)
        sm = repo_class(it, FILE, "ScopeMetrics")
        if inside:
            st.assume(z3.And(V.is_ref(cur), V.addr(cur) >= 0, V.addr(cur) < 1_000_000))
            st.declare_class(cur, sm.cid)
        metric = fresh_input_ref(it, "metric")
        merge = st.reg_fun(OracleV("merge"))
        cinfo = repo_class(it, "context/access.py", "ctx")
        f = it.class_attr(cinfo, "record", V.VCls(z3.IntVal(cinfo.cid)))
        try:
            it.call(f, CallArgs([metric], {"merge": merge}))
        except PyRaise as pr:
            st.check("P3:recording-never-raises-an-Exception-into-user-code",
                     z3.BoolVal(self.rec_exc is not None) if self.rec_exc is None else
                     z3.And(pr.val == self.rec_exc, z3.Not(is_exc(it, pr.val, "Exception"))))
            st.check("canary", z3.BoolVal(False), kind="canary")
            return
        if inside:
            ok = len(self.rec_calls) == 1
            st.check("P3:the-metric-is-recorded-into-the-scope-current-in-the-recording-task-and-no-other",
                     z3.BoolVal(ok) if not ok else
                     z3.And(self.rec_calls[0][0] == cur, self.rec_calls[0][1].pos[0] == metric,
                            self.rec_calls[0][1].kw.get("merge") == merge))
        else:
            st.check("P3:outside-any-scope-nothing-is-recorded-and-the-failure-is-logged",
                     z3.BoolVal(not self.rec_calls and self.logged == 1))
        if self.rec_exc is not None:
            st.check("P3:a-swallowed-failure-is-logged", z3.BoolVal(self.logged == 1))
        st.check("canary", z3.BoolVal(False), kind="canary")


from .C02 import AsyncScope as _AsyncScope, SyncScope as _SyncScope, variant as _variant      # noqa: E402

# "lands in the innermost scope active in the recording task at that moment": inside a block the scope's own metrics are
# current (C02-P0) and after a nested block - however it ended - the metrics variable is the enclosing scope again
_c10 = lambda n: n.startswith(("C10-", "C02-P0")) or "MetricsContext-variable-is-what-it-was" in n   # noqa: E731
CONTRACTS = [Record(), Read(), Metrics(), MergeStep(), ContextRecord(), _variant(_AsyncScope, "C10", _c10),
             _variant(_SyncScope, "C10", _c10)]


def extra_contracts():
    """Borrowed late (contracts/C09.py imports this module's base classes): "its merged view folds in the values of nested scopes
    in their creation order" needs every new scope to be registered in the `_nested` list of the scope current at its creation
    (unless that one is already completed): the registration clauses of C09."""
    from .C09 import Init as _Init
    from .C19 import ScopeFactory as _SF
    reg = lambda n: "registered" in n or "detached" in n or n.startswith(("post:I4", "C09-P0"))      # noqa: E731
    # "lands in the innermost scope active in the recording task": a spawned task starts from a snapshot of the context taken at
    # the spawn point, its own copy - scopes entered by siblings never become its current scope (C03-P1)
    from .C06 import Run as _Run, Spawn as _Spawn
    return [_variant(_Run, "C10", ("C03-P1",)), _variant(_Spawn, "C10", ("C03-P1",)), _variant(_Init, "C10", reg),
            type("C10ScopeFactory", (_SF,), dict(name="C10/metrics:MetricsContext.scope", props=("C10",),
                                                 keep=staticmethod(lambda n: n.startswith("C09-P0") or n == "canary")))()]
