"""debug alias: the scope scenarios with every clause (C02/C06/C07/C08-P5) unfiltered"""
from .C02 import AsyncScope, SyncScope, StateBlock, TaskGroupExit
CONTRACTS = [AsyncScope(), SyncScope(), StateBlock(), TaskGroupExit()]
