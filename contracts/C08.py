"""C08 - disposables are entered once, exited once, and their cleanup errors surface.

Functions under contract: context/disposables.py::Disposables.__init__, _initialize, __aenter__,
__aexit__ (for any number of disposables: the tuple has unknown length), and - through C02.py -
ScopeContext.__aenter__/__aexit__ (clause P5: enter once before the body, exit once after it with
the body's exception details, on every path).

Every disposable d is an oracle whose behaviour is a function of d: enter_ok(d) / enter_val(d) /
enter_exc(d) and exit_ok(d) / exit_ret(d) / exit_exc(d): one proof covers every combination of
succeeding and failing disposables.  gather is used through T-GATHER: every awaitable is started;
with return_exceptions=True every outcome is collected in argument order; otherwise the exception of
*some* failing child propagates while the others complete.
"""
from __future__ import annotations

import ast

import z3

from .common import *
from pyvc.state import QFact

FILE = "context/disposables.py"

enter_ok = z3.Function("C08.enter_ok", Val, B)
enter_val = z3.Function("C08.enter_val", Val, Val)
enter_exc = z3.Function("C08.enter_exc", Val, Val)
exit_ok = z3.Function("C08.exit_ok", Val, B)
exit_ret = z3.Function("C08.exit_ret", Val, Val)
exit_exc = z3.Function("C08.exit_exc", Val, Val)
enter_coro = z3.Function("C08.enter_coro", Val, Val)                    # d.__aenter__()
exit_coro = z3.Function("C08.exit_coro", Val, Val, Val, Val, Val)       # d.__aexit__(et, ev, tb)
bm = z3.Function("C08.bound_method", Val, I, Val)                       # d.<name>


def is_exception_value(it, v):
    return z3.And(V.is_ref(v), V.subclass(V.class_of(V.addr(v)), it.ct.id("BaseException")))


def init_val(it, d):
    """What _initialize(d) returns when d.__aenter__() succeeds (contract of _initialize)."""
    ev = enter_val(d)
    state_cid = it.st.ghost["$state_cid"]
    return z3.If(V.is_none(ev), V.tup(),
                 z3.If(V.subclass(V.type_of(ev, it.ct), state_cid), V.tup(ev), ev))


class _D(Contract):
    props = ("C08",)
    trusted = ("S4", "T-GATHER", "T-COLL(tuple, list, chain.from_iterable)", "PEP 634 class patterns")
    assumptions = (
        "every disposable is entered / exited by its own __aenter__/__aexit__ whose outcome is an arbitrary "
        "function of the disposable (value, raised exception or cancellation)",
        "results of a disposable's __aexit__ are not exception instances when it returns normally",
    )

    def common(self, it):
        st = it.st
        info = repo_class(it, "state/structure.py", "State")
        st.ghost["$state_cid"] = info.cid
        self.dinfo = repo_class(it, FILE, "Disposables")
        d = z3.Const("d!ax", Val)
        st.assume(z3.ForAll([d], z3.Implies(z3.Not(enter_ok(d)), is_exception_value(it, enter_exc(d))), patterns=[enter_exc(d)]))
        st.assume(z3.ForAll([d], z3.Implies(z3.Not(exit_ok(d)), is_exception_value(it, exit_exc(d))), patterns=[exit_exc(d)]))
        st.assume(z3.ForAll([d], z3.Implies(exit_ok(d), z3.Not(is_exception_value(it, exit_ret(d)))), patterns=[exit_ret(d)]))

    def mk_self(self, it):
        """A Disposables object over a tuple of disposables of unknown length."""
        st = it.st
        self.common(it)
        self.obj = st.sym_ref("self", self.dinfo.cid)
        ds = sym_tuple(it, "disposables")
        st.put(self.obj, "_disposables", ds)
        self.ds = ds
        self.darr, self.dlo, self.dhi = lib.seq_view(it, ds)
        st.hints += [self.dhi <= 2]
        st.meta.update(n_disposables=self.dhi)
        return self.obj

    def attr(self, it, obj, name, node):
        if name in ("__aenter__", "__aexit__"):
            return bm(obj, it.st.strs.setdefault(name, len(it.st.strs)))
        return None

    def call_unknown(self, it, f, cargs, node):
        st = it.st
        t = st.simp(f)
        if z3.is_app(t) and t.decl().name() == "C08.bound_method":
            d, nm = t.arg(0), t.arg(1).as_long()
            name = [k for k, v in st.strs.items() if v == nm][0]
            if name == "__aenter__":
                if st.no_fork:
                    return enter_coro(d)
                return st.reg_fun(AwaitableV("disposable-enter", {"d": d}))
            a = [cargs.arg(0, "exc_type"), cargs.arg(1, "exc_val"), cargs.arg(2, "exc_tb")]
            if st.no_fork:
                return exit_coro(d, *a)
            return st.reg_fun(AwaitableV("disposable-exit", {"d": d, "args": a}))
        return None


# -------------------------------------------------------------------------------------------------
class Init(_D):
    file, func, name = FILE, "Disposables.__init__", "C08/disposables:Disposables.__init__"

    def setup(self, it, env):
        st = it.st
        self.common(it)
        self.obj = st.alloc(self.dinfo.cid)
        self.ds = sym_tuple(it, "disposables")
        st.ghost["$in_init"] = True
        return method(it, self.dinfo, self.obj, "__init__"), CallArgs(star=self.ds)

    def callee(self, it, fv):
        if fv.qualname == "freeze":
            return lambda it2, fv2, cargs, node: V.VNone      # no-op (dunder lookup on the type, S8)
        return None

    def on_return(self, it, ret):
        it.st.check("P1:keeps-exactly-the-given-disposables-in-order", it.st.get(self.obj, "_disposables") == self.ds)

    def on_raise(self, it, exc):
        it.st.check("P1:construction-never-raises", z3.BoolVal(False))


class Initialize(_D):
    file, func, name = FILE, "Disposables._initialize", "C08/disposables:Disposables._initialize"

    def setup(self, it, env):
        st = it.st
        o = self.mk_self(it)
        self.d = fresh_input_ref(it, "disposable")
        self.entered = 0
        return method(it, self.dinfo, o, "_initialize"), CallArgs([self.d])

    def on_await(self, it, aw, idx, node):
        st = it.st
        if aw.kind != "disposable-enter":
            return NotImplemented
        st.check("P1:enters-the-given-disposable", aw.data["d"] == self.d)
        self.entered += 1
        if st.fork("disposable.__aenter__", [("returns", enter_ok(self.d)), ("raises-or-cancelled", z3.Not(enter_ok(self.d)))]) == 0:
            return enter_val(self.d)
        raise PyRaise(enter_exc(self.d), "disposable failed to enter")

    def on_return(self, it, ret):
        st = it.st
        st.check("P1:entered-exactly-once", z3.BoolVal(self.entered == 1))
        st.check("P1:returns-none->(),state->(state,),iterable->items", z3.And(enter_ok(self.d), ret == init_val(it, self.d)))

    def on_raise(self, it, exc):
        st = it.st
        st.check("P1:entered-exactly-once", z3.BoolVal(self.entered == 1))
        st.check("P2:a-failing-enter-propagates-its-own-exception",
                 z3.And(z3.Not(enter_ok(self.d)), exc == enter_exc(self.d)))


class Enter(_D):
    file, func, name = FILE, "Disposables.__aenter__", "C08/disposables:Disposables.__aenter__"

    def setup(self, it, env):
        o = self.mk_self(it)
        self.started = None
        return method(it, self.dinfo, o, "__aenter__"), CallArgs()

    def gather(self, it, aw, idx, node):
        """T-GATHER applied to gather(*[self._initialize(d) for d in ds]) using the proved contract
        of _initialize: outcome of child i is init_val(d_i) / enter_exc(d_i) by enter_ok(d_i)."""
        st = it.st
        if aw.data["pos"] or aw.data["star"] is None:
            raise Unsupported("gather shape")
        arr, lo, hi = lib.seq_view(it, aw.data["star"])
        n = st.simp(hi - lo)
        i = z3.Int("i!g")
        fn = st.ghost.get("$coro_fns", {}).get(("coro_fn", "Disposables._initialize"))
        st.check("P1:one-_initialize-per-disposable-in-order",
                 z3.And(n == self.dhi - self.dlo, z3.BoolVal(fn is not None),
                        z3.ForAll([i], z3.Implies(z3.And(0 <= i, i < n),
                                                  z3.Select(arr, lo + i) == lib.coro_app(fn if fn is not None else V.VNone,
                                                                                         z3.Select(self.darr, self.dlo + i))))))
        self.started = True        # T-GATHER: every child is started => every disposable is entered once
        st.check("P6:disposables-are-entered-in-tasks-of-their-own(gather)-never-inline-in-the-task-entering-the-scope"
                 "(what-a-disposable-does-to-its-context-stays-its-own)", z3.BoolVal(not getattr(self, "inline", False)))
        D = lambda k: z3.Select(self.darr, self.dlo + k)
        if aw.data["return_exceptions"]:
            R = z3.Lambda([i], z3.If(enter_ok(D(i)), init_val(it, D(i)), enter_exc(D(i))))
            return lib.new_seq_from(it, "list", R, z3.IntVal(0), n)
        allok = z3.ForAll([i], z3.Implies(z3.And(0 <= i, i < n), enter_ok(D(i))))
        if st.fork("gather", [("all-entered", allok), ("some-enter-failed", z3.Not(allok)),
                              ("cancelled-while-entering", True)]) == 0:
            st.assume(QFact(lambda k: z3.Implies(z3.And(0 <= k, k < n), enter_ok(D(k))), name="ok"))
            R = z3.Lambda([i], init_val(it, D(i)))
            self.R, self.n = R, n
            return lib.new_seq_from(it, "list", R, z3.IntVal(0), n)
        if "some-enter-failed" in st.labels[-1]:
            j = st.fresh("failed", I)
            st.assume(z3.And(0 <= j, j < n, z3.Not(enter_ok(D(j)))))
            self.failed = j
            raise PyRaise(enter_exc(D(j)), "a disposable failed to enter")
        self.failed = None
        raise PyRaise(it.new_exc("CancelledError"), "cancelled while entering disposables")

    def on_await(self, it, aw, idx, node):
        """Anything the function awaits that is not the gather of the per-disposable children: a disposable entered inline,
        in the very task (and context) that enters the scope."""
        st = it.st
        if aw.kind == "gather":
            return NotImplemented
        self.inline = True
        st.check("P6:disposables-are-entered-in-tasks-of-their-own(gather)-never-inline-in-the-task-entering-the-scope"
                 "(what-a-disposable-does-to-its-context-stays-its-own)", z3.BoolVal(False))
        raise PathEnd("a disposable entered inline")

    def on_return(self, it, ret):
        st = it.st
        st.check("P1:every-disposable-was-entered", z3.BoolVal(bool(self.started)))
        if not hasattr(self, "R"):
            return
        arr, lo, hi = lib.seq_view(it, ret)
        R, n = self.R, self.n
        st.check("P1:result-is-the-in-order-concatenation-of-the-yielded-state",
                 z3.And(hi - lo == lib.flat_len(R, 0, n),
                        z3.ForAll([z3.Int("k!r")], z3.Implies(z3.And(0 <= z3.Int("k!r"), z3.Int("k!r") < hi - lo),
                                                              z3.Select(arr, lo + z3.Int("k!r")) ==
                                                              z3.Select(lib.flat_arr(R, 0, n), z3.Int("k!r"))))))

    def on_raise(self, it, exc):
        st = it.st
        n = self.dhi - self.dlo
        D = lambda k: z3.Select(self.darr, self.dlo + k)
        i = z3.Int("i!x")
        exits = st.ghost.get("$exited", None)
        st.check("P2:entering-fails-only-because-a-disposable-failed-or-the-task-was-cancelled",
                 z3.BoolVal(getattr(self, "started", None) is True))
        # no disposable is exited by the current code: exited(i) is identically false
        exited = (lambda k: z3.BoolVal(False)) if exits is None else exits
        st.check("P2:disposables-that-were-entered-are-exited-when-entering-fails",
                 z3.ForAll([i], z3.Implies(z3.And(0 <= i, i < n, enter_ok(D(i))), exited(i))))


class Exit(_D):
    file, func, name = FILE, "Disposables.__aexit__", "C08/disposables:Disposables.__aexit__"

    def setup(self, it, env):
        st = it.st
        o = self.mk_self(it)
        self.et, self.ev, self.tb = st.fresh_val("exc_type"), st.fresh_val("exc_val"), st.fresh_val("exc_tb")
        self.gathered = 0
        return method(it, self.dinfo, o, "__aexit__"), CallArgs([self.et, self.ev, self.tb])

    def gather(self, it, aw, idx, node):
        st = it.st
        if aw.data["pos"] or aw.data["star"] is None:
            raise Unsupported("gather shape")
        arr, lo, hi = lib.seq_view(it, aw.data["star"])
        n = st.simp(hi - lo)
        i = z3.Int("i!g")
        D = lambda k: z3.Select(self.darr, self.dlo + k)
        self.gathered += 1
        st.check("P3:every-disposable-is-exited-exactly-once-with-the-given-exception-details",
                 z3.And(n == self.dhi - self.dlo, z3.BoolVal(self.gathered == 1),
                        z3.ForAll([i], z3.Implies(z3.And(0 <= i, i < n),
                                                  z3.Select(arr, lo + i) == exit_coro(D(i), self.et, self.ev, self.tb)))))
        st.check("P3:the-exit-of-one-disposable-does-not-depend-on-the-others(return_exceptions)",
                 z3.BoolVal(bool(aw.data["return_exceptions"])))
        if st.fork("gather", [("all-exits-completed", True), ("cancelled-while-exiting", True)]) == 1:
            self.cancelled = True
            raise PyRaise(it.new_exc("CancelledError"), "cancelled while exiting disposables")
        if not aw.data["return_exceptions"]:
            allok = z3.ForAll([i], z3.Implies(z3.And(0 <= i, i < n), exit_ok(D(i))))
            if st.fork("gather-outcome", [("all-ok", allok), ("some-failed", z3.Not(allok))]) == 1:
                j = st.fresh("failed", I)
                st.assume(z3.And(0 <= j, j < n, z3.Not(exit_ok(D(j)))))
                raise PyRaise(exit_exc(D(j)), "a disposable failed to exit")
            st.assume(QFact(lambda k: z3.Implies(z3.And(0 <= k, k < n), exit_ok(D(k))), name="ok"))
        R = z3.Lambda([i], z3.If(exit_ok(D(i)), exit_ret(D(i)), exit_exc(D(i))))
        self.n = n
        return lib.new_seq_from(it, "list", R, z3.IntVal(0), n)

    def any_failed(self):
        i = z3.Int("i!a")
        D = lambda k: z3.Select(self.darr, self.dlo + k)
        return z3.Exists([i], z3.And(0 <= i, i < self.dhi - self.dlo, z3.Not(exit_ok(D(i)))))

    def on_return(self, it, ret):
        st = it.st
        st.check("P3:all-disposables-were-exited", z3.BoolVal(self.gathered == 1))
        st.check("P4:returns-normally-only-when-no-cleanup-failed", z3.Not(self.any_failed()))
        st.check("P4:never-suppresses-the-body-exception", z3.Not(it.truthy(ret)))

    def on_raise(self, it, exc):
        st = it.st
        st.check("P3:all-disposables-were-exited", z3.BoolVal(self.gathered == 1))
        if getattr(self, "cancelled", False):
            st.check("P4:a-cancelled-exit-raises-CancelledError", is_exc(it, exc, "CancelledError"))
            return
        i = z3.Int("i!e")
        D = lambda k: z3.Select(self.darr, self.dlo + k)
        n = self.dhi - self.dlo
        the_one = z3.Exists([i], z3.And(0 <= i, i < n, z3.Not(exit_ok(D(i))), exc == exit_exc(D(i))))
        is_group = z3.And(V.is_ref(exc), V.class_of(V.addr(exc)) == it.ct.id("BaseExceptionGroup"))
        flt = st.ghost.get("$filters", [])
        if flt:
            # explicit witness: the first collected error is the outcome of a disposable whose exit failed
            w = z3.Select(flt[-1]["idx"], 0)
            st.check("P4:raises-only-when-a-cleanup-failed",
                     z3.And(flt[-1]["n"] >= 1, 0 <= w, w < n, z3.Not(exit_ok(D(w)))))
        else:
            st.check("P4:raises-only-when-a-cleanup-failed", self.any_failed())
        st.check("P4:raises-the-cleanup-error-or-a-group-of-them", z3.Or(the_one, is_group))
        # no cleanup error vanishes: a single (non-group) exception must be the error of *every* failing disposable
        i0 = st.fresh("any_failing", I)
        st.assume(z3.And(0 <= i0, i0 < n, z3.Not(exit_ok(D(i0)))))
        st.instantiate_at(i0)
        if flt:
            st.instantiate_at(st.simp(z3.Select(flt[-1]["inv"], i0)))
        st.check("P4:no-cleanup-error-vanishes(a-single-raised-error-is-the-only-one)",
                 z3.Or(is_group, exc == exit_exc(D(i0))))
        if z3.is_true(st.simp(is_group)):
            members = st.get(exc, "args")
            elems = lib.tuple_items(it, members)
            ok = elems is not None and len(elems) == 2
            st.check("P4:the-group-carries-the-collected-errors", z3.BoolVal(bool(ok)))
            if ok:
                flt = st.ghost.get("$filters", [])
                st.check("P4:the-group-holds-every-cleanup-error",
                         z3.BoolVal(bool(flt)) if not flt else elems[1] == flt[-1]["result"])


CONTRACTS = [Init(), Initialize(), Enter(), Exit()]


# ------------------------------------------------------------------------------------------------
class ScopeFactory(_D):
    """ctx.scope: how the `disposables` argument reaches the ScopeContext."""
    file, func, name = "context/access.py", "ctx.scope", "C08/access:ctx.scope"

    def instantiate(self, it, info, cargs, node):
        if info.name == "ScopeContext":
            self.captured = cargs
            return it.st.alloc(info.cid)
        return None

    def callee(self, it, fv):
        if fv.qualname == "freeze":
            return lambda it2, fv2, ca, node: V.VNone
        return None

    def setup(self, it, env):
        st = it.st
        self.common(it)
        self.captured = None
        name = st.fresh_val("name")
        self.state = sym_tuple(it, "state")
        shape = st.fork("disposables-argument", [("none", True), ("Disposables-instance", True), ("iterable", True)])
        if shape == 0:
            self.arg = V.VNone
        elif shape == 1:
            self.arg = st.sym_ref("given", self.dinfo.cid)
        else:
            self.arg, self.iarr, self.ilo, self.ihi = sym_seq(it, "iterable", "list")
        self.shape = shape
        cinfo = repo_class(it, "context/access.py", "ctx")
        f = st.fun_of(it.class_attr(cinfo, "scope", V.VCls(z3.IntVal(cinfo.cid))))
        return f, CallArgs([name], star=self.state, kw={"disposables": self.arg})

    def on_return(self, it, ret):
        st = it.st
        ca = self.captured
        st.check("P5:a-scope-context-is-built", z3.BoolVal(ca is not None))
        if ca is None:
            return
        na = named_args(ca, "trace_id", "name", "logger", "state", "disposables", "completion")
        d = na["disposables"]
        st.check("P5:state-arguments-are-passed-unchanged", z3.BoolVal(False) if na["state"] is None else na["state"] == self.state)
        if self.shape == 0:
            st.check("P5:no-disposables-stay-none", V.is_none(d))
        elif self.shape == 1:
            st.check("P5:a-Disposables-object-is-used-as-given", d == self.arg)
        else:
            inner = st.get(d, "_disposables")
            arr, lo, hi = lib.seq_view(it, inner)
            i = z3.Int("i!w")
            st.check("P5:an-iterable-is-wrapped-keeping-every-disposable-in-order",
                     z3.And(V.is_ref(d), V.class_of(V.addr(d)) == self.dinfo.cid, hi - lo == self.ihi - self.ilo,
                            z3.ForAll([i], z3.Implies(z3.And(0 <= i, i < hi - lo),
                                                      z3.Select(arr, lo + i) == z3.Select(self.iarr, self.ilo + i)))))

    def on_raise(self, it, exc):
        it.st.check("P5:building-a-scope-never-raises", z3.BoolVal(False))


from .C02 import AsyncScope, variant as _variant  # noqa: E402

from .C02 import TaskGroupExit as _TaskGroupExit, ReEnterAsync as _ReEnterAsync  # noqa: E402

# "an error raised by any disposable's cleanup reaches the caller instead of vanishing": the scope leaves its task group in the
# `finally` that follows the disposables' exit - whatever that exit raises replaces the cleanup error.  The task-group exit
# therefore must not raise on its own account (C02-P3: only a cancellation that is not the body's own escapes it).
CONTRACTS = CONTRACTS + [ScopeFactory(), _variant(AsyncScope, "C08", ("C08-",)),
                         _variant(_TaskGroupExit, "C08", ("C02-P3:only-a-foreign",)),
                         _variant(_ReEnterAsync, "C08", ("C08-",))]


def extra_contracts():
    """"an error raised by any disposable's cleanup reaches the caller": the metrics exit runs in the innermost `finally` after
    it and must not raise on its own account (C09's completion protocol, re-checked here)."""
    from .C02 import _metrics_exit_never_raises
    from .C01 import Lookup
    # "state yielded by disposables is visible inside the scope": visible means `ctx.state` finds it - whatever its truth
    # value (a state class may define __len__ / __bool__): the lookup clauses of C01
    return _metrics_exit_never_raises("C08") + [_variant(Lookup, "C08", ("C01-P3", "C01-P2", "C01-P4"))]
