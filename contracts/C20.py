"""C20 - MISSING is a process-wide singleton under every way of obtaining it.

Functions under contract: types/missing.py::MissingType.__call__, Missing.__bool__/__eq__/
__getattr__/__setattr__/__delattr__ (+ whichever of __copy__/__deepcopy__/__reduce_ex__/__reduce__
the class defines), is_missing / not_missing / when_missing, and
state/validation.py::_prepare_validator_of_missing.validator.

P4 (reconstruction) walks the dispatch of copy.copy / copy.deepcopy / pickle (T-COPY, a
transcription of CPython 3.12's copy.py / pickle.py / copyreg.py, validated natively on every run
by the replay harness) over the class *as it is in the tree*: every route must end in a hook of the
class whose symbolic execution returns MISSING itself, or the name of a module global that is bound
to it, or a (callable, args) pair whose call returns it.  A class without hooks is reconstructed by
object.__new__ - a second instance.
"""
from __future__ import annotations

import ast

import z3

from .common import *

FILE = "types/missing.py"


class _M(Contract):
    props = ("C20",)
    trusted = ("S8 (dunder methods are looked up on the type)",
               "T-COPY (dispatch of copy.copy / copy.deepcopy / pickle protocols 0-5 over __copy__, __deepcopy__, "
               "__reduce_ex__, __reduce__, copyreg.__newobj__)")
    assumptions = ("the module-level name MISSING is bound once to Missing() and never rebound (checked syntactically)",)

    def the_singleton(self, it):
        g = it.st.ghost
        if "MISSING" not in g:
            info = repo_class(it, FILE, "Missing")
            g["MISSING"] = it.st.sym_ref("MISSING", info.cid)
            self.minfo = info
        return g["MISSING"]

    def global_value(self, it, mod, name):
        if name == "MISSING" and mod.name.endswith("types.missing"):
            return self.the_singleton(it)
        return None


class MetaCall(_M):
    file, func, name = FILE, "MissingType.__call__", "C20/missing:MissingType.__call__"

    def setup(self, it, env):
        st = it.st
        S = self.the_singleton(it)
        self.info = repo_class(it, FILE, "Missing")
        self.meta = repo_class(it, FILE, "MissingType")
        inst = st.fresh_val("_instance")
        # object invariant of the metaclass state: `_instance` is None until the first call, then the singleton
        st.assume(z3.Or(V.is_none(inst), inst == S))
        self.inst0 = inst
        st.ghost["$clsvar:Missing._instance"] = inst
        self.created = None
        cls = V.VCls(z3.IntVal(self.info.cid))
        return FuncV(self.node, Env(self.module), self.module, self.func, cls, self.meta.cid), CallArgs()

    def class_var(self, it, info, name):
        return None

    def super_call(self, it, ca, node):
        # type.__call__(cls): a brand-new instance (object.__new__ + __init__)
        lib.used("T-TYPECALL: type.__call__ creates a new instance")
        self.created = it.st.alloc(self.info.cid)
        return self.created

    def on_return(self, it, ret):
        st = it.st
        inst1 = st.ghost["$clsvar:Missing._instance"]
        st.check("P1:returns-the-cached-instance", ret == inst1)
        st.check("P1:an-existing-instance-is-never-replaced", z3.Implies(z3.Not(V.is_none(self.inst0)),
                                                                         z3.And(inst1 == self.inst0, z3.BoolVal(self.created is None))))
        st.check("P1:at-most-one-instance-is-ever-created",
                 z3.BoolVal(self.created is None) if self.created is None else V.is_none(self.inst0))
        st.check("P1:instance-set-after-the-call", z3.Not(V.is_none(inst1)))

    def on_raise(self, it, exc):
        it.st.check("P1:calling-the-type-never-raises", z3.BoolVal(False))


class _Method(_M):
    meth = ""
    nargs = 0

    def setup(self, it, env):
        st = it.st
        S = self.the_singleton(it)
        info = repo_class(it, FILE, "Missing")
        self.S = S
        self.argv = [st.fresh_val(f"arg{i}") for i in range(self.nargs)]
        return method(it, info, S, self.meth), CallArgs(list(self.argv))


class Bool(_Method):
    file, func, name, meth = FILE, "Missing.__bool__", "C20/missing:Missing.__bool__", "__bool__"

    def on_return(self, it, ret):
        it.st.check("P2:MISSING-is-falsy", ret == it.mk_bool(False))

    def on_raise(self, it, exc):
        it.st.check("P2:bool-never-raises", z3.BoolVal(False))


class Eq(_Method):
    file, func, name, meth, nargs = FILE, "Missing.__eq__", "C20/missing:Missing.__eq__", "__eq__", 1

    def on_return(self, it, ret):
        it.st.check("P2:equal-only-to-itself", ret == V.VBool(self.argv[0] == self.S))

    def on_raise(self, it, exc):
        it.st.check("P2:eq-never-raises", z3.BoolVal(False))


class _Rejects(_Method):
    def on_return(self, it, ret):
        it.st.check("P2:attribute-access-and-modification-is-rejected", z3.BoolVal(False))

    def on_raise(self, it, exc):
        it.st.check("P2:rejects-with-AttributeError", is_exc(it, exc, "AttributeError"))


class GetAttr(_Rejects):
    file, func, name, meth, nargs = FILE, "Missing.__getattr__", "C20/missing:Missing.__getattr__", "__getattr__", 1


class SetAttr(_Rejects):
    file, func, name, meth, nargs = FILE, "Missing.__setattr__", "C20/missing:Missing.__setattr__", "__setattr__", 2


class DelAttr(_Rejects):
    file, func, name, meth, nargs = FILE, "Missing.__delattr__", "C20/missing:Missing.__delattr__", "__delattr__", 1


class _Pred(_M):
    fn = ""
    nargs = 1

    def setup(self, it, env):
        st = it.st
        self.S = self.the_singleton(it)
        self.argv = [st.fresh_val(f"arg{i}") for i in range(self.nargs)]
        return None, CallArgs(list(self.argv))

    def on_raise(self, it, exc):
        it.st.check("P3:predicate-never-raises", z3.BoolVal(False))


class IsMissing(_Pred):
    file, func, name = FILE, "is_missing", "C20/missing:is_missing"

    def on_return(self, it, ret):
        it.st.check("P3:is_missing-iff-identical-to-MISSING", ret == V.VBool(self.argv[0] == self.S))


class NotMissing(_Pred):
    file, func, name = FILE, "not_missing", "C20/missing:not_missing"

    def on_return(self, it, ret):
        it.st.check("P3:not_missing-iff-not-identical-to-MISSING", ret == V.VBool(self.argv[0] != self.S))


class WhenMissing(_Pred):
    file, func, name, nargs = FILE, "when_missing", "C20/missing:when_missing", 2

    def on_return(self, it, ret):
        it.st.check("P3:when_missing-substitutes-exactly-for-MISSING",
                    ret == z3.If(self.argv[0] == self.S, self.argv[1], self.argv[0]))


class Validator(_M):
    file, func, name = "state/validation.py", "_prepare_validator_of_missing.validator", \
        "C20/validation:_prepare_validator_of_missing.validator"

    def setup(self, it, env):
        st = it.st
        self.S = self.the_singleton(it)
        self.value = st.fresh_val("value")
        env.vars["annotation"] = st.fresh_val("annotation")
        return None, CallArgs([self.value])

    def global_value(self, it, mod, name):
        if name == "MISSING":
            return self.the_singleton(it)
        return None

    def on_return(self, it, ret):
        it.st.check("P3:validator-accepts-only-MISSING-itself", z3.And(self.value == self.S, ret == self.value))

    def on_raise(self, it, exc):
        it.st.check("P3:validator-rejects-everything-else", self.value != self.S)
        it.st.check("P3:validator-rejects-with-an-Exception", is_exc(it, exc, "Exception"))


class Reconstruction(_M):
    """P4: walk T-COPY over the hooks the class defines and execute them symbolically."""
    file, func, name = FILE, "Missing", "C20/missing:Missing(copy/deepcopy/pickle routes)"

    def run(self, it):
        st = it.st
        st.contract = self
        node, mod, _ = it.engine.repo.find(self.file, "Missing")
        self.node, self.module = node, mod
        S = self.the_singleton(it)
        info = repo_class(it, FILE, "Missing")
        # the module-level binding MISSING = Missing(), bound exactly once
        binds = [s for s in mod.tree.body
                 if (isinstance(s, ast.AnnAssign) and isinstance(s.target, ast.Name) and s.target.id == "MISSING")
                 or (isinstance(s, ast.Assign) and any(isinstance(t, ast.Name) and t.id == "MISSING" for t in s.targets))]
        ok_bind = len(binds) == 1 and isinstance(binds[0].value, ast.Call) and isinstance(binds[0].value.func, ast.Name) \
            and binds[0].value.func.id == "Missing" and not binds[0].value.args
        st.check("P4:module-global-MISSING-is-bound-once-to-Missing()", z3.BoolVal(bool(ok_bind)), kind="frame")
        # "rejects attribute access and modification": __getattr__/__setattr__/__delattr__ (clauses P2) only guard the ordinary
        # routes; that *no* attribute can be attached (object.__setattr__, vars()) needs instances without storage of their
        # own: an empty __slots__ in a class whose bases declare none either (T-SLOTS: such instances have no __dict__)
        slots = [s for s in node.body if isinstance(s, ast.Assign)
                 and any(isinstance(t, ast.Name) and t.id == "__slots__" for t in s.targets)]
        empty = len(slots) == 1 and isinstance(slots[0].value, (ast.Tuple, ast.List)) and not slots[0].value.elts
        st.check("P2:instances-have-no-storage-of-their-own(empty-__slots__,-no-bases):nothing-can-be-attached-to-MISSING",
                 z3.BoolVal(bool(empty and not node.bases)), kind="frame",
                 note="class Missing must declare `__slots__ = ()` and have no base class")
        route = st.fork("route", [("copy.copy", True), ("copy.deepcopy", True), ("pickle(protocol 0-5)", True)])
        rname = ["copy", "deepcopy", "pickle"][route]
        result = self.walk(it, info, S, rname)
        st.meta.update(result=result)
        st.check(f"P4:{rname}-yields-the-one-MISSING-object", result == S)
        st.check("canary", z3.BoolVal(False), kind="canary")

    def hook(self, info, name):
        m = info.find_method(name)
        return m

    def walk(self, it, info, S, route):
        st = it.st
        try:
            if route == "copy" and self.hook(info, "__copy__") is not None:
                return it.call_function(method(it, info, S, "__copy__"), CallArgs())
            if route == "deepcopy" and self.hook(info, "__deepcopy__") is not None:
                return it.call_function(method(it, info, S, "__deepcopy__"), CallArgs([st.sym_ref("memo", "dict")]))
            if self.hook(info, "__reduce_ex__") is not None:
                proto = st.fresh("protocol", I)
                st.assume(z3.And(proto >= 0, proto <= 5) if route == "pickle" else proto == 4)
                rv = it.call_function(method(it, info, S, "__reduce_ex__"), CallArgs([V.VInt(proto)]))
            elif self.hook(info, "__reduce__") is not None:
                rv = it.call_function(method(it, info, S, "__reduce__"), CallArgs())
            else:
                # object.__reduce_ex__ -> copyreg.__newobj__(cls) / copyreg._reconstructor(cls, object, None):
                # object.__new__(cls), which does not go through the metaclass __call__
                lib.used("T-COPY: default reduce reconstructs with object.__new__(cls)")
                return st.alloc(info.cid)
        except PyRaise:
            st.check(f"P4:{route}-hook-does-not-raise", z3.BoolVal(False))
            raise PathEnd("hook raised")
        k = it.kind(rv)
        if k == "str":
            # a string means "this object is the module global of that name" (copy/deepcopy return x itself)
            if route in ("copy", "deepcopy"):
                return S
            from pyvc.lib import _literal_str
            nm = _literal_str(it, rv)
            st.check("P4:pickle-global-name-is-the-MISSING-binding", z3.BoolVal(nm == "MISSING"))
            return S if nm == "MISSING" else st.fresh_val("other_global")
        if k == "tuple":
            elems = lib.tuple_items(it, rv)
            if elems and len(elems) >= 2:
                args = lib.concrete_items(it, elems[1]) or []
                fn = elems[0]
                if it.kind(fn) == "type" and z3.is_int_value(st.simp(V.cid(fn))) and st.simp(V.cid(fn)).as_long() == info.cid:
                    # calling the class goes through MissingType.__call__ (contract P1): the singleton
                    lib.used("callee:MissingType.__call__ (P1)")
                    return S
                return it.call(fn, CallArgs(list(args)))
        raise Unsupported("reduce value of an unexpected shape")


CONTRACTS = [MetaCall(), Bool(), Eq(), GetAttr(), SetAttr(), DelAttr(), IsMissing(), NotMissing(), WhenMissing(),
             Validator(), Reconstruction()]


def extra_contracts():
    """"... nested inside containers and state instances - yields the one MISSING object": a copy / deep copy of a state instance is
    rebuilt from exactly its current attribute values (a held MISSING stays a held MISSING): the C04 contracts of State.__copy__
    / __deepcopy__ and the C05 contract of StateAttribute.validated, borrowed."""
    from .C02 import variant
    from .C04 import Copy, DeepCopy
    from .C05 import Validated, SequenceV, TupleVarV, TupleFixedV, SetV, MappingV, UnionV, NoneV, TypeV, LiteralV
    # ... and a state that is *given* MISSING holds MISSING: no validator of another annotation accepts it or turns it into one of
    # its own values (a falsy MISSING is not an empty container): the accept / reject clauses of C05's validators
    vals = [variant(c, "C20", ("",)) for c in (SequenceV, TupleVarV, TupleFixedV, SetV, MappingV, UnionV, NoneV, TypeV, LiteralV)]
    return vals + [variant(Copy, "C20", ("P5:a-copy",)), variant(DeepCopy, "C20", ("P5:a-deep-copy", "P5:each-attribute", "P5:the-original")), variant(Validated, "C20", ("",))]
